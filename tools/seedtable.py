#!/venv/bin/python
"""Prints the markdown table of DESIGN 14 from seeded/*/meta.json and a fresh self-test run of the seeds.  Development aid."""
import json, os, sys
sys.path.insert(0, os.path.join(os.path.dirname(os.path.abspath(__file__)), ".."))
from selftest import runner

res = {}
rows = []
for r in runner.run_all("/repo"):
    if r["id"].startswith("seed:"):
        res.setdefault(r["id"][5:], []).append(r)
for sid in sorted(res, key=lambda s: (s.split("-")[1], s)):
    m = json.load(open(f"/verif/seeded/{sid}/meta.json"))
    rs = res[sid]
    rules = sorted({x for r in rs for x in r.get("rules", [])})
    st = "/".join(sorted({r["status"] for r in rs}))
    blind = m.get("blind")
    b = {True: "blind", False: f"after ({m.get('added_rule', '?')})", None: "not measured"}[blind]
    summ = " ".join(m["summary"].split())
    summ = summ[:150] + ("..." if len(summ) > 150 else "")
    rows.append(f"| {sid} | {summ} | {', '.join(rules) if rules else '**' + st + '**'} | {b} |")
print("\n".join(rows))
if "--write" in sys.argv:
    d = open("/verif/DESIGN.md").read()
    a = d.index("<!-- seedtable:begin -->") + len("<!-- seedtable:begin -->")
    z = d.index("<!-- seedtable:end -->")
    open("/verif/DESIGN.md", "w").write(d[:a] + "\n" + "\n".join(rows) + "\n" + d[z:])
