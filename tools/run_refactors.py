#!/venv/bin/python
"""Development aid: run all 20 checks over the independent refactorings (selftest/refactors) only; prints every case that is not silent."""
import os, sys
from concurrent.futures import ProcessPoolExecutor
sys.path.insert(0, os.path.join(os.path.dirname(os.path.abspath(__file__)), ".."))
from selftest import runner

sel = sys.argv[1:]
cases = [c for c in runner.load_cases("/repo") if c["id"].startswith("refactor:") and (not sel or any(c["id"].startswith("refactor:" + s) for s in sel))]
work = [("/repo", c, p) for c in cases for p in c["props"]]
import fcntl, tempfile
with open(os.path.join(tempfile.gettempdir(), "sa-selftest.lock"), "w") as lk:
    fcntl.flock(lk, fcntl.LOCK_EX)
    with ProcessPoolExecutor(max_workers=int(os.environ.get("JOBS", "12"))) as ex:
        res = list(ex.map(runner.run_case, work, chunksize=4))
bad = [r for r in res if r["status"] != "silent"]
for r in bad:
    print(r["id"], r["prop"], r["status"], r.get("rules"), r.get("errors"), r.get("first") or r.get("detail"))
print(f"{len(cases)} refactorings x 20 checks = {len(res)} runs, {len(bad)} not silent")
