#!/venv/bin/python
"""record_fix.py <commit> <Fnn> "<what failed>" <prop>:<rule> [<prop>:<rule> ...]   appends `fixed` entries + a revert case. Development aid."""
import json, subprocess, sys
commit, fid, what = sys.argv[1:4]
pairs = [a.split(":") for a in sys.argv[4:]]
subj = subprocess.run(["git", "-C", "/repo", "log", "--format=%s", "-1", commit], stdout=subprocess.PIPE, text=True).stdout.strip()
files = subprocess.run(["git", "-C", "/repo", "show", "--format=", "--name-only", commit], stdout=subprocess.PIPE, text=True).stdout.split()
p = "/verif/known_findings.json"; d = json.load(open(p))
for prop, rule in pairs:
    d["findings"].append({"status": "fixed", "property": prop, "rule": rule, "commit": commit, "file": files[0] if files else "", "what": f"{what} ({fid})",
                          "line": f"fixed: property={prop} {commit} {what} ({fid})"})
json.dump(d, open(p, "w"), indent=1)
p = "/verif/selftest/reverts.json"; r = json.load(open(p))
if any(b != "-" for _, b in pairs):
    r.append({"id": f"revert:{commit}", "commit": commit, "props": sorted({a for a, b in pairs if b != "-"}), "expect": [b for _, b in pairs if b != "-"], "why": f"re-introduces the defect repaired by `{subj}` ({fid})"})
    json.dump(r, open(p, "w"), indent=1)
print("recorded", fid, commit, pairs)
