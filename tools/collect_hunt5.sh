#!/bin/sh
# collect_hunt5.sh <prop>: copy the scripts of a finished fourth-round hunter into findings/hunt5/<prop>/ (development aid)
p=$1; src=/tmp/wh5/$p/_hunt; dst=/verif/findings/hunt5/$p; mkdir -p $dst
[ -f $src/report.json ] || { echo "$p: no report.json"; exit 1; }
cp $src/report.json $dst/
for f in $src/f[0-9]*.py $src/extra*.py $src/util.py $src/common.py $src/helpers.py $src/*.pem; do [ -f "$f" ] && cp "$f" $dst/; done
# helper modules the scripts import from their own directory
for m in $(grep -ho "^from [a-z_0-9]* import\|^import [a-z_0-9]*$" $dst/*.py | awk '{print $2}' | sort -u); do [ -f $src/$m.py ] && cp $src/$m.py $dst/; done
ls $dst | tr '\n' ' '; echo
