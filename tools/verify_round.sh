#!/bin/sh
# verify every finished round-N seed that has not been filed yet: tools/verify_round.sh 2
N=$1
for c in 01 02 03 04 05 06 07 08 09 10 11 12 13 14 15 16 17 18 19 20; do
  if [ -f /tmp/wt/C$c/_seed/meta.json ] && [ ! -d /verif/seeded/C$c-$N ] && [ ! -f /tmp/vs_C$c-$N.done ]; then
    /verif/tools/verify_seed.py /tmp/wt/C$c C$c-$N > /tmp/vs_C$c-$N.log 2>&1; echo "C$c-$N rc=$?" >> /tmp/vs_round$N.log; touch /tmp/vs_C$c-$N.done
  fi
done
