#!/venv/bin/python
"""Writes the table of findings F22+ (defect hunt) into DESIGN.md between the findtable markers, from known_findings.json.  Development aid."""
import json, re, collections
d = json.load(open("/verif/known_findings.json"))["findings"]
rows = collections.OrderedDict()
for f in d:
    m = re.search(r"\((F\d+)[;)]", f.get("what", "")) or re.search(r"(F\d+)", f.get("what", ""))
    if not m:
        continue
    fid = m.group(1)
    if int(fid[1:]) < 22:
        continue
    r = rows.setdefault(fid, {"props": [], "rules": [], "status": f["status"], "commit": f.get("commit", ""), "what": re.sub(r"\s*\(F\d+[^)]*\)\s*$", "", f["what"])})
    if f["property"] not in r["props"]:
        r["props"].append(f["property"])
    if f.get("rule") and f["rule"] != "-" and f["rule"] not in r["rules"]:
        r["rules"].append(f["rule"])
out = ["| # | properties | status | commit | rule(s) | what failed |", "|---|---|---|---|---|---|"]
for fid in sorted(rows, key=lambda x: int(x[1:])):
    r = rows[fid]
    what = r["what"] if len(r["what"]) < 330 else r["what"][:327] + "..."
    out.append(f"| {fid} | {' '.join(r['props'])} | {'**known**' if r['status'] == 'known' else 'fixed'} | {r['commit'] or '-'} | {', '.join(r['rules']) or '(none: outside the clauses the check decides)'} | {what} |")
s = open("/verif/DESIGN.md").read()
a = s.index("<!-- findtable:begin -->") + len("<!-- findtable:begin -->")
z = s.index("<!-- findtable:end -->")
open("/verif/DESIGN.md", "w").write(s[:a] + "\n" + "\n".join(out) + "\n" + s[z:])
print(len(rows), "findings")
