"""Self-validation of the rule tables (thorough tier): every breaking variant must be reported by the check of its property,
every benign (behaviour-preserving) variant must leave the check silent.  Variants are analysed as in-memory overlays of /repo's
current files - nothing is written to /repo, nothing is executed.

Variant sources:
  selftest/mutants/<prop>.json   hand-written substitutions  {id, file, old, new, kind: breaking|benign, expect: [rule prefixes], why}
  seeded/<id>/patch.diff         changes written by independent sub-agents (breaking; confirmed with a failing demonstration)
  selftest/refactors/<p>/rN.diff behaviour-preserving refactorings written by independent sub-agents (benign, all 20 checks)
  selftest/reverts.json          the defects repaired by fix: commits, re-introduced by reversing the commit's diff
A variant whose anchor text no longer exists in /repo is reported as `stale` (never as killed)."""
from __future__ import annotations

import json
import os
import subprocess
import sys
import tempfile
import time
from concurrent.futures import ProcessPoolExecutor

HERE = os.path.dirname(os.path.abspath(__file__))
VERIF = os.path.dirname(HERE)
sys.path.insert(0, VERIF)


def _apply_diff(root: str, diff_text: str, reverse=False) -> dict[str, str] | None:
    """Apply a unified diff to copies of the touched files; returns overlay {rel: text} or None if it does not apply."""
    files = []
    for line in diff_text.splitlines():
        if line.startswith("+++ b/"):
            files.append(line[6:].strip())
    with tempfile.TemporaryDirectory(prefix="sa-overlay-") as tmp:
        for rel in files:
            src = os.path.join(root, rel)
            dst = os.path.join(tmp, rel)
            os.makedirs(os.path.dirname(dst), exist_ok=True)
            if os.path.exists(src):
                with open(src, "rb") as a, open(dst, "wb") as b:
                    b.write(a.read())
        cmd = ["patch", "-p1", "-s", "--no-backup-if-mismatch", "-F3", "-l"] + (["-R"] if reverse else [])
        p = subprocess.run(cmd, cwd=tmp, input=diff_text, text=True, stdout=subprocess.PIPE, stderr=subprocess.STDOUT)
        if p.returncode != 0:
            return None
        out = {}
        for rel in files:
            with open(os.path.join(tmp, rel), encoding="utf-8") as fh:
                out[rel] = fh.read()
        return out


def _apply_diff_3way(root: str, diff_text: str) -> dict[str, str] | None:
    """A patch written for an older /repo (a seed filed before later fix: commits touched the same file): rebuild its base from the blob
    id on the `index` line, apply it there, and merge the result into the current file with `git merge-file` (no conflict allowed)."""
    import re

    out = {}
    parts = re.split(r"(?m)^diff --git ", diff_text)
    for part in parts[1:]:
        part = "diff --git " + part
        m = re.search(r"(?m)^\+\+\+ b/(.+)$", part)
        mi = re.search(r"(?m)^index ([0-9a-f]+)\.\.([0-9a-f]+)", part)
        if not m or not mi:
            return None
        rel = m.group(1).strip()
        if not rel.endswith(".py"):
            continue
        base = subprocess.run(["git", "-C", root, "cat-file", "-p", mi.group(1)], stdout=subprocess.PIPE)
        if base.returncode != 0:
            return None
        with tempfile.TemporaryDirectory(prefix="sa-3way-") as tmp:
            bp = os.path.join(tmp, "base", rel)
            os.makedirs(os.path.dirname(bp), exist_ok=True)
            open(bp, "wb").write(base.stdout)
            tp = os.path.join(tmp, "theirs", rel)
            os.makedirs(os.path.dirname(tp), exist_ok=True)
            open(tp, "wb").write(base.stdout)
            pr = subprocess.run(["patch", "-p1", "-s", "--no-backup-if-mismatch"], cwd=os.path.join(tmp, "theirs"), input=part, text=True, stdout=subprocess.PIPE, stderr=subprocess.STDOUT)
            if pr.returncode != 0:
                return None
            cur = os.path.join(root, rel)
            mg = subprocess.run(["git", "merge-file", "-p", cur, bp, tp], stdout=subprocess.PIPE, stderr=subprocess.PIPE)
            if mg.returncode != 0:  # >0: conflicts, <0: error
                return None
            out[rel] = mg.stdout.decode("utf-8")
    return out or None


def _revert_3way(root: str, old_rev: str, new_rev: str) -> dict[str, str] | None:
    """Undo the change old_rev..new_rev on top of the current files by a three-way merge (later commits touched the same files)."""
    names = subprocess.run(["git", "-C", root, "diff", "--name-only", old_rev, new_rev], stdout=subprocess.PIPE, text=True)
    if names.returncode != 0:
        return None
    out = {}
    for rel in names.stdout.split():
        if not rel.endswith(".py"):
            continue
        pre = subprocess.run(["git", "-C", root, "show", f"{old_rev}:{rel}"], stdout=subprocess.PIPE)
        post = subprocess.run(["git", "-C", root, "show", f"{new_rev}:{rel}"], stdout=subprocess.PIPE)
        if pre.returncode or post.returncode:
            return None
        with tempfile.TemporaryDirectory(prefix="sa-3way-") as tmp:
            a, b = os.path.join(tmp, "pre.py"), os.path.join(tmp, "post.py")
            open(a, "wb").write(pre.stdout)
            open(b, "wb").write(post.stdout)
            mg = subprocess.run(["git", "merge-file", "-p", os.path.join(root, rel), b, a], stdout=subprocess.PIPE, stderr=subprocess.PIPE)
            if mg.returncode != 0:
                return None
            out[rel] = mg.stdout.decode("utf-8")
    return out or None


def load_cases(root: str, prop: str | None = None):
    cases = []
    mdir = os.path.join(HERE, "mutants")
    if os.path.isdir(mdir):
        for f in sorted(os.listdir(mdir)):
            if not f.endswith(".json"):
                continue
            for c in json.load(open(os.path.join(mdir, f))):
                c.setdefault("props", [f[:-5]])
                c["source"] = "mutant"
                cases.append(c)
    sdir = os.path.join(VERIF, "seeded")
    if os.path.isdir(sdir):
        for d in sorted(os.listdir(sdir)):
            pf = os.path.join(sdir, d, "patch.diff")
            if os.path.exists(pf):
                meta = json.load(open(os.path.join(sdir, d, "meta.json")))
                cases.append({"id": f"seed:{d}", "props": meta.get("detected_by") or [meta["property"]], "kind": "breaking", "diff": open(pf).read(), "source": "seeded",
                              "why": meta.get("summary", ""), "expect": meta.get("expect_rules", [])})
    # generated whole-package behaviour-preserving variants: every check must stay silent on each of them
    from selftest.gen import transform as _T

    for gid, (_fn, why) in _T.GENERATED.items():
        cases.append({"id": gid, "props": [f"C{i:02d}" for i in range(1, 21)], "kind": "benign", "gen": gid, "source": "generated", "why": why})
    # behaviour-preserving refactorings written by independent sub-agents (property text only): every check must stay silent on each
    rdir = os.path.join(HERE, "refactors")
    if os.path.isdir(rdir):
        for d in sorted(os.listdir(rdir)):
            if not os.path.isdir(os.path.join(rdir, d)):
                continue
            for f in sorted(os.listdir(os.path.join(rdir, d))):
                if f.endswith(".diff"):
                    cases.append({"id": f"refactor:{d}-{f[:-5]}", "props": [f"C{i:02d}" for i in range(1, 21)], "kind": "benign", "diff": open(os.path.join(rdir, d, f)).read(),
                                  "source": "refactor", "why": "independent behaviour-preserving refactoring"})
    rf = os.path.join(HERE, "reverts.json")
    if os.path.exists(rf):
        for c in json.load(open(rf)):
            c["source"] = "revert"
            c["kind"] = "breaking"
            cases.append(c)
    if prop:
        cases = [c for c in cases if prop in c["props"]]
    return cases


def overlay_for(root: str, case) -> dict[str, str] | None:
    if "diff" in case:
        return _apply_diff(root, case["diff"], reverse=case.get("reverse", False)) or (None if case.get("reverse") else _apply_diff_3way(root, case["diff"]))
    if "gen" in case:
        import glob
        from selftest.gen import transform as _T

        fn = _T.GENERATED[case["gen"]][0]
        ov = {}
        for path in glob.glob(os.path.join(root, "aiohttp", "**", "*.py"), recursive=True):
            with open(path, encoding="utf-8") as fh:
                ov[os.path.relpath(path, root)] = fn(fh.read())
        return ov
    if "range" in case:  # several dependent fix commits reverted together: reverse of `git diff A B`
        p = subprocess.run(["git", "-C", root, "diff", case["range"][0], case["range"][1]], stdout=subprocess.PIPE, text=True)
        if p.returncode != 0 or not p.stdout.strip():
            return None
        return _apply_diff(root, p.stdout, reverse=True) or _revert_3way(root, case["range"][0], case["range"][1])
    if "commit" in case:
        p = subprocess.run(["git", "-C", root, "show", "--format=", case["commit"]], stdout=subprocess.PIPE, text=True)
        if p.returncode != 0:
            return None
        return _apply_diff(root, p.stdout, reverse=True) or _revert_3way(root, case["commit"] + "^", case["commit"])
    ov = {}
    edits = case.get("edits") or [{"file": case["file"], "old": case["old"], "new": case["new"], "count": case.get("count", 1)}]
    for e in edits:
        rel = e["file"]
        text = ov.get(rel)
        if text is None:
            with open(os.path.join(root, rel), encoding="utf-8") as fh:
                text = fh.read()
        if text.count(e["old"]) != e.get("count", 1):
            return None
        ov[rel] = text.replace(e["old"], e["new"])
    return ov


def run_case(args):
    root, case, prop = args
    from sa.loader import AnalysisError
    from sa.main import run_property
    import ast

    t0 = time.time()
    ov = overlay_for(root, case)
    if ov is None:
        return {"id": case["id"], "prop": prop, "kind": case["kind"], "status": "stale", "detail": "anchor text / diff no longer applies to /repo"}
    ov = {rel: text for rel, text in ov.items() if rel.endswith(".py")}  # .pxd / .pyx / docs are not analysed
    for rel, text in ov.items():
        try:
            ast.parse(text)
        except SyntaxError as e:
            return {"id": case["id"], "prop": prop, "kind": case["kind"], "status": "invalid", "detail": f"variant does not parse: {e}"}
    try:
        chk = run_property(prop, "quick", root, overlay=ov, quiet=True)
        known = {(k.get("rule"), k.get("file"), k.get("scope"), " ".join(k.get("construct", "").split()), " ".join(k.get("missing", "").split())) for k in chk._known() if k.get("status") == "known"}
        viol = [f for f in chk.findings if (f.rule, f.file, f.scope, f.construct, f.missing) not in known]
        errs = list(chk.analysis_errors)
    except AnalysisError as e:
        viol, errs = [], [str(e)]
    except Exception as e:  # engine crash on a variant: report, never count as detection
        return {"id": case["id"], "prop": prop, "kind": case["kind"], "status": "crash", "detail": f"{type(e).__name__}: {e}"}
    rules = sorted({f.rule for f in viol})
    exp = case.get("expect") or []
    if case["kind"] == "breaking":
        if viol:
            hit_expected = not exp or any(r.startswith(tuple(exp)) for r in rules)
            status = "killed" if hit_expected else "killed-other-rule"
        elif errs:
            status = "analysis-error"
        else:
            status = "SURVIVED"
    else:
        status = "silent" if not viol and not errs else "FALSE-ALARM"
    return {"id": case["id"], "prop": prop, "kind": case["kind"], "source": case.get("source"), "status": status, "rules": rules, "errors": errs[:2],
            "first": (viol[0].message[:160] if viol else ""), "wall_s": round(time.time() - t0, 2)}


def run_all(root="/repo", prop=None, jobs=16):
    cases = load_cases(root, prop)
    work = []
    consulted: dict[str, set[str] | None] = {}

    def _consults(p: str, c) -> bool:
        """An independent refactoring is run against the check of property p only when it touches a module that check reads (the list of
        modules consulted is in the evidence file of p's last run on /repo; without one, everything is run)."""
        if p not in consulted:
            try:
                consulted[p] = set(json.load(open(os.path.join(VERIF, "evidence", f"{p}.json")))["coverage"]["modules_consulted"])
            except (OSError, KeyError, ValueError):
                consulted[p] = None
        mods = consulted[p]
        if mods is None:
            return True
        touched = {ln[6:].strip() for ln in c["diff"].splitlines() if ln.startswith("+++ b/")}
        return bool(touched & mods)

    for c in cases:
        for p in c["props"]:
            if prop is None or p == prop:
                if c.get("source") == "refactor" and not _consults(p, c):
                    continue
                work.append((root, c, p))
    if not work:
        return []
    # one self-test run at a time per machine: concurrent runs (several developers / agents) would only thrash
    import fcntl

    with open(os.path.join(tempfile.gettempdir(), "sa-selftest.lock"), "w") as lk:
        t0 = time.time()
        while True:  # wait for a running self-test, but not for ever: after ten minutes go ahead regardless
            try:
                fcntl.flock(lk, fcntl.LOCK_EX | fcntl.LOCK_NB)
                break
            except OSError:
                if time.time() - t0 > 600:
                    break
                time.sleep(2)
        with ProcessPoolExecutor(max_workers=min(jobs, len(work))) as ex:
            return list(ex.map(run_case, work))


def summarise(results):
    s = {"breaking_total": 0, "killed": 0, "survived": [], "benign_total": 0, "silent": 0, "false_alarms": [], "stale": [], "other": []}
    for r in results:
        if r["kind"] == "breaking":
            s["breaking_total"] += 1
            if r["status"].startswith("killed"):
                s["killed"] += 1
            elif r["status"] == "SURVIVED":
                s["survived"].append(f"{r['prop']}:{r['id']}")
            elif r["status"] == "stale":
                s["stale"].append(r["id"])
            else:
                s["other"].append(f"{r['prop']}:{r['id']}:{r['status']}")
        else:
            s["benign_total"] += 1
            if r["status"] == "silent":
                s["silent"] += 1
            elif r["status"] == "stale":
                s["stale"].append(r["id"])
            else:
                s["false_alarms"].append(f"{r['prop']}:{r['id']}:{','.join(r.get('rules', []))}")
    return s


def run_for_property(prop: str, root: str, chk):
    """Called by the thorough tier after the verdict was computed and printed; never changes the exit code."""
    res = run_all(root, prop)
    s = summarise(res)
    for r in res:
        if r["status"] == "SURVIVED":
            print(f"SELFTEST-WEAK property={prop} variant={r['id']} not detected")
        elif r["status"] == "FALSE-ALARM":
            print(f"SELFTEST-NOISY property={prop} benign variant={r['id']} reported by {r['rules']}")
    print(f"[{prop}/selftest] breaking {s['killed']}/{s['breaking_total']} detected, benign {s['silent']}/{s['benign_total']} silent, stale {len(s['stale'])}")
    # append to the evidence file written by finish()
    ep = os.path.join(VERIF, "evidence", f"{prop}.json")
    if getattr(chk, "write_evidence", True) and os.path.exists(ep):
        ev = json.load(open(ep))
        ev["coverage"]["selftest"] = {**s, "results": res[:200]}
        ev["coverage"]["mutants_total"] = s["breaking_total"]
        ev["coverage"]["mutants_killed"] = s["killed"]
        ev["coverage"]["benign_total"] = s["benign_total"]
        ev["coverage"]["benign_silent"] = s["silent"]
        json.dump(ev, open(ep, "w"), indent=1, default=str)
    return s


if __name__ == "__main__":
    import argparse

    ap = argparse.ArgumentParser()
    ap.add_argument("prop", nargs="?")
    ap.add_argument("--repo", default="/repo")
    ap.add_argument("-v", action="store_true")
    a = ap.parse_args()
    res = run_all(a.repo, a.prop)
    for r in sorted(res, key=lambda r: (r["prop"], r["id"])):
        if a.v or r["status"] in ("SURVIVED", "FALSE-ALARM", "stale", "crash", "invalid", "analysis-error", "killed-other-rule"):
            print(f"{r['prop']:4} {r['status']:18} {r['id']:40} {','.join(r.get('rules', []))[:70]} {r.get('detail', '') or r.get('first', '')[:80]}")
    print(json.dumps({k: (v if not isinstance(v, list) else v) for k, v in summarise(res).items()}, indent=1))
