"""Variants for the rules written after seeding round 7: behaviour-preserving rewrites (benign, must stay silent) and breaking edits other
than the seeds themselves (must be reported by the named rule)."""
UD = "aiohttp/web_urldispatcher.py"
CJ = "aiohttp/cookiejar.py"
CL = "aiohttp/client.py"
WR = "aiohttp/web_response.py"
ST = "aiohttp/streams.py"
CN = "aiohttp/connector.py"
HP = "aiohttp/http_parser.py"
MP = "aiohttp/multipart.py"


def B(id, file, old, new, expect, why, props, count=1):
    return {"id": id, "props": list(props), "kind": "breaking", "file": file, "old": old, "new": new, "expect": expect, "why": why, "count": count}


def N(id, file, old, new, why, props, count=1):
    return {"id": id, "props": list(props), "kind": "benign", "file": file, "old": old, "new": new, "why": why, "count": count}


HEAP = "            self._expire_heap = [\n                entry\n                for entry in self._expire_heap\n                if self._expirations.get(entry[1]) == entry[0]\n            ]\n            heapq.heapify(self._expire_heap)\n"
BODY = "        if self._compressed_body is None:\n            body = self._body\n        else:\n            body = self._compressed_body\n"

CASES = [
 N("method-first-local", UD, "        if route := self._routes.get(request.method, self._any_route):\n", "        route = self._routes.get(request.method)\n        if route is None:\n            route = self._any_route\n        if route:\n", "the fallback to the wildcard as a second step", ("C14",)),
 B("method-any-ifexp", UD, "        if route := self._routes.get(request.method, self._any_route):\n", "        if route := (self._any_route if self._any_route else self._routes.get(request.method)):\n", ["C14.method.first"], "the wildcard is preferred through a conditional expression", ("C14",)),
 N("heap-rebuild-local", CJ, HEAP, "            live = [entry for entry in self._expire_heap if self._expirations.get(entry[1]) == entry[0]]\n            self._expire_heap = live\n            heapq.heapify(self._expire_heap)\n", "the filtered list in a local first", ("C16",)),
 B("heap-rebuild-no-heapify", CJ, HEAP, HEAP.replace("            heapq.heapify(self._expire_heap)\n", ""), ["C16.heap"], "the compaction no longer restores the heap order", ("C16",)),
 N("retry-tuple-order", CL, "                    except (ClientOSError, ServerDisconnectedError):\n", "                    except (ServerDisconnectedError, ClientOSError):\n", "order of the caught classes", ("C18",)),
 B("retry-client-connection-error", CL, "                    except (ClientOSError, ServerDisconnectedError):\n", "                    except ClientConnectionError:\n", ["C18.retry.timeouts"], "the common base class of the timeout errors is retried", ("C18",)),
 N("coded-ifexp", WR, BODY, "        body = self._body if self._compressed_body is None else self._compressed_body\n", "conditional expression", ("C04",)),
 B("coded-test-uncoded", WR, "        if body is None or self._must_be_empty_body:\n            await super().write_eof()\n", "        if not self._body or self._must_be_empty_body:\n            await super().write_eof()\n", ["C04.coded.sent"], "the head-only shortcut looks at the uncoded body", ("C04",)),
 N("headers-fresh-copy", CL, "        result = CIMultiDict(self._default_headers)\n", "        result = self._default_headers.copy()\n", "copy() instead of the constructor", ("C17",)),
 B("eof-resume-when-paused", ST, "        self._protocol.resume_reading(resume_parser=False)\n", "        if self._protocol._reading_paused and self._size:\n            self._protocol.resume_reading(resume_parser=False)\n", ["C08.flow.eof", "C05.resume.eof"], "an empty stream that paused on chunk ends is not resumed at EOF", ("C08", "C05")),
 N("close-recheck-early-return", CN, "            else:\n                if self._closed:\n                    proto.close()\n                    raise ClientConnectionError(\"Connector is closed.\")\n", "            if self._closed:\n                proto.close()\n                raise ClientConnectionError(\"Connector is closed.\")\n", "the re-check behind the try statement instead of in its else clause", ("C07",)),
 N("part-headers-local", MP, "            await writer.write(b\"--\" + self._boundary + b\"\\r\\n\")\n            await writer.write(part._binary_headers)\n", "            part_headers = part._binary_headers\n            await writer.write(b\"--\" + self._boundary + b\"\\r\\n\")\n            await writer.write(part_headers)\n", "the header block of the part in a local, rendered behind _part_encodings()", ("C19", "C04")),
 B("part-headers-before-encodings", MP, '        for part, _e, _te in self._parts:\n            encoding, te_encoding = self._part_encodings(part)\n            if self._is_form_data:\n                # https://datatracker.ietf.org/doc/html/rfc7578#section-4.2\n                assert CONTENT_DISPOSITION in part.headers\n                disposition = part.headers[CONTENT_DISPOSITION]\n                # a non-ASCII name is sent in the extended form, name*=\n                assert "name=" in disposition or "name*=" in disposition\n\n            await writer.write(b"--" + self._boundary + b"\\r\\n")\n            await writer.write(part._binary_headers)\n', '        for part, _e, _te in self._parts:\n            part_headers = part._binary_headers\n            encoding, te_encoding = self._part_encodings(part)\n            if self._is_form_data:\n                # https://datatracker.ietf.org/doc/html/rfc7578#section-4.2\n                assert CONTENT_DISPOSITION in part.headers\n                disposition = part.headers[CONTENT_DISPOSITION]\n                # a non-ASCII name is sent in the extended form, name*=\n                assert "name=" in disposition or "name*=" in disposition\n\n            await writer.write(b"--" + self._boundary + b"\\r\\n")\n            await writer.write(part_headers)\n', ["C19.headers.order"], "the header block that is sent was rendered before the per-part encodings (and the Content-Length they stamp) were fixed", ("C19",)),
]
