HP = "aiohttp/http_parser.py"
WP = "aiohttp/web_protocol.py"
def B(id, file, old, new, expect, why, props=("C01",), count=1):
    return {"id": id, "props": list(props), "kind": "breaking", "file": file, "old": old, "new": new, "expect": expect, "why": why, "count": count}
def N(id, file, old, new, why, props=("C01",), count=1):
    return {"id": id, "props": list(props), "kind": "benign", "file": file, "old": old, "new": new, "why": why, "count": count}
CASES = [
 B("name-match", HP, "if not TOKENRE.fullmatch(name):", "if not TOKENRE.match(name):", ["C01.lex.name", "C01.rej.token"], "prefix match admits `Foo\\x00bar` as a field name"),
 B("vers-noascii", HP, 'VERSRE: Final[Pattern[str]] = re.compile(r"HTTP/(\\d)\\.(\\d)", re.ASCII)', 'VERSRE: Final[Pattern[str]] = re.compile(r"HTTP/(\\d)\\.(\\d)")', ["C01.lex"], "Unicode digits accepted in the version"),
 B("digits-noascii", HP, 'DIGITS: Final[Pattern[str]] = re.compile(r"\\d+", re.ASCII)', 'DIGITS: Final[Pattern[str]] = re.compile(r"\\d+")', ["C01.lex"], "Content-Length with Arabic-Indic digits"),
 B("ows-sp-only", HP, "if {bname[0], bname[-1]} & {32, 9}:", "if {bname[0], bname[-1]} & {32}:", ["C01.rej.ows"], "`Name\\t: v` accepted"),
 B("tecl-only-chunked", HP, "            if hdrs.CONTENT_LENGTH in headers:\n                raise BadHttpMessage(", "            if chunked and hdrs.CONTENT_LENGTH in headers:\n                raise BadHttpMessage(", ["C01.rej.tecl"], "TE (non-chunked final for responses) + CL accepted"),
 B("te-twice", HP, "if chunked_count > 1:", "if chunked_count > 2:", ["C01.rej.te2"], "chunked, chunked accepted"),
 B("ctl-drop-lf", HP, '_FIELD_VALUE_FORBIDDEN_CTL_RE: Final[Pattern[str]] = re.compile(\n    r"[\\x00-\\x08\\x0a-\\x1f\\x7f]"\n)', '_FIELD_VALUE_FORBIDDEN_CTL_RE: Final[Pattern[str]] = re.compile(\n    r"[\\x00-\\x08\\x0b-\\x1f\\x7f]"\n)', ["C01.lex.value"], "LF allowed inside a field value"),
 B("host-http10", HP, "if version_o == HttpVersion11 and hdrs.HOST not in headers:", "if version_o == HttpVersion10 and hdrs.HOST not in headers:", ["C01.rej.host"], "HTTP/1.1 without Host accepted"),
 B("barelf-lax", HP, '                    if b"\\n" in tail:\n                        raise BadHttpMessage("Bad line ending, expected CRLF")', '                    if b"\\n" in tail and self.lax:\n                        raise BadHttpMessage("Bad line ending, expected CRLF")', ["C01.rej.barelf"], "bare LF in the start line buffered in strict mode"),
 B("singleton-te", HP, '        "transfer-encoding",\n', "", ["C01.rej.singleton"], "two Transfer-Encoding headers accepted"),
 B("lax-default", HP, "    lax: ClassVar[bool] = False", "    lax: ClassVar[bool] = True", ["C01.strictmode"], "request parser runs lax"),
 B("hex-strip", HP, "                        if self._lax:  # Allow whitespace in lax mode.\n", "                        if size_b:  # Allow whitespace.\n", ["C01.lex.chunk"], "chunk size ` 5 ` accepted in strict mode"),
 B("hex-search", HP, "if not re.fullmatch(HEXDIGITS, size_b):", "if not re.match(HEXDIGITS, size_b):", ["C01.lex", "C01.rej.chunkhex"], "chunk size `5x` parsed as 5"),
 B("err-narrow", WP, "            except HttpProcessingError as exc:\n                self._parse_failed = True\n", "            except LineTooLong as exc:\n                self._parse_failed = True\n", ["C01.err400"], "only LineTooLong is answered 400"),
 B("error-keepalive", WP, None, None, ["C01.err400"], "placeholder"),
 B("trailers-unparsed", HP, "                            trailers, raw_trailers = self._headers_parser.parse_headers(\n                                self._trailer_lines\n                            )", "                            trailers = raw_trailers = None", ["C01.trailers"], "trailer fields skip the header syntax checks"),
 B("obsfold-strict", HP, "continuation = self._lax and line and line[0] in (32, 9)", "continuation = line and line[0] in (32, 9)", ["C01.rej.obsfold"], "folded lines continue a header in strict mode"),
 B("crlf-after-chunk", HP, "                    elif len(chunk) >= len(SEP) or chunk != SEP[: len(chunk)]:\n                        exc = TransferEncodingError(", "                    elif len(chunk) >= len(SEP) and chunk != SEP[: len(chunk)] and not self._lax:\n                        exc = TransferEncodingError(", ["C01.rej.chunkcrlf"], "missing CRLF after chunk data tolerated"),
 N("vers-class", HP, 'VERSRE: Final[Pattern[str]] = re.compile(r"HTTP/(\\d)\\.(\\d)", re.ASCII)', 'VERSRE: Final[Pattern[str]] = re.compile(r"HTTP/([0-9])\\.([0-9])")', "[0-9] for \\d+ASCII: same language"),
 N("rename-count", HP, "chunked_count", "n_chunked", "rename a local", count=2),
 N("token-reorder", HP, 'TOKENRE: Final[Pattern[str]] = re.compile(f"[0-9A-Za-z{_TCHAR_SPECIALS}]+")', 'TOKENRE: Final[Pattern[str]] = re.compile(f"[{_TCHAR_SPECIALS}A-Za-z0-9]+")', "same character class, different order"),
 N("split-and", HP, "            if not self._lax and name in headers and name.lower() in SINGLETON_HEADERS:\n                raise BadHttpMessage(f\"Duplicate '{name}' header found.\")", "            if not self._lax and name in headers:\n                if name.lower() in SINGLETON_HEADERS:\n                    raise BadHttpMessage(f\"Duplicate '{name}' header found.\")", "split `and` into nested ifs"),
]
CASES = [c for c in CASES if c.get("old") is not None]
