"""Benign variants (behaviour-preserving rewrites of the repaired code) for the rules written after the second defect hunt."""
CP = "aiohttp/client_proto.py"
CJ = "aiohttp/cookiejar.py"
CH = "aiohttp/_cookie_helpers.py"
UD = "aiohttp/web_urldispatcher.py"
SV = "aiohttp/web_server.py"
CL = "aiohttp/client.py"
WW = "aiohttp/_websocket/writer.py"
WR = "aiohttp/_websocket/reader_py.py"
HP = "aiohttp/http_parser.py"
HW = "aiohttp/http_writer.py"
ST = "aiohttp/streams.py"
MP = "aiohttp/multipart.py"
CN = "aiohttp/connector.py"
RQ = "aiohttp/client_reqrep.py"
WS = "aiohttp/web_ws.py"
WP = "aiohttp/web_protocol.py"
WA = "aiohttp/web_app.py"
FR = "aiohttp/web_fileresponse.py"
CU = "aiohttp/compression_utils.py"
def N(id, file, old, new, why, props, count=1):
    return {"id": id, "props": list(props), "kind": "benign", "file": file, "old": old, "new": new, "why": why, "count": count}
CASES = [
 N("idle-watch-nested", CP, "        if self.idle and self.should_close:\n", "        if self.should_close and self.idle:\n", "operands of the idle watch swapped", ("C06",)),
 N("domain-lower-two-steps", CJ, "            domain = cookie[\"domain\"] = cookie[\"domain\"].lower()\n", "            cookie[\"domain\"] = cookie[\"domain\"].lower()\n            domain = cookie[\"domain\"]\n", "lower-casing and reading the Domain attribute in two statements", ("C16",)),
 N("setcookie-nested-else", CH, "            elif morsel_seen:\n                # Unknown attribute without a value, or a pair after an\n                # unparsable attribute - ignore it (RFC 6265 5.2)\n                continue\n            else:\n                # Invalid cookie string - no value for non-attribute\n                break\n", "            else:\n                if morsel_seen:\n                    # Unknown attribute without a value - ignore it (RFC 6265 5.2)\n                    continue\n                # Invalid cookie string - no value for non-attribute\n                break\n", "elif chain nested", ("C16",)),
 N("normalize-host-inline", UD, "        return self._normalize_host(host, default_port) == self._domain\n", "        normalized = self._normalize_host(host, default_port)\n        return normalized == self._domain\n", "intermediate local", ("C14",)),
 N("closing-flag-early-return", SV, "        self._connections[handler] = transport\n        if self._closing:\n", "        self._connections[handler] = transport\n        if self._closing is True:\n", "explicit comparison with True", ("C20",)),
 N("proxy-creds-loop-unrolled", CL, "            for name in (hdrs.AUTHORIZATION, hdrs.COOKIE):\n                if name not in explicit_proxy_headers:\n                    resolved_proxy_headers.popall(name, None)\n", "            if hdrs.AUTHORIZATION not in explicit_proxy_headers:\n                resolved_proxy_headers.popall(hdrs.AUTHORIZATION, None)\n            if hdrs.COOKIE not in explicit_proxy_headers:\n                resolved_proxy_headers.popall(hdrs.COOKIE, None)\n", "loop over the two credential headers unrolled", ("C17",)),
 N("ws-bytelen-bytes", WW, "        if isinstance(message, memoryview) and message.nbytes != len(message):\n            # len() counts items, the frame lengths below are byte counts\n            message = message.cast(\"B\")\n", "        if isinstance(message, memoryview) and message.nbytes != len(message):\n            # len() counts items, the frame lengths below are byte counts\n            message = bytes(message)\n", "copy instead of re-shape", ("C11",)),
 N("ws-qsize-max", WR, "        size = data.size or 1\n", "        size = max(data.size, 1)\n", "max() instead of `or`", ("C12",), count=2),
 N("ws-eof-latch-inverted", WR, "        if self._exc is None:\n            self.queue.feed_eof()\n", "        if self._exc is not None:\n            return\n        self.queue.feed_eof()\n", "early return form", ("C12",)),
 N("te10-version-le", HP, "        if version_o < HttpVersion11 and hdrs.TRANSFER_ENCODING in headers:\n", "        if hdrs.TRANSFER_ENCODING in headers and version_o <= HttpVersion10:\n", "same condition, other spelling", ("C01", "C06"), count=2),
 N("upgrade101-eq", HP, "                            and code in (0, 101)\n", "                            and (code == 0 or code == 101)\n", "membership spelled as two comparisons", ("C06",)),
 N("write-eof-length-if", HW, "        if chunk and self.length is not None:\n            # Same as write(): do not exceed the declared Content-Length\n            chunk = chunk[: self.length]\n            self.length -= len(chunk)\n", "        if self.length is not None and chunk:\n            # Same as write(): do not exceed the declared Content-Length\n            chunk = chunk[: self.length]\n            self.length = self.length - len(chunk)\n", "operands swapped, explicit subtraction", ("C04",)),
 N("wait-eof-timer-var", ST, "            with self._timer:\n                await self._eof_waiter\n", "            timer = self._timer\n            with timer:\n                await self._eof_waiter\n", "timer through a local", ("C18",)),
 N("read-cancelsafe-exc", ST, "                try:\n                    block = await self.readany()\n                except BaseException:\n                    # Don't lose what was already taken out of the buffer.\n                    self._unread_data(b\"\".join(blocks))\n                    raise\n", "                try:\n                    block = await self.readany()\n                except BaseException:\n                    # Don't lose what was already taken out of the buffer.\n                    taken = b\"\".join(blocks)\n                    self._unread_data(taken)\n                    raise\n", "joined bytes through a local", ("C08",)),
 N("closed-connector-msg", CN, "        if self._closed:\n            raise ClientConnectionError(\"Connector is closed.\")\n        key = req.connection_key\n", "        if self._closed:\n            raise ClientConnectionError(\"Connector is closed\")\n        key = req.connection_key\n", "message text", ("C07",)),
 N("reqclose-any", RQ, "        for value in self.headers.getall(hdrs.CONNECTION, ()):\n            if \"close\" in (token.strip().lower() for token in value.split(\",\")):\n", "        for value in self.headers.getall(hdrs.CONNECTION, ()):\n            tokens = [token.strip().lower() for token in value.split(\",\")]\n            if \"close\" in tokens:\n", "token list through a local", ("C06",)),
 N("ws-abort-helper-order", WS, "        if code == WSCloseCode.ABNORMAL_CLOSURE:\n", "        if code is WSCloseCode.ABNORMAL_CLOSURE:\n", "identity comparison of the enum member", ("C13",)),
 N("fresh-writer-local", WP, "            request._payload_writer = StreamWriter(self, self._loop)\n            text = exc.text\n", "            fresh_writer = StreamWriter(self, self._loop)\n            request._payload_writer = fresh_writer\n            text = exc.text\n", "fresh writer through a local", ("C05",)),
 N("cleanup-order-local", WA, "            await self._exit_started_contexts()\n        finally:\n            if self.on_cleanup.frozen:\n                await self.on_cleanup.send(self)\n", "            await self._exit_started_contexts()\n        finally:\n            frozen = self.on_cleanup.frozen\n            if frozen:\n                await self.on_cleanup.send(self)\n", "frozen flag through a local", ("C20",)),
 N("rangecode-guard", FR, "            self._compression = False\n\n        # If we are sending 0 bytes", "            if self._compression:\n                self._compression = False\n\n        # If we are sending 0 bytes", "conditional reset", ("C15",)),
 N("bounded-floor-order", HP, "            else max(self._max_decompress_size, low_water, 1)\n", "            else max(1, self._max_decompress_size, low_water)\n", "argument order of max()", ("C09",)),
 N("complete-check-order", HP, "        if self.size > 0 and not self.decompressor.eof:\n            raise ContentEncodingError(self.encoding)\n", "        if not self.decompressor.eof and self.size > 0:\n            raise ContentEncodingError(self.encoding)\n", "operand order", ("C09",)),
 N("lookahead-popleft", MP, "            line = self._unread.pop()\n            if line.startswith(self._boundary):\n", "            line = self._unread.popleft()\n            if line.startswith(self._boundary):\n", "the deque holds one line: either end", ("C19",)),
 N("maxsize-zero-and", MP, "            if 0 < self._client_max_size < len(data):\n", "            if self._client_max_size and len(data) > self._client_max_size:\n", "truthiness form of the zero convention", ("C19",)),
]
