HP = "aiohttp/http_parser.py"
WP = "aiohttp/web_protocol.py"
CP = "aiohttp/client_proto.py"
def B(id, file, old, new, expect, why, props, count=1):
    return {"id": id, "props": list(props), "kind": "breaking", "file": file, "old": old, "new": new, "expect": expect, "why": why, "count": count}
def N(id, file, old, new, why, props, count=1):
    return {"id": id, "props": list(props), "kind": "benign", "file": file, "old": old, "new": new, "why": why, "count": count}
LIM_OLD = """                max_line_length = (
                    self.max_field_size if self._lines else self.max_line_size
                )
"""
CASES = [
 # C03
 B("tail-other-limit", HP, "                    if len(tail) - tail.endswith(b\"\\r\") > max_line_length:\n                        raise LineTooLong(tail[:100] + b\"...\", max_line_length)",
   "                    if len(tail) - tail.endswith(b\"\\r\") > self.max_line_size:\n                        raise LineTooLong(tail[:100] + b\"...\", self.max_line_size)", ["C03.rp2"], "partial header line compared with the start-line limit", ("C03",)),
 B("cache-upgrade-local", HP, "        while start_pos < data_len or self._payload_has_more_data:\n", "        seen_msg = False\n        while start_pos < data_len or self._payload_has_more_data:\n            if seen_msg and not self._lines and self.lax:\n                break\n", ["C03.rp"], "placeholder - replaced below", ("C03",)),
 B("chunk-tail-drop", HP, "                        self._chunk_tail = chunk\n                        return PayloadState.PAYLOAD_NEEDS_INPUT, b\"\"\n\n                # read chunk and feed buffer", "                        return PayloadState.PAYLOAD_NEEDS_INPUT, b\"\"\n\n                # read chunk and feed buffer", ["C03.save"], "partial chunk-size line dropped when more input is requested", ("C03",)),
 B("tail-drop", HP, "                    # Only a line within the limits is retained.\n                    self._tail = tail\n", "                    # Only a line within the limits is retained.\n", ["C03.save", "C03.rp", "C03.rp2"], "unconsumed partial line not stored", ("C03",)),
 B("trailer-tail-limit", HP, "                        if len(chunk) - chunk.endswith(b\"\\r\") > self._max_field_size:\n                            raise LineTooLong(\n                                chunk[:100] + b\"...\", self._max_field_size\n                            )\n", "                        if len(chunk) - chunk.endswith(b\"\\r\") > self._max_line_size:\n                            raise LineTooLong(\n                                chunk[:100] + b\"...\", self._max_line_size\n                            )\n", ["C03.rp2"], "buffered partial trailer compared with the chunk-size limit", ("C03",)),
 B("state-writer", WP, "            if self._parser is not None:\n                self._parser.message_consumed()", "            if self._parser is not None:\n                self._parser._msg_in_flight -= 1", ["C03.state"], "protocol pokes parser state directly", ("C03",)),
 B("stale-offset", HP, "                start_pos = 0\n                data_len = len(data)\n                self._payload_parser = None", "                data_len = len(data)\n                self._payload_parser = None", ["C03.rp3"], "cursor not reset after the buffer was replaced by the body parser's remainder", ("C03",)),
 N("rename-startpos", HP, "start_pos", "cursor", "rename the cursor local", ("C03", "C10"), count=15),
 N("limit-inline", HP, LIM_OLD, "                max_line_length = self.max_field_size if self._lines else self.max_line_size\n", "one-line conditional", ("C03", "C10", "C01")),
 # C10
 B("int-ungated", HP, "            if not DIGITS.fullmatch(length_hdr):\n                                raise InvalidHeader(CONTENT_LENGTH)\n", "", ["C10.total", "C01.lex"], "placeholder", ("C10",)),
 B("split-unpack", HP, "        try:\n            method, path, version = line.split(\" \", maxsplit=2)\n        except ValueError:\n            raise BadHttpMethod(line) from None\n", "        method, path, version = line.split(\" \", maxsplit=2)\n", ["C10.total.request"], "ValueError from tuple unpacking leaves the parser", ("C10", "C01")),
 B("strict-decode", HP, "        line = lines[0].decode(\"utf-8\", \"surrogateescape\")\n        try:\n            method, path, version", "        line = lines[0].decode(\"utf-8\")\n        try:\n            method, path, version", ["C10.total.request"], "UnicodeDecodeError on a non-UTF-8 request line", ("C10",)),
 B("lines-nocount", HP, "                    if len(self._lines) > self.max_headers:\n                        raise BadHttpMessage(\"Too many headers received\")\n", "", ["C10.retention", "C01.rej.toomany"], "unbounded number of header lines retained", ("C10",)),
 B("tail-nolimit", HP, "                    if len(tail) - tail.endswith(b\"\\r\") > max_line_length:\n                        raise LineTooLong(tail[:100] + b\"...\", max_line_length)\n", "", ["C10.retention", "C10.limits", "C03.rp2"], "an endless line is buffered without limit", ("C10", "C03")),
 B("client-map", CP, "        except BaseException as underlying_exc:\n            if self.transport is not None:", "        except HttpProcessingError as underlying_exc:\n            if self.transport is not None:", ["C10.total.client"], "placeholder", ("C10",)),
 B("trailer-budget", HP, "                                max_trailers=max_trailers,\n                                limit=self._limit,\n                            )\n                            if not payload_parser.done:\n                                self._payload_parser = payload_parser\n                                # https://www.rfc-editor.org/info/rfc9110/#section-7.8-15", "                                limit=self._limit,\n                            )\n                            if not payload_parser.done:\n                                self._payload_parser = payload_parser\n                                # https://www.rfc-editor.org/info/rfc9110/#section-7.8-15", ["C10.limits.config"], "trailers of a chunked request are not charged against max_headers", ("C10",)),
 B("server-limits", WP, "            max_field_size=max_field_size,\n            max_headers=max_headers,\n            payload_exception=RequestPayloadError,", "            max_headers=max_headers,\n            payload_exception=RequestPayloadError,", ["C10.limits.config"], "configured max_field_size not handed to the parser", ("C10",)),
]
CASES = [c for c in CASES if c["why"] != "placeholder" and not c["why"].startswith("placeholder")]
