"""Breaking and benign variants for the rules added after seeding round 5."""
CN = "aiohttp/connector.py"
CU = "aiohttp/compression_utils.py"
CJ = "aiohttp/cookiejar.py"
CL = "aiohttp/client.py"
UD = "aiohttp/web_urldispatcher.py"
RQ = "aiohttp/client_reqrep.py"
WW = "aiohttp/_websocket/writer.py"
CP = "aiohttp/client_proto.py"
def B(id, file, old, new, expect, why, props, count=1):
    return {"id": id, "props": list(props), "kind": "breaking", "file": file, "old": old, "new": new, "expect": expect, "why": why, "count": count}
def N(id, file, old, new, why, props, count=1):
    return {"id": id, "props": list(props), "kind": "benign", "file": file, "old": old, "new": new, "why": why, "count": count}
CASES = [
 N("close-waiters-guarded-exc", CN, "                    keyed_waiter.cancel()\n", "                    if not keyed_waiter.done():\n                        keyed_waiter.set_exception(ClientConnectionError(\"Connector is closed.\"))\n", "failing the waiters with an exception, behind a done() test", ("C07",)),
 B("close-waiters-result", CN, "                    keyed_waiter.cancel()\n", "                    keyed_waiter.set_result(None)\n", ["C07.wake.done"], "set_result on a possibly finished waiter raises InvalidStateError out of close()", ("C07",)),
 N("members-start-zero", CU, "        members = 1\n", "        members = 0\n        members += 1\n", "counter initialised in two steps, still per call", ("C09",)),
 N("cookie-compare-flipped", CJ, "            if self._cookies[key].get(name) != cookie:\n", "            if cookie != self._cookies[key].get(name):\n", "operands of the whole-cookie comparison swapped", ("C16",)),
 B("cookie-compare-value", CJ, "            if self._cookies[key].get(name) != cookie:\n", "            stored = self._cookies[key].get(name)\n            if stored is None or stored.value != cookie.value:\n", ["C16.overwrite"], "attributes of a re-issued cookie are not updated", ("C16",)),
 N("scheme-set-literal", CL, "                        if scheme not in HTTP_AND_EMPTY_SCHEMA_SET:\n", "                        if scheme not in frozenset({\"http\", \"https\", \"\"}):\n", "the same set written in place", ("C17",)),
 B("scheme-set-ws", CL, "                        if scheme not in HTTP_AND_EMPTY_SCHEMA_SET:\n", "                        if scheme not in frozenset({\"http\", \"https\", \"ws\", \"wss\", \"\"}):\n", ["C17.limit"], "redirects to ws:// are followed", ("C17",)),
 N("static-allowed-inline", UD, "        allowed_methods = self._allowed_methods\n        if method not in allowed_methods:\n            return None, allowed_methods\n", "        if method not in self._allowed_methods:\n            return None, self._allowed_methods\n        allowed_methods = self._allowed_methods\n", "allowed set read in place", ("C14",)),
 N("chunked-latch-walrus", RQ, "            self.chunked = True  # enable chunked, no need to deal with length\n", "            self.chunked = True\n", "comment removed", ("C02", "C04")),
 B("chunked-lowered", RQ, "        # Now update the body using the existing method\n        self._update_body_from_data(body)\n", "        self.chunked = None\n        # Now update the body using the existing method\n        self._update_body_from_data(body)\n", ["C02.chunkpair", "C04.chunkpair"], "chunked reset on body replacement although compression stays on", ("C02", "C04")),
 B("compressor-global", WW, "        if not self._compressobj:\n            self._compressobj = ZLibCompressor(", "        if not self._compressobj:\n            self._compressobj = _SHARED = ZLibCompressor(", [], "placeholder: not a shared object yet", ("C11",)),
]
CASES = [c for c in CASES if c["id"] != "compressor-global"]
