"""Variants for the rules written after the third defect hunt: behaviour-preserving rewrites of the repaired code (benign, must stay
silent) and small breaking edits other than the plain reverts (must be reported by the named rule)."""
CP = "aiohttp/client_proto.py"
CJ = "aiohttp/cookiejar.py"
CH = "aiohttp/_cookie_helpers.py"
UD = "aiohttp/web_urldispatcher.py"
CL = "aiohttp/client.py"
CW = "aiohttp/client_ws.py"
WW = "aiohttp/_websocket/writer.py"
HP = "aiohttp/http_parser.py"
HL = "aiohttp/helpers.py"
ST = "aiohttp/streams.py"
MP = "aiohttp/multipart.py"
CN = "aiohttp/connector.py"
RQ = "aiohttp/client_reqrep.py"
WS = "aiohttp/web_ws.py"
WP = "aiohttp/web_protocol.py"
WQ = "aiohttp/web_request.py"
WRS = "aiohttp/web_response.py"
FR = "aiohttp/web_fileresponse.py"
PL = "aiohttp/payload.py"
DG = "aiohttp/client_middleware_digest_auth.py"


def B(id, file, old, new, expect, why, props, count=1):
    return {"id": id, "props": list(props), "kind": "breaking", "file": file, "old": old, "new": new, "expect": expect, "why": why, "count": count}


def N(id, file, old, new, why, props, count=1):
    return {"id": id, "props": list(props), "kind": "benign", "file": file, "old": old, "new": new, "why": why, "count": count}


CASES = [
 # ---- benign -------------------------------------------------------------------------------------------------------------------------------
 N("nokeepalive-unconditional", WP, "            if not keepalive_timeout and not message.should_close:\n", "            if not keepalive_timeout:\n", "the replace is harmless when the message says close already", ("C02",)),
 N("file-chunked-else", FR, "        if not self._chunked:\n            self.content_length = count\n", "        if self._chunked:\n            pass\n        else:\n            self.content_length = count\n", "else form of the guard", ("C02",)),
 N("start-500-var", WP, "            except Exception as exc:\n                # The response failed to start: answer like a failed handler\n                # (handle_error() raises if a part of it was sent already).\n                resp = self.handle_error(request, 500, exc)\n",
   "            except Exception as start_exc:\n                resp = self.handle_error(request, 500, start_exc)\n", "other name for the caught exception", ("C05",)),
 N("freshwriter-reordered", WRS, "            isinstance(writer, StreamWriter)\n            and writer.output_size == 0\n            and (\n                writer.chunked\n                or writer.length is not None\n                or writer._compress is not None\n            )\n",
   "            writer.output_size == 0\n            and isinstance(writer, StreamWriter)\n            and (\n                writer._compress is not None\n                or writer.length is not None\n                or writer.chunked\n            )\n", "operands reordered", ("C04",)),
 N("realfile-positive", PL, "        if not isinstance(getattr(raw, \"raw\", raw), io.FileIO):\n            return None\n        try:\n", "        is_file = isinstance(getattr(raw, \"raw\", raw), io.FileIO)\n        if not is_file:\n            return None\n        try:\n", "test through a local", ("C04",)),
 N("errtext-repr-local", WS, "            raise HTTPBadRequest(text=f\"Unsupported version: {version!r}\")\n", "            shown = repr(version)\n            raise HTTPBadRequest(text=f\"Unsupported version: {shown}\")\n", "repr() through a local", ("C05",)),
 N("payload-400-nested", WP, "            if isinstance(exc, RequestPayloadError) and isinstance(\n                cause, HttpProcessingError\n            ):\n", "            if isinstance(cause, HttpProcessingError) and isinstance(\n                exc, RequestPayloadError\n            ):\n", "operands swapped", ("C05",)),
 N("shortbody-local", RQ, "            if self._get_content_length():\n                # The head announces a body that is never sent: the peer\n", "            declared = self._get_content_length()\n            if declared:\n                # The head announces a body that is never sent: the peer\n", "length through a local", ("C06",)),
 N("expiry-local", CN, "            or (self._keepalive_timeout is not None and self._keepalive_timeout <= 0)\n        ):\n            transport = protocol.transport\n", "            or (self._keepalive_timeout is not None and not self._keepalive_timeout > 0)\n        ):\n            transport = protocol.transport\n", "`<= 0` spelled `not > 0`", ("C07",)),
 N("digest-close-except-star", DG, "            except BaseException:\n                # Nobody else owns the challenge response yet: close it or\n                # its connection stays acquired.\n                response.close()\n                raise\n", "            except BaseException as err:\n                response.close()\n                raise err\n", "named exception re-raised", ("C07",)),
 N("wait-exc-local", ST, "        if self._exception is not None:\n            raise self._exception\n\n        if not self._protocol.connected:\n", "        recorded = self._exception\n        if recorded is not None:\n            raise recorded\n\n        if not self._protocol.connected:\n", "recorded exception through a local", ("C08", "C09")),
 N("request-read-except-cancel", WQ, "                except BaseException:\n                    # Don't lose what was already taken out of the payload.\n                    self._payload._unread_data(bytes(body))\n                    raise\n", "                except BaseException:\n                    taken = bytes(body)\n                    self._payload._unread_data(taken)\n                    raise\n", "copy through a local", ("C08",)),
 N("te-isascii-early", HP, "        last = te.rsplit(\",\", maxsplit=1)[-1].strip(\" \\t\")\n        # .lower() transforms some non-ascii chars, so must check first.\n        return last.isascii() and last.lower() == \"chunked\"\n", "        last = te.rsplit(\",\", maxsplit=1)[-1].strip(\" \\t\")\n        if not last.isascii():\n            return False\n        return last.lower() == \"chunked\"\n", "early return form", ("C10",)),
 N("task-payload-ifexp", WW, "            if type(message) is not bytes:\n                # The task outlives a cancelled sender: it must not read a\n                # buffer that the caller can change after we return.\n                message = bytes(message)\n            coro = self._send_compressed_frame_async_locked(message, opcode, compress)\n",
   "            payload = message if type(message) is bytes else bytes(message)\n            coro = self._send_compressed_frame_async_locked(payload, opcode, compress)\n", "copy as a conditional expression into a new local", ("C11",)),
 N("errclose-direct-flags", WS, "                self._set_closing(exc.code)\n                await self.close(code=exc.code)\n", "                self._closing = True\n                self._close_code = exc.code\n                self._cancel_heartbeat()\n                await self.close(code=exc.code)\n", "helper inlined", ("C12", "C13")),
 N("wake-joined-test", WS, "            elif msg.type is WSMsgType.CLOSING:\n                # Woken up by close() in another task: it goes on with the\n                # handshake, the peer's CLOSE has not been received yet.\n                if not self._closed:\n                    self._set_closing(WSCloseCode.OK)\n",
   "            elif msg.type is WSMsgType.CLOSING and not self._closed:\n                self._set_closing(WSCloseCode.OK)\n            elif msg.type is WSMsgType.CLOSING:\n                pass\n", "guard joined into the branch test", ("C13",)),
 N("domain-inverted", UD, "        if url.absolute and url.raw_host:\n            # absolute-form target: the Host header must be ignored\n            # https://www.rfc-editor.org/rfc/rfc9112#section-3.2.2-8\n            host: str | None = url.raw_host\n            if url.explicit_port is not None:\n                host = f\"{host}:{url.explicit_port}\"\n        else:\n            host = request.headers.get(hdrs.HOST)\n",
   "        if not (url.absolute and url.raw_host):\n            host: str | None = request.headers.get(hdrs.HOST)\n        else:\n            host = url.raw_host\n            if url.explicit_port is not None:\n                host = f\"{host}:{url.explicit_port}\"\n", "branches swapped", ("C14",)),
 N("fixpoint-flipped", UD, "                if file_path != file_path.resolve():\n                    raise ValueError(\"path is not fully resolved\")\n", "                if not file_path.resolve() == file_path:\n                    raise ValueError(\"path is not fully resolved\")\n", "comparison flipped and negated", ("C15",)),
 N("date-suppress-tuple", HL, "            with suppress(ValueError, OverflowError):\n", "            with suppress(OverflowError, ValueError):\n", "order of the suppressed classes", ("C15",)),
 N("cookie-prefix-local", CJ, "                if not raw_path.startswith(cookie[\"path\"]):\n                    continue\n", "                under = raw_path.startswith(cookie[\"path\"])\n                if not under:\n                    continue\n", "test through a local", ("C16",)),
 N("history-earlier", CL, "            if req._body is not None:\n                await req._body.close()\n            resp._history = tuple(history)\n", "            resp._history = tuple(history)\n            if req._body is not None:\n                await req._body.close()\n", "history recorded one statement earlier", ("C17",)),
 N("drop-unconditional", RQ, "                if waiting is not None and waiting._read_timeout_handle is read_timer:\n                    # Nothing came in: the peer reads the body from now on, so\n                    # sock_read starts again once the request is sent.\n                    waiting._drop_timeout()\n", "                if waiting is not None:\n                    waiting._drop_timeout()\n", "the timer is dropped whether or not input re-armed it (it is started again after the upload)", ("C18",)),
 N("lookahead-insert", MP, "                # Interrupted while waiting: keep the line for the next call.\n                self._unread.appendleft(line)\n                raise\n", "                self._unread.insert(0, line)\n                raise\n", "insert(0, ..) instead of appendleft", ("C19",)),
 N("window-helper", MP, "        if self._prev_chunk is not None:\n            # Give the window read_chunk() holds back to the stream.\n            with warnings.catch_warnings():\n                warnings.filterwarnings(\"ignore\", category=DeprecationWarning)\n                self._content.unread_data(self._prev_chunk)\n            self._prev_chunk = None\n            self._content_eof = 0\n\n        if self._unread:\n            line = self._unread.popleft()\n",
   "        self._give_back_window()\n\n        if self._unread:\n            line = self._unread.popleft()\n", "give-back moved into a helper (added by the second edit)", ("C19",)),
 # ---- breaking ------------------------------------------------------------------------------------------------------------------------------
 B("expiry-strict-less", CN, "            or (self._keepalive_timeout is not None and self._keepalive_timeout <= 0)\n", "            or (self._keepalive_timeout is not None and self._keepalive_timeout < 0)\n", ["C07.release.expiry"], "a timeout of exactly 0 pools again", ("C07",)),
 B("freshwriter-forgets-compress", WRS, "                writer.chunked\n                or writer.length is not None\n                or writer._compress is not None\n", "                writer.chunked\n                or writer.length is not None\n", ["C04.freshwriter"], "a left-over compressor is not a reason to replace the writer", ("C04",)),
 B("proxy-limits-partial", CN, "                max_field_size=req._response_params[\"max_field_size\"],\n", "", ["C10.limits.config"], "one of the three limits is not passed", ("C10",)),
 B("close-second-budget", WS, "            async with async_timeout.timeout_at(deadline):\n                while True:\n", "            async with async_timeout.timeout(self._timeout):\n                while True:\n", ["C13.timeout"], "the wait phase gets a fresh close timeout", ("C13",)),
 B("sendfile-chunked", FR, "        if NOSENDFILE or self.compression or self._chunked:\n", "        if NOSENDFILE or self.compression:\n", ["C02.file.chunked", "C04.file.chunked"], "raw sendfile under chunked framing", ("C02", "C04")),
 B("lower-before-ascii-enc", HP, "        if enc.isascii() and enc.lower() in {\"gzip\", \"deflate\", \"br\", \"zstd\"}:\n", "        if enc.lower() in {\"gzip\", \"deflate\", \"br\", \"zstd\"}:\n", ["C10.total.lower"], "Content-Encoding token lower-cased without the ASCII test", ("C10",)),
 B("pong-paused-only-client", WS, "            if self._req.protocol._reading_paused:\n                # We are the ones not reading (flow control): the PONG may\n                # wait in the socket, no verdict until reading resumes.\n                self._reset_heartbeat()\n                return\n", "", ["C12.heartbeat.paused"], "the server side declares the peer dead while paused", ("C12",)),
 B("rewrite-keeps-ctype", CL, "                                hdrs.CONTENT_TYPE,\n                                hdrs.CONTENT_ENCODING,\n", "                                hdrs.CONTENT_ENCODING,\n", ["C17.table"], "Content-Type survives the rewrite to GET", ("C17",)),
 B("date-year-no-guard", CJ, "    DATE_YEAR_RE = re.compile(r\"(\\d{2,4})(?!\\d)\", re.ASCII)\n", "    DATE_YEAR_RE = re.compile(r\"(\\d{2,4})\", re.ASCII)\n", ["C16.persist.date"], "a five-digit year is read as its first four digits", ("C16",)),
 B("fixpoint-only-listing", UD, "                    filepath = unresolved_path.resolve()\n                    if filepath != filepath.resolve():\n                        raise ValueError(\"path is not fully resolved\")\n", "                    filepath = unresolved_path.resolve()\n", ["C15.sandbox.fixpoint"], "url_for() trusts one resolve()", ("C15",)),
 B("wait-exception-after-future", ST, "        if self._exception is not None:\n            raise self._exception\n\n        if not self._protocol.connected:\n            raise RuntimeError(\"Connection closed.\")\n", "        if not self._protocol.connected:\n            raise RuntimeError(\"Connection closed.\")\n", ["C08.wake.exception"], "the recorded exception is not looked at before waiting", ("C08",)),
 B("readline-guard-drops-line", MP, "                # Interrupted while waiting: keep the line for the next call.\n                self._unread.appendleft(line)\n                raise\n", "                raise\n", ["C19.lookahead.cancel"], "the handler re-raises without keeping the line", ("C19",)),
]
# the helper for `window-helper`
CASES[[c["id"] for c in CASES].index("window-helper")] = {
    "id": "window-helper", "props": ["C19"], "kind": "benign", "why": "give-back moved into a helper",
    "edits": [
        {"file": MP, "count": 1, "old": "        if self._prev_chunk is not None:\n            # Give the window read_chunk() holds back to the stream.\n            with warnings.catch_warnings():\n                warnings.filterwarnings(\"ignore\", category=DeprecationWarning)\n                self._content.unread_data(self._prev_chunk)\n            self._prev_chunk = None\n            self._content_eof = 0\n        if self._b64_carry:",
         "new": "        self._give_back_window()\n        if self._b64_carry:"},
        {"file": MP, "count": 1, "old": "    async def readline(self) -> bytes:\n        \"\"\"Reads body part by line by line.\"\"\"\n",
         "new": "    def _give_back_window(self) -> None:\n        if self._prev_chunk is not None:\n            with warnings.catch_warnings():\n                warnings.filterwarnings(\"ignore\", category=DeprecationWarning)\n                self._content.unread_data(self._prev_chunk)\n            self._prev_chunk = None\n            self._content_eof = 0\n\n    async def readline(self) -> bytes:\n        \"\"\"Reads body part by line by line.\"\"\"\n"},
    ],
}
