"""Variants for the rules written after seeding round 6 (and for F273): behaviour-preserving rewrites (benign, must stay silent) and breaking
edits other than the seeds themselves (must be reported by the named rule)."""
CP = "aiohttp/client_proto.py"
PL = "aiohttp/payload.py"
RD = "aiohttp/_websocket/reader_py.py"
HP = "aiohttp/http_parser.py"
ST = "aiohttp/streams.py"
CJ = "aiohttp/cookiejar.py"
HL = "aiohttp/helpers.py"
WP = "aiohttp/web_protocol.py"
RQ = "aiohttp/client_reqrep.py"


def B(id, file, old, new, expect, why, props, count=1):
    return {"id": id, "props": list(props), "kind": "breaking", "file": file, "old": old, "new": new, "expect": expect, "why": why, "count": count}


def N(id, file, old, new, why, props, count=1):
    return {"id": id, "props": list(props), "kind": "benign", "file": file, "old": old, "new": new, "why": why, "count": count}


IDLE = "        if data and self.idle:\n"
SWAP = "                reader, self._held_reader = self._held_reader, None\n                reader.feed_data(b\"\")\n"
ENC = "        self._encoder = codecs.getincrementalencoder(self._encoding or \"utf-8\")()\n"

WW = "aiohttp/_websocket/writer.py"
SPAWN_OLD = """            loop = asyncio.get_running_loop()
            if type(message) is not bytes:
                # The task outlives a cancelled sender: it must not read a
                # buffer that the caller can change after we return.
                message = bytes(message)
            coro = self._send_compressed_frame_async_locked(message, opcode, compress)
            if sys.version_info >= (3, 12):
                send_task = asyncio.Task(coro, loop=loop, eager_start=True)
            else:
                send_task = loop.create_task(coro)
            # Keep a strong reference to prevent garbage collection
            self._background_tasks.add(send_task)
            send_task.add_done_callback(self._background_tasks.discard)
            await asyncio.shield(send_task)
"""
SPAWN_NEW = """            if type(message) is not bytes:
                message = bytes(message)
            await self._run_shielded(
                self._send_compressed_frame_async_locked(message, opcode, compress)
            )
"""
HELPER_AT = "    def _write_websocket_frame(self, message: bytes, opcode: int, rsv: int) -> None:\n"
HELPER = """    async def _run_shielded(self, coro) -> None:
        loop = asyncio.get_running_loop()
        if sys.version_info >= (3, 12):
            send_task = asyncio.Task(coro, loop=loop, eager_start=True)
        else:
            send_task = loop.create_task(coro)
        self._background_tasks.add(send_task)
        send_task.add_done_callback(self._background_tasks.discard)
        await asyncio.shield(send_task)

"""
HELPER_LAZY = HELPER.replace("        if sys.version_info >= (3, 12):\n            send_task = asyncio.Task(coro, loop=loop, eager_start=True)\n        else:\n            send_task = loop.create_task(coro)\n", "        send_task = loop.create_task(coro)\n")
HELPER_NOSHIELD = HELPER.replace("await asyncio.shield(send_task)", "await send_task")


def E(id, kind, edits, why, props, expect=None):
    d = {"id": id, "props": list(props), "kind": kind, "edits": edits, "why": why}
    if expect:
        d["expect"] = expect
    return d


CASES = [
 # ---- C11: the spawn-and-shield code of send_frame() extracted into a helper (the refactoring part of seed C11-6) -------------------------------
 E("spawn-helper-extracted", "benign", [{"file": WW, "old": SPAWN_OLD, "new": SPAWN_NEW}, {"file": WW, "old": HELPER_AT, "new": HELPER + HELPER_AT}], "extract-method of the task/shield code", ("C11", "C13")),
 E("spawn-helper-lazy", "breaking", [{"file": WW, "old": SPAWN_OLD, "new": SPAWN_NEW}, {"file": WW, "old": HELPER_AT, "new": HELPER_LAZY + HELPER_AT}], "the extracted helper starts the send task lazily: close() overtakes a frame that passed the closing test", ("C11",), ["C11.closing"]),
 E("spawn-helper-noshield", "breaking", [{"file": WW, "old": SPAWN_OLD, "new": SPAWN_NEW}, {"file": WW, "old": HELPER_AT, "new": HELPER_NOSHIELD + HELPER_AT}], "the extracted helper awaits the task without shield: a cancelled sender cancels compress-and-send half way", ("C11",), ["C11.shield"]),
 # ---- C08.flow: pausing through a helper (the refactoring part of seed C08-6) ---------------------------------------------------------------------
 E("pause-helper-extracted", "benign", [{"file": ST, "old": "        if self._size > self._high_water:\n            self._protocol.pause_reading()\n        return False\n", "new": "        if self._size > self._high_water:\n            self._pause_reading()\n        return False\n"},
   {"file": ST, "old": "        if len(self._http_chunk_splits) > self._high_water_chunks:\n            self._protocol.pause_reading()\n", "new": "        if len(self._http_chunk_splits) > self._high_water_chunks:\n            self._pause_reading()\n"},
   {"file": ST, "old": "    async def _wait(self, func_name: str) -> None:\n", "new": "    def _pause_reading(self) -> None:\n        self._protocol.pause_reading()\n\n    async def _wait(self, func_name: str) -> None:\n"}], "both pause sites call a one-line helper", ("C08",)),
 B("resume-only-own-pause", ST, "            and (not self._size or self._size < self._low_water)\n", "            and (not self._size or (self._protocol._reading_paused and self._size < self._low_water))\n", ["C08.flow"], "below the low-water mark reading is resumed only under a further condition", ("C08",)),
 # ---- C11.frame.atomic -----------------------------------------------------------------------------------------------------------------------------
 B("frame-split-fastpath", WW, "            # Non-compressed frames don't need lock or shield\n            self._write_websocket_frame(message, opcode, 0)\n", "            self._write_websocket_frame(message[:0], opcode, 0)\n            if self.protocol._paused:\n                await self.protocol._drain_helper()\n            self.transport.write(bytes(message))\n", ["C11.frame.atomic"], "header and payload of one frame are written on both sides of a wait for the transport, without the lock", ("C11",)),
 # ---- C18.readtimer -----------------------------------------------------------------------------------------------------------------------------
 B("readtimer-running-only", CP, "        if data:\n            self._reschedule_timeout()\n", "        if data and self._read_timeout_handle is not None:\n            self._reschedule_timeout()\n", ["C18.readtimer"], "received bytes only push a running timer back: an early answer during an upload never starts sock_read", ("C18",)),
 # ---- C03.partial -----------------------------------------------------------------------------------------------------------------------------
 B("partial-state-only", HP, "                    tail = data[start_pos:]\n", "                    tail = data[start_pos:]\n                    if self._should_close:\n                        raise BadHttpMessage(\"Data after `Connection: close`\")\n", ["C03.partial"], "the seed itself, as a substitution", ("C03",)),
 N("partial-state-and-bytes", HP, "                    tail = data[start_pos:]\n", "                    tail = data[start_pos:]\n                    if self._should_close and tail.strip(b\"\\r\\n\"):\n                        raise BadHttpMessage(\"Data after `Connection: close`\")\n", "early refusal of bytes that are not a line ending after a closing message: every completion is refused by the complete-line path too", ("C03",)),
 N("partial-too-many-early", HP, "                    tail = data[start_pos:]\n", "                    tail = data[start_pos:]\n                    if len(self._lines) >= self.max_headers:\n                        raise BadHttpMessage(\"Too many headers received\")\n", "state-only early refusal that equals the complete-line outcome (one more line is one too many whatever it says); the rule cannot relate the two forms and stays silent", ("C03",)),
 B("partial-unrelated-state", HP, "                    tail = data[start_pos:]\n", "                    tail = data[start_pos:]\n                    if self._msg_in_flight > 8:\n                        raise BadHttpMessage(\"Too many requests in flight\")\n", ["C03.partial"], "a partial line is refused on state that no complete line is refused on", ("C03",)),
 # ---- C10.regex.linear -------------------------------------------------------------------------------------------------------------------------
 B("regex-nested-token", HP, 'TOKENRE: Final[Pattern[str]] = re.compile(f"[0-9A-Za-z{_TCHAR_SPECIALS}]+")', 'TOKENRE: Final[Pattern[str]] = re.compile(f"(?:[0-9A-Za-z]+|[{_TCHAR_SPECIALS}])+")', ["C10.regex.linear"], "a method/header-name token matched as runs inside a repetition: exponential on a long name followed by a separator", ("C10",)),
 # ---- C16.persist.own --------------------------------------------------------------------------------------------------------------------------
 N("persist-own-local", CJ, "                if (exp := self._expirations.get((domain, path, name))) is not None:\n                    morsel_data[\"expires_timestamp\"] = exp\n", "                deadline = self._expirations.get((domain, path, name))\n                if deadline is not None:\n                    morsel_data[\"expires_timestamp\"] = deadline\n", "deadline in a local", ("C16",)),
 B("persist-own-maxage-only", CJ, "                if (exp := self._expirations.get((domain, path, name))) is not None:\n", "                if morsel[\"max-age\"] and (exp := self._expirations.get((domain, path, name))) is not None:\n", ["C16.persist.own"], "the deadline is saved only for cookies that still carry Max-Age: lost on the second save of a restored jar", ("C16",)),
 B("persist-own-hostonly-domain", CJ, "                if (domain, path, name) in self._host_only_cookies:\n", "                if not morsel[\"domain\"] and (domain, path, name) in self._host_only_cookies:\n", ["C16.persist.own"], "the host-only flag is saved depending on a morsel attribute", ("C16",)),
 # ---- C19.cd.pct ---------------------------------------------------------------------------------------------------------------------------------
 N("cd-pct-keyword", HL, "                    qval = quote(val, \"\", encoding=_charset)\n", "                    qval = quote(val, safe=\"\", encoding=_charset)\n", "safe passed by keyword", ("C19",)),
 B("cd-pct-default-safe", HL, "                    qval = quote(val, \"\", encoding=_charset)\n", "                    qval = quote(val, encoding=_charset)\n", ["C19.cd.pct"], "urllib's default safe='/' leaves the slash the reader strips", ("C19",)),
 B("cd-pct-safe-colon", HL, "                            (_charset, \"''\", quote(val, \"\", encoding=_charset))\n", "                            (_charset, \"''\", quote(val, \":\", encoding=_charset))\n", ["C19.cd.pct"], "`:` is not a token character: the reader drops the extended parameter", ("C19",)),
 # ---- C20.accept.queue ----------------------------------------------------------------------------------------------------------------------------
 N("accept-queue-split", WP, "            if self._keepalive and not self._close and not self._force_close:\n", "            if self._close:\n                break\n            if self._keepalive and not self._force_close:\n", "the close test as a separate early exit", ("C20",)),
 B("accept-queue-drain", WP, "            if self._keepalive and not self._close and not self._force_close:\n", "            if self._keepalive and not (self._close and not self._messages) and not self._force_close:\n", ["C20.accept.queue"], "a closing connection goes on serving what is queued", ("C20",)),
 # ---- C06.key ------------------------------------------------------------------------------------------------------------------------------------
 B("key-proxy-conditional", RQ, "                self._ssl,\n                self.proxy,\n", "                self._ssl,\n                self.proxy if self.proxy_auth is None else None,\n", ["C06.key"], "the proxy leaves the key for authenticated proxies", ("C06",)),
 # ---- C06.idle.input ------------------------------------------------------------------------------------------------------------------------
 N("idle-input-swapped", CP, IDLE, "        if self.idle and data:\n", "operands of the gate swapped", ("C06",)),
 N("idle-input-nested", CP, IDLE + "            # Nobody asked", "        if self.idle:\n          if data:\n            # Nobody asked", "nested form of the gate", ("C06",)),
 N("idle-input-abort", CP, IDLE + "            # Nobody asked for these bytes. Even if the parser would skip them\n            # (a stray CRLF) the pooled connection is unusable, and they must\n            # not start the read timer on behalf of a future request.\n            self.close()\n",
   IDLE + "            self.abort()\n", "abort instead of close", ("C06",)),
 B("idle-input-dirtyonly", CP, IDLE, "        if data and self.idle and self.should_close:\n", ["C06.idle.input"], "only input on a connection that is dirty already retires it: a stray CRLF starts the read timer of a pooled connection", ("C06",)),
 B("idle-input-aftertimer", CP, IDLE + "            # Nobody asked for these bytes. Even if the parser would skip them\n            # (a stray CRLF) the pooled connection is unusable, and they must\n            # not start the read timer on behalf of a future request.\n            self.close()\n            return\n\n",
   "        if data:\n            self._reschedule_timeout()\n" + IDLE + "            self.close()\n            return\n\n", ["C06.idle.input"], "the timer is armed before the idle gate", ("C06",)),
 B("idle-input-noreturn", CP, "            # not start the read timer on behalf of a future request.\n            self.close()\n            return\n", "            # not start the read timer on behalf of a future request.\n            self.close()\n", ["C06.idle.input"], "the closed idle connection still feeds the parser and arms the timer", ("C06",)),
 # ---- C02.replay.codec ----------------------------------------------------------------------------------------------------------------------
 N("replay-codec-local-name", PL, ENC, "        make_encoder = codecs.getincrementalencoder(self._encoding or \"utf-8\")\n        self._encoder = make_encoder()\n", "factory held in a local first", ("C02",)),
 B("replay-codec-lazy", PL, ENC, "        if getattr(self, \"_encoder\", None) is None:\n            self._encoder = codecs.getincrementalencoder(self._encoding or \"utf-8\")()\n", ["C02.replay.codec"], "the encoder of the first transmission is kept for the second: no byte-order mark on a re-sent utf-16 file", ("C02",)),
 # ---- C12.hold / C13.hold -------------------------------------------------------------------------------------------------------------------
 N("hold-two-statements", RD, SWAP, "                reader = self._held_reader\n                self._held_reader = None\n                reader.feed_data(b\"\")\n", "take-over in two statements, cleared before the replay", ("C12", "C13")),
 B("hold-clear-after-replay", RD, SWAP, "                reader = self._held_reader\n                reader.feed_data(b\"\")\n                self._held_reader = None\n", ["C12.hold", "C13.hold"], "the replay may register the reader again; clearing afterwards erases that registration", ("C12", "C13")),
 B("hold-no-replay", RD, SWAP, "                reader, self._held_reader = self._held_reader, None\n", ["C12.hold", "C13.hold"], "the held reader is dropped without replaying its tail", ("C12", "C13")),
 B("hold-replay-nonempty-only", RD, SWAP, "                reader, self._held_reader = self._held_reader, None\n                if self._buffer:\n                    reader.feed_data(b\"\")\n", ["C12.hold", "C13.hold"], "the held reader is replayed only while messages are left: the one read that empties the queue loses the rest of the chunk", ("C12", "C13")),
]
