"""Variants for the rules written after seeding round 6 (and for F273): behaviour-preserving rewrites (benign, must stay silent) and breaking
edits other than the seeds themselves (must be reported by the named rule)."""
CP = "aiohttp/client_proto.py"
PL = "aiohttp/payload.py"
RD = "aiohttp/_websocket/reader_py.py"


def B(id, file, old, new, expect, why, props, count=1):
    return {"id": id, "props": list(props), "kind": "breaking", "file": file, "old": old, "new": new, "expect": expect, "why": why, "count": count}


def N(id, file, old, new, why, props, count=1):
    return {"id": id, "props": list(props), "kind": "benign", "file": file, "old": old, "new": new, "why": why, "count": count}


IDLE = "        if data and self.idle:\n"
SWAP = "                reader, self._held_reader = self._held_reader, None\n                reader.feed_data(b\"\")\n"
ENC = "        self._encoder = codecs.getincrementalencoder(self._encoding or \"utf-8\")()\n"

WW = "aiohttp/_websocket/writer.py"
SPAWN_OLD = """            loop = asyncio.get_running_loop()
            if type(message) is not bytes:
                # The task outlives a cancelled sender: it must not read a
                # buffer that the caller can change after we return.
                message = bytes(message)
            coro = self._send_compressed_frame_async_locked(message, opcode, compress)
            if sys.version_info >= (3, 12):
                send_task = asyncio.Task(coro, loop=loop, eager_start=True)
            else:
                send_task = loop.create_task(coro)
            # Keep a strong reference to prevent garbage collection
            self._background_tasks.add(send_task)
            send_task.add_done_callback(self._background_tasks.discard)
            await asyncio.shield(send_task)
"""
SPAWN_NEW = """            if type(message) is not bytes:
                message = bytes(message)
            await self._run_shielded(
                self._send_compressed_frame_async_locked(message, opcode, compress)
            )
"""
HELPER_AT = "    def _write_websocket_frame(self, message: bytes, opcode: int, rsv: int) -> None:\n"
HELPER = """    async def _run_shielded(self, coro) -> None:
        loop = asyncio.get_running_loop()
        if sys.version_info >= (3, 12):
            send_task = asyncio.Task(coro, loop=loop, eager_start=True)
        else:
            send_task = loop.create_task(coro)
        self._background_tasks.add(send_task)
        send_task.add_done_callback(self._background_tasks.discard)
        await asyncio.shield(send_task)

"""
HELPER_LAZY = HELPER.replace("        if sys.version_info >= (3, 12):\n            send_task = asyncio.Task(coro, loop=loop, eager_start=True)\n        else:\n            send_task = loop.create_task(coro)\n", "        send_task = loop.create_task(coro)\n")
HELPER_NOSHIELD = HELPER.replace("await asyncio.shield(send_task)", "await send_task")


def E(id, kind, edits, why, props, expect=None):
    d = {"id": id, "props": list(props), "kind": kind, "edits": edits, "why": why}
    if expect:
        d["expect"] = expect
    return d


CASES = [
 # ---- C11: the spawn-and-shield code of send_frame() extracted into a helper (the refactoring part of seed C11-6) -------------------------------
 E("spawn-helper-extracted", "benign", [{"file": WW, "old": SPAWN_OLD, "new": SPAWN_NEW}, {"file": WW, "old": HELPER_AT, "new": HELPER + HELPER_AT}], "extract-method of the task/shield code", ("C11", "C13")),
 E("spawn-helper-lazy", "breaking", [{"file": WW, "old": SPAWN_OLD, "new": SPAWN_NEW}, {"file": WW, "old": HELPER_AT, "new": HELPER_LAZY + HELPER_AT}], "the extracted helper starts the send task lazily: close() overtakes a frame that passed the closing test", ("C11",), ["C11.closing"]),
 E("spawn-helper-noshield", "breaking", [{"file": WW, "old": SPAWN_OLD, "new": SPAWN_NEW}, {"file": WW, "old": HELPER_AT, "new": HELPER_NOSHIELD + HELPER_AT}], "the extracted helper awaits the task without shield: a cancelled sender cancels compress-and-send half way", ("C11",), ["C11.shield"]),
 # ---- C06.idle.input ------------------------------------------------------------------------------------------------------------------------
 N("idle-input-swapped", CP, IDLE, "        if self.idle and data:\n", "operands of the gate swapped", ("C06",)),
 N("idle-input-nested", CP, IDLE + "            # Nobody asked", "        if self.idle:\n          if data:\n            # Nobody asked", "nested form of the gate", ("C06",)),
 N("idle-input-abort", CP, IDLE + "            # Nobody asked for these bytes. Even if the parser would skip them\n            # (a stray CRLF) the pooled connection is unusable, and they must\n            # not start the read timer on behalf of a future request.\n            self.close()\n",
   IDLE + "            self.abort()\n", "abort instead of close", ("C06",)),
 B("idle-input-dirtyonly", CP, IDLE, "        if data and self.idle and self.should_close:\n", ["C06.idle.input"], "only input on a connection that is dirty already retires it: a stray CRLF starts the read timer of a pooled connection", ("C06",)),
 B("idle-input-aftertimer", CP, IDLE + "            # Nobody asked for these bytes. Even if the parser would skip them\n            # (a stray CRLF) the pooled connection is unusable, and they must\n            # not start the read timer on behalf of a future request.\n            self.close()\n            return\n\n",
   "        if data:\n            self._reschedule_timeout()\n" + IDLE + "            self.close()\n            return\n\n", ["C06.idle.input"], "the timer is armed before the idle gate", ("C06",)),
 B("idle-input-noreturn", CP, "            # not start the read timer on behalf of a future request.\n            self.close()\n            return\n", "            # not start the read timer on behalf of a future request.\n            self.close()\n", ["C06.idle.input"], "the closed idle connection still feeds the parser and arms the timer", ("C06",)),
 # ---- C02.replay.codec ----------------------------------------------------------------------------------------------------------------------
 N("replay-codec-local-name", PL, ENC, "        make_encoder = codecs.getincrementalencoder(self._encoding or \"utf-8\")\n        self._encoder = make_encoder()\n", "factory held in a local first", ("C02",)),
 B("replay-codec-lazy", PL, ENC, "        if getattr(self, \"_encoder\", None) is None:\n            self._encoder = codecs.getincrementalencoder(self._encoding or \"utf-8\")()\n", ["C02.replay.codec"], "the encoder of the first transmission is kept for the second: no byte-order mark on a re-sent utf-16 file", ("C02",)),
 # ---- C12.hold / C13.hold -------------------------------------------------------------------------------------------------------------------
 N("hold-two-statements", RD, SWAP, "                reader = self._held_reader\n                self._held_reader = None\n                reader.feed_data(b\"\")\n", "take-over in two statements, cleared before the replay", ("C12", "C13")),
 B("hold-clear-after-replay", RD, SWAP, "                reader = self._held_reader\n                reader.feed_data(b\"\")\n                self._held_reader = None\n", ["C12.hold", "C13.hold"], "the replay may register the reader again; clearing afterwards erases that registration", ("C12", "C13")),
 B("hold-no-replay", RD, SWAP, "                reader, self._held_reader = self._held_reader, None\n", ["C12.hold", "C13.hold"], "the held reader is dropped without replaying its tail", ("C12", "C13")),
 B("hold-replay-nonempty-only", RD, SWAP, "                reader, self._held_reader = self._held_reader, None\n                if self._buffer:\n                    reader.feed_data(b\"\")\n", ["C12.hold", "C13.hold"], "the held reader is replayed only while messages are left: the one read that empties the queue loses the rest of the chunk", ("C12", "C13")),
]
