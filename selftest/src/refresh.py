"""Overrides for mutants whose anchor text changed when /repo was repaired (applied by build.py after loading the m_*.py tables), and
stand-ins for reverts of fix commits that can no longer be reverse-applied because a later fix rewrote the same lines."""
HP = "aiohttp/http_parser.py"
WP = "aiohttp/web_protocol.py"
CJ = "aiohttp/cookiejar.py"
OVERRIDE = {
    ("C01", "strip-cr-strict"): dict(file=HP,
        old='                    if SEP == b"\\n":  # For lax response parsing\n                        line = line.rstrip(b"\\r")\n                    elif not self._lines and b"\\n" in line:',
        new='                    line = line.rstrip(b"\\r")\n                    if not self._lines and b"\\n" in line:'),
    ("C03", "chunk-tail-drop"): dict(file=HP,
        old='                        self._chunk_tail = chunk\n                        self._paused = False\n                        return PayloadState.PAYLOAD_NEEDS_INPUT, b""\n\n                # read chunk and feed buffer',
        new='                        self._paused = False\n                        return PayloadState.PAYLOAD_NEEDS_INPUT, b""\n\n                # read chunk and feed buffer'),
    ("C03", "buf-prefix-slice"): dict(file=HP,
        old='                        self._chunk_tail = chunk\n                        self._paused = False\n                        return PayloadState.PAYLOAD_NEEDS_INPUT, b""\n\n                    line = chunk[:pos]',
        new='                        chunk = chunk[:self._max_field_size]\n                        self._chunk_tail = chunk\n                        self._paused = False\n                        return PayloadState.PAYLOAD_NEEDS_INPUT, b""\n\n                    line = chunk[:pos]'),
    ("C05", "flag-helper"): dict(edits=[dict(file=WP, count=1,
        old='        self._close = True\n        if self._waiter:\n            # Idle connection',
        new='        self._mark_closing()\n        if self._waiter:\n            # Idle connection'),
        dict(file=WP, count=1, old='    def force_close(self) -> None:\n        """Forcefully close connection."""', new='    def _mark_closing(self) -> None:\n        self._close = True\n\n    def force_close(self) -> None:\n        """Forcefully close connection."""')]),
    ("C08", "resume-cond"): dict(file="aiohttp/streams.py", old="            and (not self._size or self._size < self._low_water)\n", new="            and (not self._size or self._size < self._low_water)\n            and self._waiter is None\n",
                                 why="an extra condition on the resume: a reader below the low-water mark stays paused while somebody waits"),
    ("C10", "trailer-budget"): dict(file=HP,
        old='                                max_trailers=max_trailers,\n                                limit=self._limit,\n                                payload_exception=self.payload_exception,\n                            )\n                            if not payload_parser.done:\n                                self._payload_parser = payload_parser\n                                # https://www.rfc-editor.org/info/rfc9110/#section-7.8-15',
        new='                                limit=self._limit,\n                                payload_exception=self.payload_exception,\n                            )\n                            if not payload_parser.done:\n                                self._payload_parser = payload_parser\n                                # https://www.rfc-editor.org/info/rfc9110/#section-7.8-15'),
    ("C11", "closing-else"): dict(file="aiohttp/_websocket/writer.py", old="        self._closing = True\n        async with self._send_lock:\n", new="        async with self._send_lock:\n            self._closing = True\n",
                                  why="_closing set only once the lock is held: data frames are still accepted while close() waits for the lock"),
    ("C15", "prefix-raw"): dict(file="aiohttp/web_urldispatcher.py", old='        if not norm_path.startswith(prefix + "/") and norm_path != prefix:\n            return None, set()',
                                new='        if not path.startswith(prefix + "/") and path != prefix:\n            return None, set()'),
    ("C16", "hostonly-cache-skip"): dict(file=CJ, old="                host_only_key = (domain, p[1], name)\n                if host_only_key in self._host_only_cookies and domain != hostname:\n                    continue\n", new=""),
    ("C16", "delete-partial"): dict(file=CJ, old="            self._host_only_cookies.discard((domain, path, name))\n            self._cookies[(domain, path)].pop(name, None)", new="            self._cookies[(domain, path)].pop(name, None)"),
    ("C16", "save-no-hostonly"): dict(file=CJ, old='                if (domain, path, name) in self._host_only_cookies:\n                    morsel_data["host_only"] = True\n', new=""),
    ("C20", "shutdown-no-forceclose"): dict(file=WP, old="            self.transport.abort()\n\n        self.force_close()\n\n    def connection_made", new="            self.transport.abort()\n\n    def connection_made"),
}
EXTRA = [
    dict(id="standin:revert-9bcdf8a", props=["C16"], kind="breaking", file=CJ, expect=["C16.overwrite"], count=1,
         old="            else:\n                # A session cookie must not inherit the deadline of the\n                # cookie it replaces.\n                self._expirations.pop((domain, path, name), None)\n", new="",
         why="stands in for the revert of fix 9bcdf8a (F11): an overwrite by a session cookie keeps the old expiry deadline"),
    dict(id="standin:revert-adeede0", props=["C06", "C18", "C02"], kind="breaking", file="aiohttp/client_reqrep.py", expect=["C06.closeonerror", "C18.close", "C02.reuse"], count=1,
         old="            except asyncio.CancelledError:\n                # Body hasn't been sent, so connection can't be reused\n                conn.close()\n                raise\n",
         new="            except asyncio.CancelledError:\n                raise\n",
         why="stands in for the revert of fix adeede0 (F38): cancellation while waiting for 100 Continue leaves the connection reusable"),
    dict(id="standin:revert-ad650eb", props=["C08"], kind="breaking", file="aiohttp/streams.py", expect=["C08.flow"], count=1,
         old="            and (not self._size or self._size < self._low_water)\n", new="            and self._size < self._low_water\n",
         why="stands in for the revert of fix ad650eb (F62): with a limit of 0 an empty buffer never resumes reading"),
]
