"""Mutants and benign variants for the rules added after the second seeding round."""
HP = "aiohttp/http_parser.py"
CASES = [
    # ---- C01.strip
    dict(id="strip-bare-value", props=["C01"], kind="breaking", file=HP, old='bvalue.strip(b" \\t")', new="bvalue.strip()", expect=["C01.strip"], count=1,
         why="a field value ending in VT/FF/CR is cleaned before the control-character check"),
    dict(id="strip-crlf-set", props=["C01"], kind="breaking", file=HP, old='bvalue.lstrip(b" \\t")', new='bvalue.lstrip(b" \\t\\r\\n")', expect=["C01.strip"], count=1,
         why="continuation/first value line loses leading CR LF before the checks"),
    dict(id="strip-cr-strict", props=["C01"], kind="breaking", file=HP,
         old='                    line = data[start_pos:pos]\n                    if SEP == b"\\n":  # For lax response parsing\n                        line = line.rstrip(b"\\r")',
         new='                    line = data[start_pos:pos].rstrip(b"\\r")', expect=["C01.strip"], count=1, why="strict parser tolerates CR CR LF line endings"),
    dict(id="strip-arg-order", props=["C01"], kind="benign", file=HP, old='bvalue.strip(b" \\t")', new='bvalue.strip(b"\\t ")', count=1, why="same trim set"),
    # ---- C03.bufshape / C03.save
    dict(id="buf-prefix-slice", props=["C03"], kind="breaking", file=HP,
         old="                        self._chunk_tail = chunk\n                        return PayloadState.PAYLOAD_NEEDS_INPUT, b\"\"\n\n                    line = chunk[:pos]",
         new="                        chunk = chunk[:self._max_field_size]\n                        self._chunk_tail = chunk\n                        return PayloadState.PAYLOAD_NEEDS_INPUT, b\"\"\n\n                    line = chunk[:pos]",
         expect=["C03.bufshape"], count=1, why="buffered partial trailer line truncated: the rest of the line is lost at the next read"),
    dict(id="tail-rstrip", props=["C03"], kind="breaking", file=HP, old="data = data[start_pos:]\n", new="data = data[start_pos:].rstrip(b\"\\r\")\n", expect=["C03.bufshape", "C03.save"], count=1,
         why="a CR at the end of a read is dropped from the saved tail: CRLF straddling the boundary is never seen"),
    dict(id="buf-bytes-copy", props=["C03"], kind="benign", file=HP, old="chunk = chunk[required:]", new="chunk = bytes(chunk)[required:]", count=1, why="same bytes"),
    # ---- C05.consume
    dict(id="tail-cleared-conditionally", props=["C05"], kind="breaking", file="aiohttp/web_protocol.py",
         old="                self._upgraded = upgraded\n                self._message_tail = tail\n",
         new="                self._upgraded = upgraded\n                if upgraded:\n                    self._message_tail = tail\n", expect=["C05.consume"], count=1,
         why="declined upgrade: the buffered pipelined requests stay in _message_tail and are parsed again at the next declined upgrade"),
    dict(id="tail-helper", props=["C05"], kind="benign", why="unconditional helper",
         edits=[dict(file="aiohttp/web_protocol.py", old="                self._upgraded = upgraded\n                self._message_tail = tail\n", new="                self._upgraded = upgraded\n                self._keep_tail(tail)\n", count=1),
                dict(file="aiohttp/web_protocol.py", old="    def _reading_paused_for_msg_queue(self) -> bool:", new="    def _keep_tail(self, tail: bytes) -> None:\n        self._message_tail = tail\n\n    def _reading_paused_for_msg_queue(self) -> bool:", count=1)]),
    # ---- C08.headoffset
    dict(id="head-len-rearranged", props=["C08"], kind="benign", file="aiohttp/streams.py",
         old="        first_buffer = self._buffer[0]\n        offset = self._buffer_offset\n        if n != -1 and len(first_buffer) - offset > n:",
         new="        first_buffer = self._buffer[0]\n        offset = self._buffer_offset\n        if n != -1 and len(first_buffer) > n + offset:", count=1, why="equivalent arithmetic, offset still read"),
    dict(id="fastpath-ignores-offset", props=["C08"], kind="breaking", file="aiohttp/streams.py",
         old="    def _read_nowait(self, n: int) -> bytes:\n", new="    def _read_nowait(self, n: int) -> bytes:\n        if n != -1 and self._buffer and len(self._buffer[0]) >= n and not self._http_chunk_splits:\n            return self._read_nowait_chunk(n)\n",
         expect=["C08.headoffset"], count=1, why="after a partial read the head holds fewer than n unread bytes: read stops short although more is buffered"),
    # ---- C11.shield
    dict(id="shield-rename", props=["C11"], kind="benign", file="aiohttp/_websocket/writer.py", old="_send_compressed_frame_async_locked", new="_send_compressed_locked", count=2, why="rename of the must-shield coroutine"),
    dict(id="shield-wrapper", props=["C11"], kind="benign", why="a wrapper coroutine is what gets shielded; the inner await is inside the shielded task",
         edits=[dict(file="aiohttp/_websocket/writer.py", old="            coro = self._send_compressed_frame_async_locked(message, opcode, compress)", new="            coro = self._send_large(message, opcode, compress)", count=1),
                dict(file="aiohttp/_websocket/writer.py", old="    def _get_compressor(self, compress: int | None) -> ZLibCompressor:",
                     new="    async def _send_large(self, message: bytes, opcode: int, compress: int | None) -> None:\n        await self._send_compressed_frame_async_locked(message, opcode, compress)\n\n    def _get_compressor(self, compress: int | None) -> ZLibCompressor:", count=1)]),
    dict(id="small-path-awaits-compressor", props=["C11"], kind="breaking", expect=["C11.shield"],
         why="the unshielded small-frame path awaits the compressor: cancelled between compression and write, the shared context has advanced but nothing was sent",
         edits=[dict(file="aiohttp/_websocket/writer.py", old="                self._send_compressed_frame_sync(message, opcode, compress)", new="                await self._send_small(message, opcode, compress)", count=1),
                dict(file="aiohttp/_websocket/writer.py", old="    def _get_compressor(self, compress: int | None) -> ZLibCompressor:",
                     new="    async def _send_small(self, message: bytes, opcode: int, compress: int | None) -> None:\n        compressobj = self._get_compressor(compress)\n        data = await compressobj.compress(message)\n        self._write_websocket_frame(data + compressobj.flush(ZLibBackend.Z_SYNC_FLUSH), opcode, 0x40)\n\n    def _get_compressor(self, compress: int | None) -> ZLibCompressor:", count=1)]),
    # ---- C17.perhop
    dict(id="jar-cookies-cached", props=["C17"], kind="breaking", file="aiohttp/client.py",
         old="                    all_cookies = self._cookie_jar.filter_cookies(url)\n",
         new="                    if not history or history[-1].url.host != url.host:\n                        all_cookies = self._cookie_jar.filter_cookies(url)\n", expect=["C17.perhop"], count=1,
         why="jar cookies selected for an earlier hop are reused when only port/scheme/path changed"),
    dict(id="auth-rename", props=["C17"], kind="benign", file="aiohttp/client.py", old=" auth_from_url", new=" url_auth", count=3, why="rename"),
    # ---- C19.scan
    dict(id="scan-skips-seam", props=["C19"], kind="breaking", file="aiohttp/multipart.py", old="idx = window.find(sub, max(0, len(self._prev_chunk) - len(sub)))", new="idx = window.find(sub, len(self._prev_chunk))",
         expect=["C19.scan"], count=1, why="delimiter straddling two reads is never found"),
    dict(id="scan-off-by-two", props=["C19"], kind="breaking", file="aiohttp/multipart.py", old="idx = window.find(sub, max(0, len(self._prev_chunk) - len(sub)))", new="idx = window.find(sub, max(0, len(self._prev_chunk) - len(sub) + 2))",
         expect=["C19.scan"], count=1, why="delimiter starting len(sub)-1 bytes before the seam is skipped"),
    dict(id="scan-new-chunk-only", props=["C19"], kind="breaking", file="aiohttp/multipart.py", old="idx = window.find(sub, max(0, len(self._prev_chunk) - len(sub)))", new="idx = chunk.find(sub)\n            idx = idx + len(self._prev_chunk) if idx >= 0 else idx",
         expect=["C19.scan"], count=1, why="seam not searched"),
    dict(id="scan-tight-start", props=["C19"], kind="benign", file="aiohttp/multipart.py", old="idx = window.find(sub, max(0, len(self._prev_chunk) - len(sub)))", new="idx = window.find(sub, max(0, len(self._prev_chunk) - len(sub) + 1))",
         count=1, why="a delimiter wholly inside prev was found by the previous call"),
    dict(id="scan-full-window", props=["C19"], kind="benign", file="aiohttp/multipart.py", old="idx = window.find(sub, max(0, len(self._prev_chunk) - len(sub)))", new="idx = window.find(sub)", count=1, why="full search"),
]
WA = "aiohttp/web_app.py"
WN = "aiohttp/web_runner.py"
CASES += [
    # ---- C20.hooks / subapps / isolate (F15-F17)
    dict(id="hooks-drain-unprotected", props=["C20"], kind="breaking", file=WN,
         old="                try:\n                    await self.shutdown()\n                finally:\n                    # A failing on_shutdown handler must not leave connections open.\n                    await self._server.shutdown(self._shutdown_timeout)",
         new="                await self.shutdown()\n                await self._server.shutdown(self._shutdown_timeout)", expect=["C20.hooks"], count=1, why="failing on_shutdown hook leaves connections open"),
    dict(id="fallback-own-only", props=["C20"], kind="breaking", file=WA,
         old="        for subapp in reversed(self._subapps):\n            try:\n                await subapp._exit_started_contexts()\n            except (Exception, asyncio.CancelledError) as exc:\n                errors.append(exc)\n",
         new="", expect=["C20.subapps"], count=1, why="sub-application contexts leak after a failed startup"),
    dict(id="isolate-no-finally", props=["C20"], kind="breaking", file=WA,
         old="            try:\n                await self.on_cleanup.send(self)\n            finally:\n                # The signal stops at the first receiver that raises: make sure\n                # the remaining contexts (e.g. of sub-applications) are exited.\n                await self._exit_started_contexts()",
         new="            await self.on_cleanup.send(self)\n            await self._exit_started_contexts()", expect=["C20.isolate"], count=1, why="a failing receiver skips the remaining contexts"),
    dict(id="exits-not-consumed", props=["C20"], kind="breaking", file=WA,
         old="        while self._exits:\n            # Forget the context first, so that it is never exited twice.\n            it = self._exits.pop()\n",
         new="        for it in reversed(self._exits):\n", expect=["C20.isolate"], count=1, why="signal + fallback exit hand-written contexts twice"),
    dict(id="exits-helper-rename", props=["C20"], kind="benign", file=WA, old="_exit_started_contexts", new="_unwind_contexts", count=4, why="rename"),
]
RP = "aiohttp/_websocket/reader_py.py"
CN = "aiohttp/connector.py"
MPT = "aiohttp/multipart.py"
PLD = "aiohttp/payload.py"
WPR = "aiohttp/web_protocol.py"
CASES += [
    # ---- round-3 rules
    dict(id="mask-assert-only", props=["C12"], kind="breaking", file=RP, old="                elif self._has_mask:\n                    assert self._frame_mask is not None", new="                elif self._frame_mask is not None:", expect=["C12.mask"], count=1,
         why="unfragmented unmasked frame after a masked one is XOR-ed with the stale key"),
    dict(id="mask-walrus-local", props=["C12"], kind="benign", file=RP, old="                elif self._has_mask:\n                    assert self._frame_mask is not None", new="                elif self._has_mask:\n                    assert self._frame_mask is not None and len(self._frame_mask) == 4", count=1,
         why="stronger assertion"),
    dict(id="connect-two-deadlines", props=["C18"], kind="breaking", file=CN,
         old="        async with ceil_timeout(timeout.connect, timeout.ceil_threshold):\n            if self._available_connections(key) <= 0:\n                await self._wait_for_available_connection(key, traces)\n",
         new="        if self._available_connections(key) <= 0:\n            async with ceil_timeout(timeout.connect, timeout.ceil_threshold):\n                await self._wait_for_available_connection(key, traces)\n        async with ceil_timeout(timeout.connect, timeout.ceil_threshold):\n            if False:\n                pass\n",
         expect=["C18.scope.connect"], count=1, why="budget restarts after the pool wait"),
    dict(id="b64-direct-when-aligned", props=["C19"], kind="breaking", file=MPT, old="            buf.extend(chunk)\n\n            if buf:", new="            if len(chunk) % 3 == 0:\n                await self._writer.write(base64.b64encode(chunk))\n                return\n            buf.extend(chunk)\n\n            if buf:",
         expect=["C19.b64"], count=1, why="aligned chunk overtakes the carried bytes"),
    dict(id="b64-direct-when-empty", props=["C19"], kind="benign", file=MPT, old="            buf.extend(chunk)\n\n            if buf:", new="            if not buf and len(chunk) % 3 == 0:\n                await self._writer.write(base64.b64encode(chunk))\n                return\n            buf.extend(chunk)\n\n            if buf:",
         count=1, why="direct only when nothing is carried"),
    dict(id="latch-empty-consumes", props=["C03"], kind="breaking", file=HP, old="        if not self._started_decoding and chunk:", new="        if not self._started_decoding:", expect=["C03.latch"], count=1,
         why="(IndexError on chunk[0] aside) an empty first feed consumes the sniff"),
    dict(id="latch-len-test", props=["C03"], kind="benign", file=HP, old="        if not self._started_decoding and chunk:", new="        if not self._started_decoding and len(chunk) > 0:", count=1, why="same test"),
    dict(id="payload-unsliced", props=["C04"], kind="breaking", file=PLD, old="                    await writer.write(chunk[:remaining_bytes])\n                    remaining_bytes -= len(chunk)\n                # We still want", new="                    await writer.write(chunk)\n                    remaining_bytes -= len(chunk)\n                # We still want",
         expect=["C04.length"], count=1, why="async-iterable payload overruns the declared length"),
    dict(id="fold-per-line", props=["C10"], kind="breaking", file=HP, old="                    header_length += len(line)\n                    if header_length > self.max_field_size:", new="                    if len(bvalue) + len(line) > self.max_field_size:", expect=["C10.fold"], count=1,
         why="folded field grows without bound"),
    dict(id="fold-total-via-list", props=["C10"], kind="benign", file=HP, old="                    header_length += len(line)\n                    if header_length > self.max_field_size:", new="                    header_length = header_length + len(line)\n                    header_length += 0\n                    if header_length > self.max_field_size:", count=1,
         why="same running total"),
    dict(id="read-limit-per-chunk", props=["C09"], kind="breaking", file="aiohttp/web_request.py", old="                    body_size = len(body)\n", new="                    body_size = len(chunk)\n", expect=["C09.limit"], count=1, why="limit applied to each chunk, body unbounded"),
    dict(id="flag-from-parser-error", props=["C05"], kind="breaking", file=WPR, old="                upgraded = False\n                tail = b\"\"\n\n            for msg, payload in messages:", new="                upgraded = False\n                tail = b\"\"\n                self._close = True\n\n            for msg, payload in messages:",
         expect=["C05.flags"], count=1, why="queued requests and the 400 are dropped"),
    dict(id="flag-helper", props=["C05"], kind="benign", why="close() delegates to a helper that sets the flag",
         edits=[dict(file=WPR, old="        self._close = True\n        if self._waiter:\n            self._waiter.cancel()\n\n    def force_close", new="        self._mark_closing()\n        if self._waiter:\n            self._waiter.cancel()\n\n    def _mark_closing(self) -> None:\n        self._close = True\n\n    def force_close", count=1)]),
]
