"""Variants for the rules written after the fifth defect hunt: behaviour-preserving rewrites of the repaired code (benign, must stay silent)
and breaking edits other than the plain reverts (must be reported by the named rule)."""
WS = "aiohttp/web_ws.py"
WW = "aiohttp/_websocket/writer.py"
WP = "aiohttp/web_protocol.py"
WA = "aiohttp/web_app.py"
UD = "aiohttp/web_urldispatcher.py"
CJ = "aiohttp/cookiejar.py"
DG = "aiohttp/client_middleware_digest_auth.py"
FR = "aiohttp/web_fileresponse.py"
WQ = "aiohttp/web_request.py"
HW = "aiohttp/http_writer.py"
CL = "aiohttp/client.py"
RQ = "aiohttp/client_reqrep.py"
MP = "aiohttp/multipart.py"
CP = "aiohttp/client_proto.py"
CN = "aiohttp/connector.py"


def B(id, file, old, new, expect, why, props, count=1):
    return {"id": id, "props": list(props), "kind": "breaking", "file": file, "old": old, "new": new, "expect": expect, "why": why, "count": count}


def N(id, file, old, new, why, props, count=1):
    return {"id": id, "props": list(props), "kind": "benign", "file": file, "old": old, "new": new, "why": why, "count": count}


CASES = [
 # ---- benign ---------------------------------------------------------------------------------------------------------------------------------
 N("key-handler-tuple", WS, "        except ValueError:  # binascii.Error, or a non-ASCII character\n", "        except (TypeError, ValueError):\n", "a tuple of handled classes", ("C11",)),
 N("close-pending-local", WW, "        if self._background_tasks:\n            # Before Python 3.12 (no eager start) a send task created in this\n            # loop iteration has not queued for the lock yet: let them finish.\n            await asyncio.wait(self._background_tasks)\n",
   "        pending = set(self._background_tasks)\n        if pending:\n            await asyncio.wait(pending)\n", "a snapshot of the task set in a local", ("C11", "C13")),
 N("lost-task-reordered", WP, "        if self._task_handler is not None and (\n            handler_cancellation or not self._request_in_progress\n        ):\n            self._task_handler.cancel()\n",
   "        if (not self._request_in_progress or handler_cancellation) and self._task_handler is not None:\n            self._task_handler.cancel()\n", "operands reordered", ("C05",)),
 N("mount-once-order", WA, "        if subapp.frozen:\n            raise RuntimeError(\"Cannot add frozen application\")\n        if subapp.pre_frozen:\n            # its resources already carry the prefix of the first mount\n            raise RuntimeError(\"Cannot add an application that is already mounted\")\n",
   "        if subapp.pre_frozen:\n            raise RuntimeError(\"Cannot add an application that is already mounted\" if not subapp.frozen else \"Cannot add frozen application\")\n", "one test for both refusals", ("C14",)),
 N("method-upper-first", UD, "        # routes are keyed by the upper-cased method (AbstractRoute.__init__)\n        if route := self._routes.get(method.upper(), self._any_route):\n",
   "        method = method.upper()\n        if route := self._routes.get(method, self._any_route):\n", "the method is normalised once, in front of the lookup", ("C14",)),
 N("path-value-order", FR, "        except (OSError, ValueError):\n", "        except (ValueError, OSError):\n", "order of the handled classes", ("C15",)),
 N("clear-domain-order", CJ, "        domain = domain.lower().removeprefix(\".\")\n", "        domain = domain.removeprefix(\".\").lower()\n", "normalisation steps swapped", ("C16",)),
 N("path-key-ifexp", CJ, "            if path == \"/\":\n                path = \"\"\n", "            path = \"\" if path == \"/\" else path\n", "conditional expression", ("C16",)),
 N("digest-origin-locals", DG, "        origin = (url.scheme, (url.raw_host or \"\").lower(), url.port)\n", "        host = (url.raw_host or \"\").lower()\n        origin = (url.scheme, host, url.port)\n", "the host in a local", ("C17",)),
 N("announce-local", WP, "        if self._close or self._force_close:\n            # The connection is closed after this response (e.g. the server is\n            # shutting down): the response must not announce a persistent one.\n            resp.force_close()\n",
   "        closing = self._close or self._force_close\n        if closing:\n            resp.force_close()\n", "the closing state in a local", ("C20",)),
 N("complete-early-return", WQ, "        if not self._payload.is_eof():\n            set_exception(self._payload, exc)\n", "        if self._payload.is_eof():\n            return\n        set_exception(self._payload, exc)\n", "early return form", ("C08",)),
 N("copy-local", HW, "        transport.write(chunk if type(chunk) is bytes else bytes(chunk))\n", "        data = chunk if type(chunk) is bytes else bytes(chunk)\n        transport.write(data)\n", "the copy in a local", ("C04",)),
 N("body-owner-plain", CL, "                if (upload := req._writer) is None:\n                    await req._body.close()\n                else:\n", "                if req._writer is None:\n                    await req._body.close()\n                else:\n                    upload = req._writer\n", "no walrus", ("C02",)),
 N("pool-timer-guarded", CN, "        protocol._drop_timeout()\n        protocol.idle = True\n", "        protocol.idle = True\n        protocol._drop_timeout()\n", "the two statements in front of pooling swapped", ("C06",)),
 N("readline-eq", MP, "        if not line:\n            # The stream ended inside the part", "        if line == b\"\":\n            # The stream ended inside the part", "comparison with the empty bytes", ("C19",)),
 # ---- breaking -------------------------------------------------------------------------------------------------------------------------------
 B("key-handler-binascii-tuple", WS, "        except ValueError:  # binascii.Error, or a non-ASCII character\n", "        except (binascii.Error, TypeError):\n", ["C11.handshake.key"], "a plain ValueError (non-ASCII key) is not handled", ("C11",)),
 B("lost-task-only-cancellation", WP, "        if self._task_handler is not None and (\n            handler_cancellation or not self._request_in_progress\n        ):\n", "        if self._task_handler is not None and handler_cancellation:\n", ["C05.lost.task"], "the idle / lingering task is forgotten without being cancelled", ("C05",)),
 B("mount-once-parent-late", WA, "        if self.pre_frozen:\n            raise RuntimeError(\"Cannot add sub application to frozen application\")\n", "        if self.frozen:\n            raise RuntimeError(\"Cannot add sub application to frozen application\")\n", ["C14.mount.once"], "a pre-frozen parent refuses only after the factory prefixed the sub-application", ("C14",)),
 B("complete-always-fail", WQ, "        if not self._payload.is_eof():\n            set_exception(self._payload, exc)\n", "        if not self._payload.is_eof() or exc is not None:\n            set_exception(self._payload, exc)\n", ["C08.lost.complete"], "a complete body is failed again", ("C08",)),
 B("copy-memoryview-kept", HW, "        transport.write(chunk if type(chunk) is bytes else bytes(chunk))\n", "        transport.write(chunk if isinstance(chunk, (bytes, memoryview)) else bytes(chunk))\n", ["C04.copy"], "a memoryview of the caller's buffer is left with the transport", ("C04",)),
 B("announce-force-only", WP, "        if self._close or self._force_close:\n            # The connection is closed after this response", "        if self._force_close and self._close:\n            # The connection is closed after this response", ["C20.announce"], "a connection that close() marked (shutdown began) still announces keep-alive", ("C20",)),
 B("pool-timer-conditional", CN, "        protocol._drop_timeout()\n        protocol.idle = True\n", "        if protocol.should_close:\n            protocol._drop_timeout()\n        protocol.idle = True\n", ["C06.pool.timer"], "the timer is dropped only for connections that are not pooled anyway", ("C06",)),
 B("digest-origin-netloc", DG, "        origin = (url.scheme, (url.raw_host or \"\").lower(), url.port)\n", "        origin = (url.scheme, url.raw_host, url.explicit_port)\n", ["C17.strip.digest"], "explicit port and host case make a foreign origin", ("C17",)),
]
