#!/venv/bin/python
"""Builds selftest/mutants/<prop>.json from the python tables in selftest/src/m_*.py (kept as python for readable multi-line snippets)."""
import glob, importlib.util, json, os
here = os.path.dirname(os.path.abspath(__file__))
out = {}
for f in sorted(glob.glob(os.path.join(here, "m_*.py"))):  # refresh.py is applied afterwards
    spec = importlib.util.spec_from_file_location("m", f)
    m = importlib.util.module_from_spec(spec); spec.loader.exec_module(m)
    for c in m.CASES:
        out.setdefault(c["props"][0], []).append(c)
import importlib.util as _u
_spec = _u.spec_from_file_location("refresh", os.path.join(here, "refresh.py")); _r = _u.module_from_spec(_spec); _spec.loader.exec_module(_r)
for (p, cid), ov in _r.OVERRIDE.items():
    hit = [c for c in out.get(p, []) if c["id"] == cid]
    assert hit, f"override for unknown case {p}:{cid}"
    for c in hit:
        for k in ("file", "old", "new", "edits", "count"):
            c.pop(k, None)
        c.update(ov)
        c.setdefault("count", 1) if "edits" not in c else None
for c in _r.EXTRA:
    out.setdefault(c["props"][0], []).append(c)
for p, cs in out.items():
    ids = [c["id"] for c in cs]
    assert len(ids) == len(set(ids)), f"duplicate ids in {p}"
    json.dump(cs, open(os.path.join(here, "..", "mutants", p + ".json"), "w"), indent=1)
print({p: len(cs) for p, cs in out.items()})
