#!/venv/bin/python
"""Builds selftest/mutants/<prop>.json from the python tables in selftest/src/m_*.py (kept as python for readable multi-line snippets)."""
import glob, importlib.util, json, os
here = os.path.dirname(os.path.abspath(__file__))
out = {}
for f in sorted(glob.glob(os.path.join(here, "m_*.py"))):
    spec = importlib.util.spec_from_file_location("m", f)
    m = importlib.util.module_from_spec(spec); spec.loader.exec_module(m)
    for c in m.CASES:
        out.setdefault(c["props"][0], []).append(c)
for p, cs in out.items():
    ids = [c["id"] for c in cs]
    assert len(ids) == len(set(ids)), f"duplicate ids in {p}"
    json.dump(cs, open(os.path.join(here, "..", "mutants", p + ".json"), "w"), indent=1)
print({p: len(cs) for p, cs in out.items()})
