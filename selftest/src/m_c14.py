UD = "aiohttp/web_urldispatcher.py"
MW = "aiohttp/web_middlewares.py"
FR = "aiohttp/web_fileresponse.py"
WQ = "aiohttp/web_request.py"
CJ = "aiohttp/cookiejar.py"
CL = "aiohttp/client.py"
def B(id, file, old, new, expect, why, props, count=1):
    return {"id": id, "props": list(props), "kind": "breaking", "file": file, "old": old, "new": new, "expect": expect, "why": why, "count": count}
def N(id, file, old, new, why, props, count=1):
    return {"id": id, "props": list(props), "kind": "benign", "file": file, "old": old, "new": new, "why": why, "count": count}
CASES = [
 # ---- C14
 B("drop-allowed", UD, "                if match_dict is not None:\n                    return match_dict\n                else:\n                    allowed_methods |= allowed\n            if url_part == \"/\":", "                if match_dict is not None:\n                    return match_dict\n            if url_part == \"/\":", ["C14.accumulate"], "405 becomes 404", ("C14",)),
 B("405-always", UD, "        if allowed_methods:\n            return MatchInfoError(HTTPMethodNotAllowed(request.method, allowed_methods))", "        if allowed_methods or request.method == \"OPTIONS\":\n            return MatchInfoError(HTTPMethodNotAllowed(request.method, allowed_methods))", ["C14.accumulate"], "405 with an empty Allow set", ("C14",)),
 B("resource-empty-on-method", UD, "            return UrlMappingMatchInfo(match_dict, route), self._allowed_methods\n        return None, self._allowed_methods", "            return UrlMappingMatchInfo(match_dict, route), self._allowed_methods\n        return None, set()", ["C14.resource"], "method mismatch reported as path mismatch", ("C14",)),
 B("walk-skip-root", UD, "            if url_part == \"/\":\n                break\n            url_part = url_part.rpartition(\"/\")[0] or \"/\"", "            url_part = url_part.rpartition(\"/\")[0]", ["C14.walk"], "resources indexed under / never consulted", ("C14",)),
 B("prefix-order", UD, "            router.unindex_resource(resource)\n            resource.add_prefix(prefix)\n            router.index_resource(resource)", "            resource.add_prefix(prefix)\n            router.unindex_resource(resource)\n            router.index_resource(resource)", ["C14.index"], "unindex computed from the new canonical path", ("C14",)),
 B("register-noindex", UD, "        else:\n            self.index_resource(resource)\n\n    def _get_resource_index_key", "        elif resource.name is not None:\n            self.index_resource(resource)\n\n    def _get_resource_index_key", ["C14.index"], "unnamed resources unreachable", ("C14",)),
 B("redirect-unsanitised", MW, "                path = re.sub(\"^//+\", \"/\", path)  # SECURITY: GHSA-v6wp-4m6f-gcjg\n", "", ["C14.redirect"], "redirect to //evil.example", ("C14",)),
 B("redirect-weak-regex", MW, "path = re.sub(\"^//+\", \"/\", path)", "path = re.sub(\"^///+\", \"/\", path)", ["C14.redirect"], "exactly two leading slashes survive", ("C14",)),
 B("good-slash", UD, "    GOOD = r\"[^{}/]+\"", "    GOOD = r\"[^{}]+\"", ["C14.segment"], "a variable segment swallows slashes", ("C14",)),
 B("subapp-drop-methods", UD, "        match_info = await self._app.router.resolve(request)\n        match_info.add_app(self._app)\n        if isinstance(match_info.http_exception, HTTPMethodNotAllowed):\n            methods = match_info.http_exception.allowed_methods\n        else:\n            methods = set()\n        return match_info, methods\n\n    def __len__", "        match_info = await self._app.router.resolve(request)\n        match_info.add_app(self._app)\n        methods = set()\n        return match_info, methods\n\n    def __len__", ["C14.resource"], "sub-app 405 loses its Allow set", ("C14",)),
 N("copy-set", UD, "        return None, self._allowed_methods\n\n    @abc.abstractmethod\n    def _match", "        return None, set(self._allowed_methods)\n\n    @abc.abstractmethod\n    def _match", "returning a copy is fine", ("C14",)),
 # ---- C15
 B("no-absolute-check", UD, "        if Path(filename).is_absolute():\n            # filename is an absolute path e.g. //network/share or D:\\path\n            # which could be a UNC path leading to NTLM credential theft\n            raise HTTPNotFound()\n", "", ["C15.absolute"], "absolute filename replaces the root", ("C15",)),
 B("check-unresolved", UD, "                file_path = unresolved_path.resolve()\n                file_path.relative_to(self._directory)", "                file_path = unresolved_path.resolve()\n                unresolved_path.relative_to(self._directory)", ["C15.sandbox"], "symlink inside the root escapes", ("C15",)),
 B("follow-no-normpath", UD, "normalized_path = Path(os.path.normpath(unresolved_path))", "normalized_path = Path(unresolved_path)", ["C15.sandbox"], "dot segments escape in follow mode", ("C15",)),
 B("index-always", UD, "                if self._show_index:\n                    return Response(", "                if self._show_index or True:\n                    return Response(", ["C15.index"], "directory listing always enabled", ("C15",)),
 B("prefix-raw", UD, "        if not norm_path.startswith(self._prefix2) and norm_path != self._prefix:\n            return None, set()", "        if not path.startswith(self._prefix2) and path != self._prefix:\n            return None, set()", ["C15.prefix"], "prefix test on the raw path", ("C15",)),
 B("gz-stat", FR, "                st = compressed_path.lstat()", "                st = compressed_path.stat()", ["C15.regular"], "symlinked .gz sibling followed", ("C15",)),
 B("no-isreg", FR, "        return file_path if S_ISREG(st.st_mode) else None, st, None", "        return file_path, st, None", ["C15.regular"], "FIFOs / devices served", ("C15",)),
 B("valueerror-500", UD, "        except (ValueError, *CIRCULAR_SYMLINK_ERROR) as error:", "        except (RuntimeError, *CIRCULAR_SYMLINK_ERROR) as error:", ["C15.sandbox"], "escape attempt answered 500 / not refused", ("C15",)),
 B("range-noascii", WQ, "start, end = re.findall(pattern, rng, re.ASCII)[0]", "start, end = re.findall(pattern, rng)[0]", ["C15.rangelex"], "placeholder", ("C15",)),
 # ---- C16
 B("no-domain-check", CJ, "            if hostname and not self._is_domain_match(domain, hostname):\n                # Setting cookies for different domains is not allowed\n                continue\n", "", ["C16.accept", "C16.overwrite"], "any site sets cookies for any domain", ("C16",)),
 B("match-no-dot", CJ, "        if not non_matching.endswith(\".\"):\n            return False\n", "", ["C16.match"], "evilexample.com matches example.com", ("C16",)),
 B("hostonly-cache-skip", CJ, "                if (domain, name) in self._host_only_cookies and domain != hostname:\n                    continue\n", "", ["C16.filter"], "host-only cookies sent to sub-domains", ("C16",)),
 B("secure-skip", CJ, "                if is_not_secure and cookie[\"secure\"]:\n                    continue\n", "", ["C16.filter"], "Secure cookies over http", ("C16",)),
 B("delete-partial", CJ, "            self._host_only_cookies.discard((domain, name))\n            self._cookies[(domain, path)].pop(name, None)", "            self._cookies[(domain, path)].pop(name, None)", ["C16.delete"], "stale host-only flag after deletion", ("C16",)),
 B("expire-any", CJ, "            if self._expirations.get(cookie_key) == when:\n                to_del.append(cookie_key)", "            to_del.append(cookie_key)", ["C16.expire"], "stale heap entry deletes a refreshed cookie", ("C16",)),
 B("save-no-hostonly", CJ, "                if (domain, name) in self._host_only_cookies:\n                    morsel_data[\"host_only\"] = True\n", "", ["C16.persist"], "reloaded host-only cookie leaks to sub-domains", ("C16",)),
 B("no-cache-drop", CJ, "                self._cookies[key][name] = cookie\n                self._morsel_cache[key].pop(name, None)", "                self._cookies[key][name] = cookie", ["C16.overwrite"], "old value keeps being sent", ("C16",)),
 B("ip-accept", CJ, "        if not self._unsafe and is_ip_address(hostname):\n            # Don't accept cookies from IPs\n            return\n", "", ["C16.accept"], "cookies accepted from IP hosts", ("C16",)),
 # ---- C17
 B("strip-no-proxyauth", CL, "                            headers.popall(hdrs.COOKIE, None)\n                            headers.popall(hdrs.PROXY_AUTHORIZATION, None)", "                            headers.popall(hdrs.COOKIE, None)", ["C17.strip"], "Proxy-Authorization follows cross-origin", ("C17",)),
 B("strip-host-only", CL, "                        if url.origin() != redirect_origin:", "                        if url.host != parsed_redirect_url.host:", ["C17.strip"], "port/scheme change keeps credentials", ("C17",)),
 B("cookies-kept", CL, "                        if url.origin() != redirect_origin:\n                            cookies = None\n", "                        if url.origin() != redirect_origin:\n", ["C17.strip"], "per-request cookies follow cross-origin", ("C17",)),
 B("table-307", CL, "                        if (resp.status == 303 and resp.method != hdrs.METH_HEAD) or (\n                            resp.status in (301, 302) and resp.method == hdrs.METH_POST\n                        ):", "                        if (resp.status == 303 and resp.method != hdrs.METH_HEAD) or (\n                            resp.status in (301, 302, 307) and resp.method == hdrs.METH_POST\n                        ):", ["C17.table"], "307 POST rewritten to GET", ("C17",)),
 B("limit-offbyone", CL, "                        if max_redirects and redirects >= max_redirects:", "                        if max_redirects and redirects > max_redirects + 1:", ["C17.limit"], "more than max_redirects requests", ("C17",)),
 B("scheme-any", CL, "                        if scheme not in HTTP_AND_EMPTY_SCHEMA_SET:", "                        if scheme in (\"file\",):", ["C17.limit"], "ftp:// followed", ("C17",)),
 B("jar-once", CL, "                    all_cookies = self._cookie_jar.filter_cookies(url)\n", "", ["C17.perhop"], "placeholder", ("C17",)),
 B("origin-before-join", CL, "                        elif not scheme:\n                            parsed_redirect_url = url.join(parsed_redirect_url)\n\n                        try:\n                            redirect_origin = parsed_redirect_url.origin()", "                        try:\n                            redirect_origin = parsed_redirect_url.origin()", ["C17.strip"], "placeholder", ("C17",)),
 B("consumed-body", CL, "                            if req._body.consumed:\n                                resp.close()\n                                raise ClientPayloadError(", "                            if False:\n                                resp.close()\n                                raise ClientPayloadError(", ["C17.table", "C17.release", "C06"], "consumed body silently re-sent empty", ("C17",)),
]
CASES = [c for c in CASES if c["why"] != "placeholder"]
