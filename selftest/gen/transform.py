"""Whole-package behaviour-preserving transformations used as generated benign variants (self-test only).
reformat(src): ast.unparse round trip (drops comments, normalises layout, quotes and parentheses).
rename_locals(src): alpha-renames function locals (not parameters, not names shared with nested scopes, not imports/globals)."""
from __future__ import annotations

import ast

SCOPES = (ast.FunctionDef, ast.AsyncFunctionDef, ast.Lambda, ast.ClassDef, ast.ListComp, ast.SetComp, ast.DictComp, ast.GeneratorExp)


def reformat(src: str) -> str:
    return ast.unparse(ast.parse(src)) + "\n"


def _own_nodes(fn):
    """Nodes of fn's body that belong to fn's own scope (nested scopes are returned separately)."""
    own, nested = [], []
    stack = list(fn.body) + [d for d in fn.args.defaults] + [d for d in fn.args.kw_defaults if d is not None]
    stack = list(fn.body)
    while stack:
        n = stack.pop()
        if isinstance(n, SCOPES):
            nested.append(n)
            continue
        own.append(n)
        stack.extend(ast.iter_child_nodes(n))
    return own, nested


def rename_locals(src: str, suffix: str = "_q") -> str:
    tree = ast.parse(src)
    for fn in [n for n in ast.walk(tree) if isinstance(n, (ast.FunctionDef, ast.AsyncFunctionDef))]:
        own, nested = _own_nodes(fn)
        params = {a.arg for a in fn.args.posonlyargs + fn.args.args + fn.args.kwonlyargs} | ({fn.args.vararg.arg} if fn.args.vararg else set()) | ({fn.args.kwarg.arg} if fn.args.kwarg else set())
        declared = set()
        imported = set()
        bound = set()
        for n in own:
            if isinstance(n, (ast.Global, ast.Nonlocal)):
                declared |= set(n.names)
            elif isinstance(n, (ast.Import, ast.ImportFrom)):
                imported |= {(a.asname or a.name).split(".")[0] for a in n.names}
            elif isinstance(n, ast.Name) and isinstance(n.ctx, (ast.Store, ast.Del)):
                bound.add(n.id)
            elif isinstance(n, ast.ExceptHandler) and n.name:
                declared.add(n.name)  # `except E as x` binds through a str field: leave it alone
            elif isinstance(n, (ast.MatchAs, ast.MatchStar)) and getattr(n, "name", None):
                declared.add(n.name)
        for s in nested:
            if isinstance(s, (ast.FunctionDef, ast.AsyncFunctionDef, ast.ClassDef)):
                declared.add(s.name)
        used_in_nested = {x.id for s in nested for x in ast.walk(s) if isinstance(x, ast.Name)}
        targets = bound - params - declared - imported - used_in_nested
        targets = {t for t in targets if not t.startswith("__")}
        if not targets:
            continue
        for n in own:
            if isinstance(n, ast.Name) and n.id in targets:
                n.id = n.id + suffix
    return ast.unparse(tree) + "\n"


# ---- further whole-package behaviour-preserving transformations ------------------------------------------------------------------------------
_PURE = (ast.Name, ast.Attribute, ast.Constant)


def _pure(e) -> bool:
    """Side-effect-free operand whose evaluation order does not matter: names, attribute chains on names, constants, len(<pure>)."""
    if isinstance(e, ast.Constant):
        return True
    if isinstance(e, ast.Name):
        return True
    if isinstance(e, ast.Attribute):
        return _pure(e.value)
    if isinstance(e, ast.Call) and isinstance(e.func, ast.Name) and e.func.id == "len" and len(e.args) == 1 and not e.keywords:
        return _pure(e.args[0])
    if isinstance(e, ast.BinOp) and isinstance(e.op, (ast.Add, ast.Sub)):
        return _pure(e.left) and _pure(e.right)
    return False


_FLIP = {ast.Lt: ast.Gt, ast.Gt: ast.Lt, ast.LtE: ast.GtE, ast.GtE: ast.LtE, ast.Eq: ast.Eq, ast.NotEq: ast.NotEq}


def flip_compares(src: str) -> str:
    """`a < b` -> `b > a`, `a == b` -> `b == a`, ... for single comparisons of side-effect-free operands (not `is`/`in`, no chains)."""
    tree = ast.parse(src)
    for c in ast.walk(tree):
        if isinstance(c, ast.Compare) and len(c.ops) == 1 and type(c.ops[0]) in _FLIP and _pure(c.left) and _pure(c.comparators[0]):
            # keep `x == CONST` readable checks that are matched against enum-like constants? no: flip all, the rules must not care
            c.left, c.comparators[0] = c.comparators[0], c.left
            c.ops[0] = _FLIP[type(c.ops[0])]()
    return ast.unparse(ast.fix_missing_locations(tree)) + "\n"


def nest_elif(src: str) -> str:
    """`if a: A elif b: B else: C`  ->  `if a: A else: (if b: B else: C)` is what the AST already is; this pass goes the other way for the
    unparse: it wraps every `elif` body into an explicit `else:` block by inserting a `pass`-free no-op-free nested If, i.e. it makes
    ast.unparse emit `else:\\n    if ...` instead of `elif`."""
    tree = ast.parse(src)

    class T(ast.NodeTransformer):
        def visit_If(self, node):
            self.generic_visit(node)
            if len(node.orelse) == 1 and isinstance(node.orelse[0], ast.If):
                # a docstring-like no-op expression statement in front keeps ast.unparse from folding it back into `elif`
                node.orelse = [ast.Expr(ast.Constant(value=...)), node.orelse[0]]
            return node
    return ast.unparse(ast.fix_missing_locations(T().visit(tree))) + "\n"


def invert_ifelse(src: str) -> str:
    """`if not A: X else: Y` -> `if A: Y else: X` (only two-armed ifs whose test is a `not` and whose else arm is not an elif chain)."""
    tree = ast.parse(src)
    for i in ast.walk(tree):
        if isinstance(i, ast.If) and i.orelse and isinstance(i.test, ast.UnaryOp) and isinstance(i.test.op, ast.Not) and not (len(i.orelse) == 1 and isinstance(i.orelse[0], ast.If)):
            i.test = i.test.operand
            i.body, i.orelse = i.orelse, i.body
    return ast.unparse(ast.fix_missing_locations(tree)) + "\n"


GENERATED = {
    "gen:reformat-all": (reformat, "every module round-tripped through ast.unparse (comments dropped, layout / quotes / parentheses normalised)"),
    "gen:rename-locals-all": (rename_locals, "every renameable local of every function of the package renamed (suffix _q)"),
    "gen:flip-compares-all": (flip_compares, "every single comparison of side-effect-free operands mirrored (`a < b` -> `b > a`, `a == b` -> `b == a`)"),
    "gen:invert-ifelse-all": (invert_ifelse, "every two-armed `if not A: X else: Y` turned into `if A: Y else: X`"),
}


def expand_augassign(src: str) -> str:
    """`x += n` -> `x = x + n` (and `-=`) where n is an int constant or a len() call: numbers only, so the in-place / rebinding difference of
    sequences does not arise."""
    tree = ast.parse(src)

    class T(ast.NodeTransformer):
        def visit_AugAssign(self, node):
            v = node.value
            numeric = (isinstance(v, ast.Constant) and isinstance(v.value, int) and not isinstance(v.value, bool)) or (isinstance(v, ast.Call) and isinstance(v.func, ast.Name) and v.func.id == "len")
            if isinstance(node.op, (ast.Add, ast.Sub)) and numeric and isinstance(node.target, (ast.Name, ast.Attribute)) and _pure(node.target):
                load = ast.parse(ast.unparse(node.target), mode="eval").body
                return ast.copy_location(ast.Assign(targets=[node.target], value=ast.BinOp(left=load, op=node.op, right=v), lineno=node.lineno), node)
            return node
    return ast.unparse(ast.fix_missing_locations(T().visit(tree))) + "\n"


GENERATED["gen:expand-augassign-all"] = (expand_augassign, "every `x += <int or len()>` / `x -= ...` written as `x = x + ...`")


def _terminates(body) -> bool:
    return bool(body) and isinstance(body[-1], (ast.Return, ast.Raise, ast.Continue, ast.Break))


def dedent_else(src: str) -> str:
    """`if c: ...; return x  else: REST`  ->  `if c: ...; return x` followed by REST (else after a terminating arm removed)."""
    tree = ast.parse(src)
    for parent in ast.walk(tree):
        for field in ("body", "orelse", "finalbody"):
            blk = getattr(parent, field, None)
            if not isinstance(blk, list):
                continue
            out = []
            for st in blk:
                if isinstance(st, ast.If) and st.orelse and _terminates(st.body) and not (len(st.orelse) == 1 and isinstance(st.orelse[0], ast.If) and False):
                    rest, st.orelse = st.orelse, []
                    out.append(st)
                    out.extend(rest)
                else:
                    out.append(st)
            setattr(parent, field, out)
    return ast.unparse(ast.fix_missing_locations(tree)) + "\n"


def split_and(src: str) -> str:
    """`if a and b: X` (no else)  ->  `if a:` / `if b: X`."""
    tree = ast.parse(src)

    class T(ast.NodeTransformer):
        def visit_If(self, node):
            self.generic_visit(node)
            if not node.orelse and isinstance(node.test, ast.BoolOp) and isinstance(node.test.op, ast.And) and len(node.test.values) >= 2:
                first, rest = node.test.values[0], node.test.values[1:]
                inner_test = rest[0] if len(rest) == 1 else ast.BoolOp(op=ast.And(), values=rest)
                inner = ast.If(test=inner_test, body=node.body, orelse=[])
                return ast.copy_location(ast.If(test=first, body=[ast.copy_location(inner, node)], orelse=[]), node)
            return node
    return ast.unparse(ast.fix_missing_locations(T().visit(tree))) + "\n"


GENERATED["gen:dedent-else-all"] = (dedent_else, "every `else:` after an arm that ends in return/raise/continue/break removed (its statements follow the if)")
GENERATED["gen:split-and-all"] = (split_and, "every else-less `if a and b:` split into nested ifs")


def hoist_if_test(src: str) -> str:
    """`if <compound test>: ...` -> `_t1 = <test>` ; `if _t1: ...` for plain ifs (not elif arms, whose test must stay behind the earlier arms)
    inside functions.  Tests containing a walrus or an await are left alone."""
    tree = ast.parse(src)
    counter = [0]
    for fn in [n for n in ast.walk(tree) if isinstance(n, (ast.FunctionDef, ast.AsyncFunctionDef))]:
        for parent in ast.walk(fn):
            if isinstance(parent, (ast.FunctionDef, ast.AsyncFunctionDef, ast.ClassDef)) and parent is not fn:
                continue
            for field in ("body", "orelse", "finalbody"):
                blk = getattr(parent, field, None)
                if not isinstance(blk, list):
                    continue
                if field == "orelse" and isinstance(parent, ast.If) and len(blk) == 1 and isinstance(blk[0], ast.If):
                    continue  # elif arm
                out = []
                for st in blk:
                    if isinstance(st, ast.If) and isinstance(st.test, (ast.Compare, ast.BoolOp, ast.Call, ast.UnaryOp)) and not any(isinstance(x, (ast.NamedExpr, ast.Await, ast.Yield, ast.YieldFrom)) for x in ast.walk(st.test)):
                        counter[0] += 1
                        nm = f"_t{counter[0]}"
                        out.append(ast.copy_location(ast.Assign(targets=[ast.Name(id=nm, ctx=ast.Store())], value=st.test, lineno=st.lineno), st))
                        st.test = ast.copy_location(ast.Name(id=nm, ctx=ast.Load()), st.test)
                    out.append(st)
                setattr(parent, field, out)
    return ast.unparse(ast.fix_missing_locations(tree)) + "\n"


def return_var(src: str) -> str:
    """`return <expr>` -> `_r = <expr>` ; `return _r` for non-trivial expressions without await/walrus."""
    tree = ast.parse(src)
    counter = [0]
    for parent in ast.walk(tree):
        for field in ("body", "orelse", "finalbody"):
            blk = getattr(parent, field, None)
            if not isinstance(blk, list):
                continue
            out = []
            for st in blk:
                if isinstance(st, ast.Return) and st.value is not None and not isinstance(st.value, (ast.Name, ast.Constant)) and not any(isinstance(x, (ast.NamedExpr, ast.Await, ast.Yield, ast.YieldFrom)) for x in ast.walk(st.value)):
                    counter[0] += 1
                    nm = f"_r{counter[0]}"
                    out.append(ast.copy_location(ast.Assign(targets=[ast.Name(id=nm, ctx=ast.Store())], value=st.value, lineno=st.lineno), st))
                    st.value = ast.copy_location(ast.Name(id=nm, ctx=ast.Load()), st.value)
                out.append(st)
            setattr(parent, field, out)
    return ast.unparse(ast.fix_missing_locations(tree)) + "\n"


GENERATED["gen:hoist-if-test-all"] = (hoist_if_test, "the test of every plain `if` hoisted into a fresh local in front of it")
GENERATED["gen:return-var-all"] = (return_var, "every `return <expr>` written as `_r = <expr>; return _r`")


def walrus(src: str) -> str:
    """`t = E` immediately followed by `if t ...` / `if not t` / `if t <op> X` (t the first thing the test evaluates) -> `if (t := E) ...`,
    inside functions, for simple names and expressions without await."""
    tree = ast.parse(src)
    for fn in [n for n in ast.walk(tree) if isinstance(n, (ast.FunctionDef, ast.AsyncFunctionDef))]:
        for parent in ast.walk(fn):
            for field in ("body", "orelse", "finalbody"):
                blk = getattr(parent, field, None)
                if not isinstance(blk, list):
                    continue
                out = []
                i = 0
                while i < len(blk):
                    a = blk[i]
                    b = blk[i + 1] if i + 1 < len(blk) else None
                    done = False
                    if isinstance(a, ast.Assign) and len(a.targets) == 1 and isinstance(a.targets[0], ast.Name) and isinstance(b, ast.If) \
                            and not any(isinstance(x, (ast.Await, ast.Yield, ast.YieldFrom, ast.NamedExpr)) for x in ast.walk(a.value)) and not isinstance(a.value, (ast.Constant, ast.Name)):
                        t = a.targets[0].id
                        e = b.test
                        holder, attr = None, None
                        cur, par, fld = e, None, None
                        while True:
                            if isinstance(cur, ast.Name) and cur.id == t:
                                holder, attr = par, fld
                                break
                            if isinstance(cur, ast.Compare):
                                par, fld, cur = cur, ("left", None), cur.left
                            elif isinstance(cur, ast.UnaryOp) and isinstance(cur.op, ast.Not):
                                par, fld, cur = cur, ("operand", None), cur.operand
                            elif isinstance(cur, ast.BoolOp):
                                par, fld, cur = cur, ("values", 0), cur.values[0]
                            else:
                                cur = None
                                break
                        if cur is not None:
                            w = ast.NamedExpr(target=ast.Name(id=t, ctx=ast.Store()), value=a.value)
                            if holder is None:
                                b.test = w
                            elif attr[1] is None:
                                setattr(holder, attr[0], w)
                            else:
                                getattr(holder, attr[0])[attr[1]] = w
                            out.append(b)
                            i += 2
                            done = True
                    if not done:
                        out.append(a)
                        i += 1
                setattr(parent, field, out)
    return ast.unparse(ast.fix_missing_locations(tree)) + "\n"


GENERATED["gen:walrus-all"] = (walrus, "every `t = E` directly followed by an `if` that tests `t` first written as `if (t := E) ...`")


def demorgan(src: str) -> str:
    """`not (a and b)` -> `not a or not b`, `not (a or b)` -> `not a and not b`; and the other way for a BoolOp all of whose operands are
    `not x`: `not a or not b` -> `not (a and b)`.  Applied to if / while / assert tests and boolean operands anywhere."""
    tree = ast.parse(src)

    class T(ast.NodeTransformer):
        def visit_UnaryOp(self, node):
            self.generic_visit(node)
            if isinstance(node.op, ast.Not) and isinstance(node.operand, ast.BoolOp):
                inner = node.operand
                op = ast.Or() if isinstance(inner.op, ast.And) else ast.And()
                return ast.copy_location(ast.BoolOp(op=op, values=[v.operand if isinstance(v, ast.UnaryOp) and isinstance(v.op, ast.Not) else ast.UnaryOp(op=ast.Not(), operand=v) for v in inner.values]), node)
            return node

        def visit_BoolOp(self, node):
            self.generic_visit(node)
            if len(node.values) >= 2 and all(isinstance(v, ast.UnaryOp) and isinstance(v.op, ast.Not) and not isinstance(v.operand, ast.BoolOp) for v in node.values):
                op = ast.Or() if isinstance(node.op, ast.And) else ast.And()
                return ast.copy_location(ast.UnaryOp(op=ast.Not(), operand=ast.BoolOp(op=op, values=[v.operand for v in node.values])), node)
            return node
    return ast.unparse(ast.fix_missing_locations(T().visit(tree))) + "\n"


def chain_split(src: str) -> str:
    """`a < b < c` -> `a < b and b < c` when the middle operands are side-effect free (evaluated twice otherwise)."""
    tree = ast.parse(src)

    class T(ast.NodeTransformer):
        def visit_Compare(self, node):
            self.generic_visit(node)
            if len(node.ops) >= 2 and all(_pure(c) for c in node.comparators[:-1]):
                parts = []
                left = node.left
                for op, right in zip(node.ops, node.comparators):
                    parts.append(ast.Compare(left=left, ops=[op], comparators=[right]))
                    left = right
                return ast.copy_location(ast.BoolOp(op=ast.And(), values=parts), node)
            return node
    return ast.unparse(ast.fix_missing_locations(T().visit(tree))) + "\n"


def loop_guard(src: str) -> str:
    """A loop body that ends in an else-less `if c: <stmts>` -> `if not c: continue` followed by the statements (for / while / async for,
    not inside a try/finally of the loop body level, which does not matter for `continue` in Python >= 3.8)."""
    tree = ast.parse(src)
    for lp in ast.walk(tree):
        if isinstance(lp, (ast.For, ast.AsyncFor, ast.While)) and lp.body and isinstance(lp.body[-1], ast.If) and not lp.body[-1].orelse and len(lp.body) > 1:
            last = lp.body[-1]
            if any(isinstance(x, (ast.FunctionDef, ast.AsyncFunctionDef, ast.ClassDef)) for x in last.body):
                continue
            guard = ast.If(test=ast.UnaryOp(op=ast.Not(), operand=last.test), body=[ast.Continue()], orelse=[])
            lp.body = lp.body[:-1] + [ast.copy_location(guard, last)] + last.body
    return ast.unparse(ast.fix_missing_locations(tree)) + "\n"


GENERATED["gen:demorgan-all"] = (demorgan, "every `not (a and b)` / `not (a or b)` distributed, every `not a or not b` / `not a and not b` factored")
GENERATED["gen:chain-split-all"] = (chain_split, "every chained comparison with side-effect-free middle operands written as a conjunction")
GENERATED["gen:loop-guard-all"] = (loop_guard, "every loop body ending in an else-less `if c: ...` rewritten with `if not c: continue`")
