"""Whole-package behaviour-preserving transformations used as generated benign variants (self-test only).
reformat(src): ast.unparse round trip (drops comments, normalises layout, quotes and parentheses).
rename_locals(src): alpha-renames function locals (not parameters, not names shared with nested scopes, not imports/globals)."""
from __future__ import annotations

import ast

SCOPES = (ast.FunctionDef, ast.AsyncFunctionDef, ast.Lambda, ast.ClassDef, ast.ListComp, ast.SetComp, ast.DictComp, ast.GeneratorExp)


def reformat(src: str) -> str:
    return ast.unparse(ast.parse(src)) + "\n"


def _own_nodes(fn):
    """Nodes of fn's body that belong to fn's own scope (nested scopes are returned separately)."""
    own, nested = [], []
    stack = list(fn.body) + [d for d in fn.args.defaults] + [d for d in fn.args.kw_defaults if d is not None]
    stack = list(fn.body)
    while stack:
        n = stack.pop()
        if isinstance(n, SCOPES):
            nested.append(n)
            continue
        own.append(n)
        stack.extend(ast.iter_child_nodes(n))
    return own, nested


def rename_locals(src: str, suffix: str = "_q") -> str:
    tree = ast.parse(src)
    for fn in [n for n in ast.walk(tree) if isinstance(n, (ast.FunctionDef, ast.AsyncFunctionDef))]:
        own, nested = _own_nodes(fn)
        params = {a.arg for a in fn.args.posonlyargs + fn.args.args + fn.args.kwonlyargs} | ({fn.args.vararg.arg} if fn.args.vararg else set()) | ({fn.args.kwarg.arg} if fn.args.kwarg else set())
        declared = set()
        imported = set()
        bound = set()
        for n in own:
            if isinstance(n, (ast.Global, ast.Nonlocal)):
                declared |= set(n.names)
            elif isinstance(n, (ast.Import, ast.ImportFrom)):
                imported |= {(a.asname or a.name).split(".")[0] for a in n.names}
            elif isinstance(n, ast.Name) and isinstance(n.ctx, (ast.Store, ast.Del)):
                bound.add(n.id)
            elif isinstance(n, ast.ExceptHandler) and n.name:
                declared.add(n.name)  # `except E as x` binds through a str field: leave it alone
            elif isinstance(n, (ast.MatchAs, ast.MatchStar)) and getattr(n, "name", None):
                declared.add(n.name)
        for s in nested:
            if isinstance(s, (ast.FunctionDef, ast.AsyncFunctionDef, ast.ClassDef)):
                declared.add(s.name)
        used_in_nested = {x.id for s in nested for x in ast.walk(s) if isinstance(x, ast.Name)}
        targets = bound - params - declared - imported - used_in_nested
        targets = {t for t in targets if not t.startswith("__")}
        if not targets:
            continue
        for n in own:
            if isinstance(n, ast.Name) and n.id in targets:
                n.id = n.id + suffix
    return ast.unparse(tree) + "\n"
