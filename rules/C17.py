"""C17 Redirects confine credentials and terminate (DESIGN 5/C17)."""
from __future__ import annotations

import ast
import itertools

from sa import match as M, norm, pc as PC, prog, rulekit as K
from sa.cfg import EXPLICIT, cfg_of
from sa.consteval import Folder, NotConst
from sa.dtable import Evaluator
from sa.loader import AnalysisError

CLIENT = "aiohttp/client.py"
SENSITIVE = ("hdrs.AUTHORIZATION", "hdrs.COOKIE", "hdrs.PROXY_AUTHORIZATION")
FOLLOWED = "resp.status in (301, 302, 303, 307, 308)"


class _Redirect:
    """The statements of the hop loop that run when the response is a redirect that is followed - whichever way the source says so:
    nested  `if <status in S and allow_redirects>: BLOCK` (the block), or
    guard   `if <not (status in S and allow_redirects)>: <leave>` followed by BLOCK (what comes after the guard in its block, plus its else).
    `anchor` is the `if` statement in both forms; `edge` the branch of its test that enters the block."""

    def __init__(self, anchor: ast.If, nested: bool):
        self.anchor, self.nested = anchor, nested
        if nested:
            self.stmts = list(anchor.body)
        else:
            blk = PC._block_of(anchor) or []
            self.stmts = list(anchor.orelse) + (blk[blk.index(anchor) + 1:] if anchor in blk else [])
        self.edge = "T" if nested else "F"
        self.scope = anchor if nested else ast.Module(body=self.stmts, type_ignores=[])

    def walk(self):
        if self.nested:
            yield from ast.walk(self.anchor)
        else:
            for s in self.stmts:
                yield from ast.walk(s)

    def entry(self):
        """CNF (as written) of the condition under which the block is entered"""
        return norm.cnf_raw(self.anchor.test, self.nested)

    def top(self, node):
        """the statement of the block that is or contains `node` (None: outside)"""
        n = node
        while n is not None:
            if any(n is s for s in self.stmts):
                return n
            n = getattr(n, "parent", None)
        return None

    def pc(self, node, raw: bool = False):
        """path condition of `node` from the entry test inwards (the entry condition included, nothing of what precedes it)"""
        if self.nested:
            return PC.pc(node, stop=self.anchor, raw=raw)
        top = self.top(node)
        if top is None:
            raise AnalysisError("C17: path condition asked for a statement outside the redirect block")
        clauses = list(PC.pc(node, stop=top, raw=raw))
        idx = [i for i, s in enumerate(self.stmts) if s is top][0]
        PC._RAW[0] = raw
        try:
            for sib in self.stmts[:idx]:
                clauses += PC.fallthrough(sib, node)
            clauses += PC._cnf(self.anchor.test, False, node)
        finally:
            PC._RAW[0] = False
        out = []
        for c in clauses:
            if c not in out:
                out.append(c)
        return PC.simplify(out)


def _find_redirect(rq) -> _Redirect:
    ifs = [i for i in ast.walk(rq.node) if isinstance(i, ast.If)]
    for i in ifs:
        # the guard: its test is false exactly when the status is one of the followed ones (and ...), and its body does not fall into the block
        if any(l.pos and l.text == FOLLOWED for c in norm.cnf_raw(i.test, False) for l in c) and not any(l.pos and FOLLOWED in l.text for c in norm.cnf_raw(i.test, True) for l in c) \
                and PC.terminates(i.body):
            return _Redirect(i, False)
    red = [i for i in ifs if FOLLOWED in norm.raw(i.test)]
    if not red:
        raise AnalysisError("C17: redirect branch not found in ClientSession._request")
    return _Redirect(red[0], True)


def run(chk):
    repo = chk.repo
    folder = Folder(repo)
    chk.explanation = (
        "Decided on ClientSession._request: every path from the redirect status test to the next hop evaluates a comparison of the current URL's "
        "origin with the origin of the final (joined) redirect target, and its unequal branch drops per-request cookies and removes Authorization, "
        "Cookie and Proxy-Authorization; jar cookies, URL credentials and the request object are (re)computed inside the hop loop; the method-rewrite "
        "guard equals the RFC 9110 15.4 table on 5 statuses x 7 methods and its branches set GET / drop the body, or refuse a consumed body; the hop "
        "counter, the history and the max_redirects refusal are on every path to the next hop; only http/https/scheme-less targets are followed; "
        "error exits close and the continue releases the intermediate response."
    )
    chk.not_decided = "what a multi-hop chain finally sends (value level); proxy credential handling of environment proxies."
    chk.explanation += " Also decided: every local derived from the hop's URL is recomputed in each iteration before any use. After the defect hunt: the rewrite branch resets chunked and closes the dropped payload; a 30x without Location is not counted as a hop; the Location netloc is validated inside the guard."
    chk.explanation += " Second hunt: the proxy gets no session-default Authorization/Cookie; a body-less request stays body-less on 301/302/307/308; Expect and a caller's Transfer-Encoding go with the dropped body; URL credentials and non-UTF-8 Locations raise ClientErrors; building an attempt does not consume the shared header mapping."
    rq = repo.func(CLIENT, "ClientSession._request")
    g = cfg_of(rq.node)
    reg = _find_redirect(rq)
    red = reg.anchor
    if {str(l) for l in PC.units(reg.entry())} == {"(resp.status in (301, 302, 303, 307, 308))", "(allow_redirects)"}:
        chk.ok("C17.entry", red, "redirects are followed for 301/302/303/307/308 when allow_redirects is set")
    else:
        chk.violation("C17.entry", red, norm.raw(red.test), "resp.status in (301, 302, 303, 307, 308) and allow_redirects", "the set of followed redirect statuses changed")
    rtest = [n for n in g.nodes if n.kind == "test" and n.ast is red.test]
    hop_start = [(r, reg.edge) for r in rtest]
    loop = [w for w in ast.walk(rq.node) if isinstance(w, ast.While) and any(x is red for x in ast.walk(w))]
    loop = loop[-1] if loop else None
    if reg.nested:
        conts = [n for n in g.nodes if n.kind == "stmt" and isinstance(n.ast, ast.Continue) and any(x is red for x in prog.enclosing(n.ast, (ast.If,)))]
        nhops, falls = len(conts), False
    else:
        # the next hop is begun by a `continue` of the hop loop inside the block, or by running off the end of the loop body
        conts = [n for n in g.nodes if n.kind == "stmt" and isinstance(n.ast, ast.Continue) and reg.top(n.ast) is not None and K.loop_ancestors(n.ast)[:1] == [loop]]
        heads = [n for n in g.nodes if loop is not None and n.kind == "test" and n.ast is loop.test]
        falls = bool(rtest) and g.find_path(None, lambda n: n in heads, lambda n: n in conts, EXPLICIT, hop_start) is not None
        nhops = len(conts) + (1 if falls else 0)
        if falls:
            conts = conts + heads
    if nhops != 1 or not rtest:
        raise AnalysisError(f"C17: {nhops} redirect `continue` statements (1 confirmed)")
    # ---- strip ------------------------------------------------------------------------------------------------
    def _origin_parts(e, at=None, depth=0):
        """(base text, set of components) of one side of the comparison: `X.origin()` or a tuple of X.scheme / X.raw_host|host / X.port"""
        if isinstance(e, ast.Call) and isinstance(e.func, ast.Attribute) and e.func.attr == "origin":
            return norm.raw(e.func.value), {"scheme", "host", "netloc-port"}
        if isinstance(e, ast.Name):
            fd = norm.fn_defs(rq.node)
            vals = [v for _d, v in fd.defs.get(e.id, []) if v is not None]
            if len(vals) == 1 and isinstance(vals[0], ast.Call) and isinstance(vals[0].func, ast.Attribute) and vals[0].func.attr == "origin":
                return e.id, {"scheme", "host", "netloc-port"}
            # a local that names one side: it stands for its only definition, provided that what it was computed from is not bound again
            # between that definition and the comparison (else the key of an earlier URL would be compared)
            ds = fd.defs.get(e.id, [])
            if at is not None and depth < 2 and len(ds) == 1 and ds[0][1] is not None and not isinstance(ds[0][1], ast.Name):
                d = ds[0][0]
                b, comps = _origin_parts(ds[0][1], at, depth + 1)
                if b is not None and b.isidentifier() and getattr(d, "lineno", 10**9) < at.lineno and any(x is loop for x in K.loop_ancestors(d)) \
                        and not any(d.lineno <= getattr(x, "lineno", 0) <= at.lineno for x in fd.def_nodes(b) if x is not d):
                    return b, comps
            return None, set()
        if isinstance(e, ast.Call) and isinstance(e.func, ast.Name) and len(e.args) == 1 and not e.keywords:
            # a helper of the module that maps a URL to its origin key: `_origin_key(url)` returning (scheme', host', port) - each element
            # is computed from one component of the parameter (normalised: ws -> http, lower-cased host)
            r_ = repo.resolve_name(rq.module, e.func.id)
            if r_ and r_[0] == "func" and len(r_[1].node.args.args) == 1:
                hf = r_[1]
                par = hf.node.args.args[0].arg
                rets = [x.value for x in ast.walk(hf.node) if isinstance(x, ast.Return) and isinstance(x.value, ast.Tuple)]
                if len(rets) == 1:
                    hd = norm.fn_defs(hf.node)
                    comps = set()
                    for el in rets[0].elts:
                        seen_, todo = set(), [el]
                        while todo:
                            x = todo.pop()
                            for a in ast.walk(x):
                                if isinstance(a, ast.Attribute) and isinstance(a.value, ast.Name) and a.value.id == par:
                                    seen_.add("host" if a.attr in ("raw_host", "host", "host_subcomponent") else a.attr)
                                elif isinstance(a, ast.Name) and a.id != par:
                                    todo += [v for _d, v in hd.defs.get(a.id, []) if v is not None and v is not x]
                        if len(seen_) == 1:
                            comps |= seen_
                    return norm.raw(e.args[0]), comps
        if isinstance(e, ast.Tuple) and e.elts and all(isinstance(x, ast.Attribute) for x in e.elts):
            bases = {norm.raw(x.value) for x in e.elts}
            if len(bases) == 1:
                comps = {"host" if x.attr in ("raw_host", "host", "host_subcomponent") else x.attr for x in e.elts}
                return bases.pop(), comps
        return None, set()

    oif = []
    for i in reg.walk():
        if isinstance(i, ast.If) and isinstance(i.test, ast.Compare) and len(i.test.ops) == 1 and isinstance(i.test.ops[0], (ast.NotEq, ast.Eq)):
            lb, lc = _origin_parts(i.test.left, i)
            rb, rc = _origin_parts(i.test.comparators[0], i)
            if lb is not None and rb is not None and "url" in (lb, rb):
                oif.append((i, lb, lc, rb, rc))
    if not oif:
        chk.violation("C17.strip", red, "if url.origin() != redirect_origin:", "origin comparison", "no origin comparison in the redirect branch: caller credentials follow the redirect to any origin")
    else:
        o, lb, lc, rb, rc = oif[0]
        t = norm.text(o.test, o)
        left, right = lb, rb
        want_c = {"scheme", "host", "port"}
        if want_c <= lc and want_c <= rc and isinstance(o.test.ops[0], ast.NotEq) and lb != rb:
            chk.ok("C17.strip", o, f"cross-origin test compares full origins (scheme, host, port) of `{lb}` and `{rb}`")
        elif {"scheme", "host", "netloc-port"} <= lc and {"scheme", "host"} <= rc and isinstance(o.test.ops[0], ast.NotEq) and lb != rb:
            chk.violation("C17.strip", o, norm.raw(o.test), "(url.scheme, url.raw_host, url.port) != (<target>.scheme, <target>.raw_host, <target>.port)",
                          "the cross-origin test compares yarl origins, i.e. the netloc text: `http://a.test/` redirected to `http://a.test:80/next` (the same origin, default port spelled out) is taken for another origin and loses Authorization, Cookie and the per-request cookies for the rest of the chain")
        else:
            chk.violation("C17.strip", o, norm.raw(o.test), "(url.scheme, url.raw_host, url.port) != (<target>.scheme, <target>.raw_host, <target>.port)", "the cross-origin test does not compare full origins (e.g. host only: a port or scheme change keeps the credentials)")
        body = " ; ".join(norm.raw(s) for s in o.body)
        missing = [h for h in SENSITIVE if f"headers.popall({h}, None)" not in body and f"headers.pop({h}, None)" not in body]
        if "cookies = None" not in body:
            missing.append("cookies = None")
        if missing:
            for m in missing:
                chk.violation("C17.strip", o, norm.raw(o.test), m, f"on a cross-origin redirect `{m}` is not dropped: the caller's credential is sent to another origin")
        else:
            chk.ok("C17.strip", o, "the cross-origin branch drops per-request cookies and removes Authorization, Cookie and Proxy-Authorization")
        onodes = [n for n in g.nodes if n.kind == "test" and n.ast is o.test]
        K.must_pass(chk, "C17.strip", rq, None, lambda n: n in onodes, "every path from the redirect status test to the next hop evaluates the origin comparison",
                    start_edges=hop_start, targets=lambda n: n in conts, construct="continue (next hop)", missing="if url.origin() != redirect_origin")
        # the compared origin is that of the *final* target (after a scheme-less Location was joined)
        rname = right if right != "url" else left
        od = norm.fn_defs(rq.node).defs.get(rname, []) if rname.isidentifier() else []
        joins = [s for s in reg.walk() if isinstance(s, ast.Assign) and "url.join(" in norm.raw(s.value)]
        src = norm.raw(od[0][1]) if od and od[0][1] is not None else t
        tgt = src.split(".origin()")[0] if ".origin()" in src else None
        last_def = max((getattr(d, "lineno", 0) for d in norm.fn_defs(rq.node).def_nodes(tgt)), default=0) if tgt and tgt.isidentifier() else 0
        where = od[0][0].lineno if od else o.lineno
        nxt = [s for s in reg.walk() if isinstance(s, ast.Assign) and norm.raw(s.targets[0]) == "url"]
        if tgt and last_def and last_def < where and nxt and norm.raw(nxt[0].value) == tgt:
            chk.ok("C17.strip", od[0][0] if od else o, f"the compared origin is taken from `{tgt}` after its last (re)definition (relative/scheme-relative Locations already joined), and `{tgt}` is the next hop's URL")
        else:
            chk.violation("C17.strip", o, norm.raw(o.test), f"origin of the final target (defs of {tgt} end at line {last_def}, origin taken at {where})",
                          "the origin is computed before the Location is joined with the current URL, or for a different URL than the next hop's: `//other-host/` keeps the credentials")
    # ---- perhop ---------------------------------------------------------------------------------------------------
    for pat, why in (("self._cookie_jar.filter_cookies(url)", "jar cookies are selected for each hop's URL"), ("strip_auth_from_url(url)", "URL-embedded credentials are extracted per hop"),
                     ("self._request_class(...)", "a new request object is built for every hop")):
        hits = K.exprs(rq, pat)
        if hits and loop is not None and all(any(x is loop for x in K.loop_ancestors(c)) for c, _b in hits):
            chk.ok("C17.perhop", hits[0][0], f"{why} (inside the hop loop)")
        else:
            chk.violation("C17.perhop", rq, pat, "inside the redirect loop", f"{why}: computed once before the loop, it is reused for other origins")
    # hop-derived locals: a local computed from the hop's URL inside the loop must be recomputed on every path of an
    # iteration before it is used, otherwise a later hop (another origin) sees the value derived from an earlier URL
    if loop is not None:
        from sa import dataflow as D
        lids = D.loop_nodes(g, loop)
        heads = [n for n in g.nodes if n.id in lids and n.ast is loop.test and n.in_finally_copy is None]
        hop = {}
        for n in g.nodes:
            if n.id not in lids or n.kind != "stmt" or not isinstance(n.ast, (ast.Assign, ast.AnnAssign)) or getattr(n.ast, "value", None) is None:
                continue
            v = n.ast.value
            if isinstance(v, ast.Await):
                v = v.value
            from_url = isinstance(v, ast.Call) and any(isinstance(x, ast.Name) and x.id == "url" for a in list(v.args) + [k.value for k in v.keywords] for x in ast.walk(a))
            if from_url:
                for name in D.node_defs(n):
                    if name != "url":
                        hop.setdefault(name, n)
        n_fresh = 0
        for name, dn in sorted(hop.items()):
            defs = lambda n, name=name: n.id in lids and name in D.node_defs(n)
            stale = None
            for u in g.nodes:
                if u.id not in lids or u.in_finally_copy is not None or name not in D.node_uses(u, include_closures=False):
                    continue
                path = g.find_path(heads, lambda n, u=u: n is u, defs, EXPLICIT)
                if path is not None:
                    stale = (u, path)
                    break
            n_fresh += 1
            if stale is None:
                chk.ok("C17.perhop", dn.ast, f"`{name}` (derived from the hop's URL by `{K.short(dn.ast.value, 50)}`) is recomputed in every iteration before any use")
            else:
                chk.violation("C17.perhop", stale[0].ast, K.short(stale[0].ast, 70), f"{name} = <derived from this hop's url>",
                              f"`{name}` is derived from the hop URL but a path through an iteration reaches this use without recomputing it: the value of an earlier hop (another origin's credentials / cookies / proxy) is reused",
                              path=g.fmt_path(stale[1]))
        chk.expect_count("C17.perhop", n_fresh, 4, "locals derived from the hop URL")
    # ---- table ---------------------------------------------------------------------------------------------------------
    rw = [i for i in reg.walk() if isinstance(i, ast.If) and "resp.status == 303" in norm.raw(i.test)]
    if not rw:
        chk.violation("C17.table", red, "if (resp.status == 303 and resp.method != HEAD) or (resp.status in (301, 302) and resp.method == POST)", "", "method rewriting guard not found")
    else:
        rwi = rw[0]
        bad = []
        rows = 0
        for status, method in itertools.product((301, 302, 303, 307, 308), ("GET", "HEAD", "POST", "PUT", "PATCH", "DELETE", "OPTIONS")):
            env = {"resp.status": status, "resp.method": method, "hdrs.METH_HEAD": "HEAD", "hdrs.METH_POST": "POST", "hdrs.METH_GET": "GET"}
            got = bool(Evaluator(env).ev(rwi.test))
            want = (status == 303 and method != "HEAD") or (status in (301, 302) and method == "POST")
            rows += 1
            if got != want:
                bad.append((status, method, got))
        if bad:
            for s_, m_, g_ in bad[:4]:
                chk.violation("C17.table", rwi, norm.raw(rwi.test), f"status {s_} method {m_}", f"{s_} on {m_}: method {'is' if g_ else 'is not'} rewritten to GET, contrary to the documented table (RFC 9110 15.4)")
        else:
            chk.ok("C17.table", rwi, f"method-rewrite guard equals the documented table on all {rows} (status, method) rows")
            chk.exhaustive_domains.append(f"C17.table: {rows} rows")
        body = " ; ".join(norm.raw(s) for s in rwi.body)
        if "method = hdrs.METH_GET" in body and "data = None" in body and "headers.pop(hdrs.CONTENT_LENGTH)" in body:
            chk.ok("C17.table", rwi, "rewrite branch: method = GET, body dropped, Content-Length removed")
        else:
            chk.violation("C17.table", rwi, norm.raw(rwi.test), "method = GET; data = None; pop Content-Length", "the rewrite branch keeps the body or its length header")
        # the body's framing and the payload object go with the body
        if "chunked = None" in body or "chunked = False" in body:
            chk.ok("C17.table", rwi, "rewrite branch: the chunked flag is reset together with the body")
        else:
            chk.violation("C17.table", rwi, norm.raw(rwi.test), "chunked = None", "a chunked POST redirected with 301/302/303 becomes a body-less GET that still writes the chunked terminator `0\\r\\n\\r\\n` after its header block, without a Transfer-Encoding header: the target server reads it as a malformed next request")
        if "await req._body.close()" in body:
            chk.ok("C17.release", rwi, "rewrite branch: the dropped payload is closed")
        else:
            chk.violation("C17.release", rwi, norm.raw(rwi.test), "await req._body.close()", "the payload of a request whose body is dropped by a 301/302/303 redirect (e.g. an open file) is never closed")
        keep = [s for o in rwi.orelse for s in ast.walk(o) if isinstance(s, ast.Assign) and norm.raw(s) == "data = req._body"]
        ref = [n for n, c in K.raises_in(ast.Module(body=rwi.orelse, type_ignores=[])) if c == "ClientPayloadError"]
        if keep and ref and PC.has_lit(PC.pc(ref[0], stop=rwi), "req._body.consumed", True) is not None and ref[0].lineno < keep[0].lineno:
            chk.ok("C17.table", keep[0], "preserve branch: the same payload is re-sent, a consumed (non-replayable) body is refused first")
        else:
            chk.violation("C17.table", rwi, "else: if req._body.consumed: raise ...; data = req._body", "", "a consumed body is silently re-sent empty / the body is not preserved on 307/308")
        # a request that had no body has none on the next hop either (the empty payload is a sentinel, not data to replay)
        if keep:
            kl = [l for c in PC.pc(keep[0], stop=rwi, raw=True) if len(c) == 1 for l in c]
            extra = [l for l in kl if "consumed" not in l.text and "_EMPTY_BODY" not in l.text and "req._body" not in l.text]
            if any("_EMPTY_BODY" in l.text or l.text in ("data is None", "data is not None") for l in kl) and not extra:
                chk.ok("C17.table", keep[0], "preserve branch: the payload is carried over only when the request had one")
            elif extra:
                chk.violation("C17.table", keep[0], K.short(keep[0]), str(extra[0]), "the body is preserved on 307/308 only under an extra condition")
            else:
                chk.violation("C17.table", keep[0], K.short(keep[0]), "if req._body is not req._EMPTY_BODY: data = req._body",
                              "the preserve branch re-sends `req._body` even when the request had no body: the empty-payload sentinel counts as data, so a body-less GET/HEAD/OPTIONS redirected by 301/302/307/308 gains `Content-Length: 0` and `Content-Type: application/octet-stream` on the next hop")
        if "hdrs.TRANSFER_ENCODING" in body:
            chk.ok("C17.table", rwi, "rewrite branch: a caller-supplied Transfer-Encoding header is dropped together with the body")
        else:
            chk.violation("C17.table", rwi, norm.raw(rwi.test), "headers.popall(hdrs.TRANSFER_ENCODING, None)",
                          "a caller-supplied `Transfer-Encoding: chunked` header survives the 301/302/303 rewrite to a body-less GET: the GET announces a chunked body that is never terminated and the target server's handler hangs")
        # ... and so do the headers that described the body (RFC 9110 15.4: content-specific header fields)
        dropped = set()
        for c_ in [c_ for st_ in rwi.body for c_ in ast.walk(st_) if isinstance(c_, ast.Call) and isinstance(c_.func, ast.Attribute) and c_.func.attr in ("pop", "popall", "popone") and norm.raw(c_.func.value) == "headers" and c_.args]:
            a0 = c_.args[0]
            if isinstance(a0, ast.Attribute):
                dropped.add(norm.raw(a0))
            elif isinstance(a0, ast.Name):
                for f_ in prog.enclosing(c_, (ast.For,)):
                    if norm.raw(f_.target) == a0.id and isinstance(f_.iter, (ast.Tuple, ast.List, ast.Set)):
                        dropped |= {norm.raw(e_) for e_ in f_.iter.elts}
        want_h = {"hdrs.CONTENT_TYPE", "hdrs.CONTENT_ENCODING"}
        if want_h <= dropped:
            chk.ok("C17.table", rwi, f"rewrite branch: the headers describing the dropped body go with it ({', '.join(sorted(dropped - {'hdrs.CONTENT_LENGTH', 'hdrs.TRANSFER_ENCODING', 'hdrs.EXPECT'}))})")
        else:
            chk.violation("C17.table", rwi, norm.raw(rwi.test), "headers.popall(<Content-Type, Content-Encoding, ...>, None)",
                          f"a caller-supplied {', '.join(sorted(h.replace('hdrs.', '') for h in want_h - dropped))} header survives the 301/302/303 rewrite: the body-less GET to the redirect target claims `Content-Type: application/json` / `Content-Encoding: gzip` for content that was dropped (RFC 9110 15.4 says to remove them)")
        # the expectation goes with the body it announced
        if "expect100 = False" in body and "hdrs.EXPECT" in body:
            chk.ok("C17.table", rwi, "rewrite branch: Expect: 100-continue is dropped together with the body")
        else:
            chk.violation("C17.table", rwi, norm.raw(rwi.test), "expect100 = False; headers.popall(hdrs.EXPECT, None)",
                          "a POST sent with expect100=True and redirected by 301/302/303 becomes a body-less GET that still carries `Expect: 100-continue` (RFC 9110 10.1.1 forbids it without content); the writer waits for a 100 that never comes and the connection is closed instead of pooled")
    # ---- limit -----------------------------------------------------------------------------------------------------------
    for pat, what in (("redirects += 1", "hop counter"), ("history.append(resp)", "history record")):
        nodes = K.nodes_matching(rq, pat)
        if nodes:
            K.must_pass(chk, "C17.limit", rq, None, lambda n, nodes=nodes: n in nodes, f"the {what} is updated on every path to the next hop", start_edges=hop_start,
                        targets=lambda n: n in conts, construct="continue (next hop)", missing=pat)
        else:
            chk.violation("C17.limit", red, pat, "", f"{what} vanished")
    tm = [n for n, c in K.raises_in(reg.scope) if c == "TooManyRedirects"]
    redlits = {str(l) for l in PC.units(reg.entry())}
    tmu = {str(l) for l in PC.units(reg.pc(tm[0]))} - redlits if tm else set()
    # besides the limit test itself only outcomes of earlier exits that did not fire (negative literals, e.g. "there is a Location") may occur
    if tm and {"(max_redirects)", "!(redirects < max_redirects)"} <= tmu and all(x.startswith("!(") for x in tmu - {"(max_redirects)"}):
        tn = [n for n in g.nodes if n.kind == "test" and "redirects >= max_redirects" in norm.raw(n.ast)]
        K.must_pass(chk, "C17.limit", rq, None, lambda n: n in tn, "the max_redirects test is evaluated on every path to the next hop", start_edges=hop_start,
                    targets=lambda n: n in conts, construct="continue (next hop)", missing="if max_redirects and redirects >= max_redirects")
    else:
        chk.violation("C17.limit", red, "if max_redirects and redirects >= max_redirects: raise TooManyRedirects", "", "the redirect limit test changed (off by one, or not raised)")
    # only a response that is actually followed is a hop: the "no Location" exit comes before the counter, the history and the refusals
    noloc = [n for n in g.nodes if n.kind == "test" and n.in_finally_copy is None and "r_url is None" in norm.raw(n.ast) or (n.kind == "test" and norm.raw(n.ast) in ("r_url", "not r_url"))]
    hist = K.nodes_matching(rq, "history.append(resp)")
    if noloc and hist:
        pth = g.find_path(None, lambda n: n in hist, lambda n: n in noloc, EXPLICIT, hop_start)
        if pth is None:
            chk.ok("C17.limit", hist[0].ast, "a 30x without Location leaves the loop before it is counted, recorded in history or refused as a redirect")
        else:
            chk.violation("C17.limit", hist[0].ast, "history.append(resp)", "after the `Location is None: break` test",
                          "a 30x response without Location (returned to the caller as the final response) is first counted and put into its own history, and can raise a spurious TooManyRedirects / `consumed body` error although nothing would be followed", path=g.fmt_path(pth))
    else:
        chk.analysis_error("C17.limit: Location test / history record not found in the redirect branch")
    # the Location is validated completely inside the guard: with encoded=True yarl defers netloc validation to the first access
    urls = [s for s in reg.walk() if isinstance(s, ast.Assign) and isinstance(s.value, ast.Call) and norm.raw(s.value.func) == "URL" and any(k.arg == "encoded" for k in s.value.keywords)]
    for u in urls:
        tr = next((t for t in prog.enclosing(u, (ast.Try,)) if prog.in_body_of(u, t, "body") and any("ValueError" in PC.handler_types(h) for h in t.handlers)), None)
        tname = norm.raw(u.targets[0])
        # ... by an access that reads *this* value: after the assignment and before the name is bound again (fifth hunt: the Location is
        # re-parsed once its blanks are quoted, and an access behind the second parse said nothing about the first)
        later = [s2.lineno for s2 in reg.walk() if isinstance(s2, ast.Assign) and s2 is not u and norm.raw(s2.targets[0]) == tname and s2.lineno > u.lineno]
        upto = min(later) if later else 10**9
        forced = tr is not None and any(isinstance(n, ast.Attribute) and n.attr in ("port", "host", "authority", "explicit_port") and norm.raw(n.value) == tname and u.lineno < n.lineno < upto
                                        for st_ in tr.body for n in ast.walk(st_))
        if forced:
            chk.ok("C17.entry", u, f"the redirect target `{tname}` has its netloc validated inside the ValueError guard")
        else:
            chk.violation("C17.entry", u, K.short(u, 70), f"{tname}.port inside the try", "with requote_redirect_url=False the Location is parsed with encoded=True, which defers netloc validation: `Location: http://b.test:abc/` passes every guard and the next hop raises a bare ValueError (not a ClientError) from server-controlled input")
    hunt2_rules(chk, repo, rq, reg)
    hunt3_rules(chk, repo, rq, reg)
    hunt5_rules(chk, repo, rq, reg)
    round7_rules(chk, repo, rq)
    inc = [s for s in reg.walk() if isinstance(s, ast.AugAssign) and norm.raw(s) == "redirects += 1"]
    if inc and tm and inc[0].lineno < tm[0].lineno:
        chk.ok("C17.limit", inc[0], "the counter is incremented before it is compared (at most max_redirects requests)")
    # scheme filter: whatever collection the refusal tests membership in must be a constant equal to {http, https, ""} - a set that comes from
    # somewhere else (the connector's allowed schemes also admit ws / wss / tcp / unix for ws_connect() and connector URLs) lets such a
    # Location through as an ordinary HTTP hop
    nh = [n for n, c in K.raises_in(reg.scope) if c == "NonHttpUrlRedirectClientError"]
    nxt = [s for s in reg.walk() if isinstance(s, ast.Assign) and norm.raw(s.targets[0]) == "url"]
    bset = PC.has_lit(reg.pc(nh[0]), "$S in $SET", False) if nh else None
    schemes = None
    if bset is not None:
        try:
            schemes = set(folder.eval(repo.module(CLIENT), bset["SET"]))
        except (NotConst, TypeError, AttributeError):
            schemes = None
    if schemes == {"http", "https", ""} and nxt and nh[0].lineno < nxt[0].lineno:
        chk.ok("C17.limit", nh[0], "only http / https / scheme-less Locations are followed; the refusal precedes the URL switch")
    else:
        shown = sorted(schemes) if schemes is not None else (norm.raw(bset["SET"]) + " (not a constant of this module)" if bset is not None else "no membership test")
        chk.violation("C17.limit", nh[0] if nh else red, "if scheme not in HTTP_AND_EMPTY_SCHEMA_SET: raise NonHttpUrlRedirectClientError", f"schemes={shown}",
                      "non-HTTP redirect targets are followed: the refusal does not test the redirect scheme against the fixed set {http, https, ''} (a connector's allowed_protocol_schema_set also contains ws, wss and tcp / unix / npipe, so `Location: ws://...` or `tcp://...` would be requested like an HTTP URL)")
    sd = norm.fn_defs(rq.node).defs.get("scheme", [])
    if sd and norm.raw(sd[0][1]) == "parsed_redirect_url.scheme":
        chk.ok("C17.limit", sd[0][0], "the tested scheme is the redirect target's")
    # ---- release (shared with C06) --------------------------------------------------------------------------------------------
    nr = nc = 0
    for n in reg.walk():
        if isinstance(n, (ast.Raise, ast.Continue)):
            blk = PC._block_of(n)
            prior = blk[: blk.index(n)]
            if isinstance(n, ast.Raise):
                # a raise that a handler of the same function catches is no exit (the handler's own raise is looked at)
                cls_ = K.raise_class(n)
                if cls_ and any(prog.in_body_of(n, t_, "body") and cls_ in PC.handler_types(h_) for t_, h_ in K.enclosing_try_handlers(n)):
                    continue
                nr += 1
                if any(M.contains(p, "resp.close()") for p in prior):
                    chk.ok("C17.release", n, f"redirect error exit `{K.short(n, 40)}` closes the intermediate response")
                else:
                    chk.violation("C17.release", n, K.short(n), "resp.close()", "a redirect error exit leaks the intermediate response")
            else:
                nc += 1
                if any(M.contains(p, "resp.release()") for p in prior):
                    chk.ok("C17.release", n, "the intermediate response is released before the next hop")
                else:
                    chk.violation("C17.release", n, "continue", "resp.release()", "the intermediate response is not released before the next hop")
    if not reg.nested and falls and reg.stmts:
        # the next hop is begun by running off the end of the loop body: the statements of the block are what precedes that implicit `continue`
        nc += 1
        if any(M.contains(p, "resp.release()") for p in reg.stmts):
            chk.ok("C17.release", reg.stmts[-1], "the intermediate response is released before the next hop")
        else:
            chk.violation("C17.release", reg.stmts[-1], "continue", "resp.release()", "the intermediate response is not released before the next hop")
    chk.expect_count("C17.release", nr, 5, "raise sites in the redirect branch")


def _only_def(rq, e):
    """the expression a local stands for when it is bound exactly once in the function (else the expression itself)"""
    if isinstance(e, ast.Name):
        ds = norm.fn_defs(rq.node).defs.get(e.id, [])
        if len(ds) == 1 and ds[0][1] is not None:
            return ds[0][1]
    return e


def _root_text(e) -> str:
    """`r_url.replace(' ', '%20')` -> `r_url`: the object a chain of method calls / attribute reads starts from"""
    while True:
        if isinstance(e, ast.Call) and isinstance(e.func, ast.Attribute):
            e = e.func.value
        elif isinstance(e, ast.Attribute):
            e = e.value
        else:
            return norm.raw(e)


def round7_rules(chk, repo, rq):
    """Rule written after seeding round 7 (seed C17-7): the header set that the redirect loop edits in place belongs to this request.
    _request() sets Authorization from URL credentials / netrc and removes credentials with popall() on a cross-origin hop - on the object
    _prepare_headers() returned.  If that can be the session's default header set itself, a credential given for origin A stays in the
    defaults and goes to an unrelated origin with a later request (and a cross-origin redirect deletes a default for good)."""
    ph = repo.func("aiohttp/client.py", "ClientSession._prepare_headers")
    mutated = any(isinstance(c.func, ast.Attribute) and norm.raw(c.func.value) == "headers" and c.func.attr in ("popall", "pop", "add", "update", "extend", "clear", "setdefault") for c in prog.calls_in(rq.node)) or any(
        isinstance(a, ast.Assign) and isinstance(a.targets[0], ast.Subscript) and norm.raw(a.targets[0].value) == "headers" for a in ast.walk(rq.node))
    hdefs = [v for _d, v in norm.fn_defs(rq.node).defs.get("headers", []) if v is not None]
    from_prep = any("self._prepare_headers(" in norm.raw(v) for v in hdefs)
    if not (mutated and from_prep):
        chk.ok("C17.headers.fresh", rq, "_request() does not edit the result of _prepare_headers() in place")
        return
    copied = all("_prepare_headers(" not in norm.raw(v) or norm.raw(v).endswith(".copy()") or norm.raw(v).startswith("CIMultiDict(") for v in hdefs)
    defs = norm.fn_defs(ph.node)
    nret = 0
    bad = None
    for r in [r for r in ast.walk(ph.node) if isinstance(r, ast.Return) and r.value is not None]:
        nret += 1
        v = r.value
        vals = [v] if not isinstance(v, ast.Name) else [x for _d, x in defs.defs.get(v.id, []) if x is not None]
        fresh = bool(vals) and all(isinstance(x, ast.Call) and norm.raw(x.func) in ("CIMultiDict", "MultiDict", "CIMultiDict[str]") or (isinstance(x, ast.Call) and isinstance(x.func, ast.Attribute) and x.func.attr == "copy") for x in vals)
        if not fresh:
            bad = r
    if copied or bad is None:
        chk.ok("C17.headers.fresh", ph, f"_prepare_headers(): all {nret} return statements hand out a new CIMultiDict; what the redirect loop edits is this request's own header set")
    else:
        chk.violation("C17.headers.fresh", bad, K.short(bad), "return CIMultiDict(self._default_headers)",
                      "_prepare_headers() can return the session's default header object itself, and _request() edits its result in place (headers[Authorization] = ..., headers.popall(...)): a header-less request to `http://user:pw@A/` leaves `Authorization: Basic ...` in the session defaults, and a later header-less request to an unrelated origin C carries the credentials that were given for A only; a cross-origin redirect deletes a session-level Authorization / Cookie default for good")


def hunt5_rules(chk, repo, rq, reg):
    """Rules written after the fifth defect hunt (F297-F300)."""
    red = reg.anchor
    DG = "aiohttp/client_middleware_digest_auth.py"
    # ---- C17.join.raw: a relative Location is resolved against the raw path of the current URL -----------------------------------------------------------
    # yarl's URL.join() merges a relative path with the *decoded* segments of a base whose path does not end in `/`: `/my%20docs/index` + `other`
    # becomes `/my docs/other` on the wire, `%2F` in the directory becomes a separator (another resource), `%0D%0A` raises a bare ValueError.
    joins = [c for c in reg.walk() if isinstance(c, ast.Call) and isinstance(c.func, ast.Attribute) and c.func.attr == "join" and c.args and not isinstance(c.func.value, ast.Constant)]
    if not joins:
        chk.analysis_error("C17.join.raw: no `<base>.join(<Location>)` found in the redirect branch")
    for c in joins:
        base = c.func.value
        vals = [v for _d, v in norm.fn_defs(rq.node).defs.get(base.id, []) if v is not None] if isinstance(base, ast.Name) else []
        raw_based = [v for v in vals if isinstance(v, ast.Call) and isinstance(v.func, ast.Attribute) and v.func.attr == "with_path" and any(k.arg == "encoded" and isinstance(k.value, ast.Constant) and k.value.value is True for k in v.keywords)]
        if raw_based and any(isinstance(a, ast.Assign) and a.value is raw_based[0] and any("startswith('/')" in norm.raw(i.test) or 'startswith("/")' in norm.raw(i.test) for i in prog.enclosing(a, (ast.If,))) for a in reg.walk()):
            chk.ok("C17.join.raw", c, "a Location with a relative path is joined to a base whose last raw path segment was cut off (encoded=True): yarl merges raw texts, dot segments are still resolved")
        else:
            chk.violation("C17.join.raw", c, K.short(c), "base_url = url.with_path(url.raw_path[: url.raw_path.rfind('/') + 1], encoded=True) for a relative path",
                          "a relative Location is joined to the hop URL itself: yarl merges it with the percent-decoded segments - `GET /my%20docs/index` answered `302 Location: other` puts `GET /my docs/other HTTP/1.1` on the wire, a `%2F` of the directory becomes a path separator (another resource is requested) and `%0D%0A` makes session.get() raise a bare ValueError")
    # ---- C17.entry.requoted: a Location that is re-parsed after its blanks were quoted is validated again ---------------------------------------------------
    nre = 0
    for a in reg.walk():
        if isinstance(a, ast.Assign) and norm.raw(a.targets[0]) == "parsed_redirect_url" and isinstance(a.value, ast.Call) and norm.raw(a.value.func) == "URL" and a.value.args and ".replace(" in norm.raw(a.value.args[0]):
            nre += 1
            blk = PC._block_of(a) or []
            after = blk[blk.index(a) + 1:] if a in blk else []
            forced = [x for x in after if isinstance(x, ast.Expr) and isinstance(x.value, ast.Attribute) and norm.raw(x.value.value) == "parsed_redirect_url" and x.value.attr in ("port", "host", "explicit_port", "authority")]
            handled = any(any(t in ("ValueError",) for t in PC.handler_types(h)) for _t, h in K.enclosing_try_handlers(a))
            if forced and handled:
                chk.ok("C17.entry", forced[0], "the URL re-parsed with quoted blanks has its authority split (`.port`) under the handler that turns ValueError into InvalidUrlRedirectClientError")
            else:
                chk.violation("C17.entry", a, K.short(a), "parsed_redirect_url.port  right after the re-parse, inside the try",
                              "with requote_redirect_url=False a Location whose blank stands next to the port (`http://a.test:8080 /fin`) passes the first parse (int('8080 ') is accepted), is re-parsed with `%20` in the port and never validated: session.get() raises a bare `ValueError: port can't be converted to integer` instead of InvalidUrlRedirectClientError")
    chk.expect_count("C17.entry.requoted", nre, 1, "re-parses of a Location whose blanks were quoted")
    # ---- C17.strip.norm: the two origins are compared in normal form ----------------------------------------------------------------------------------------
    mod_txt = ""
    for i in reg.walk():
        # (a side may be named by a local: it stands for its only definition in _request)
        sides = [_only_def(rq, x) for x in (i.test.left, i.test.comparators[0])] if isinstance(i, ast.If) and isinstance(i.test, ast.Compare) else []
        if sides and any(isinstance(x, ast.Call) and isinstance(x.func, ast.Name) for x in sides):
            for x in sides:
                r_ = repo.resolve_name(rq.module, x.func.id) if isinstance(x, ast.Call) and isinstance(x.func, ast.Name) else None
                if r_ and r_[0] == "func":
                    mod_txt += norm.raw(r_[1].node)
        elif isinstance(i, ast.If) and isinstance(i.test, ast.Compare) and "raw_host" in norm.raw(i.test) and "scheme" in norm.raw(i.test):
            mod_txt += norm.raw(i.test)
    if ".lower()" in mod_txt and ("'ws'" in mod_txt or '"ws"' in mod_txt):
        chk.ok("C17.strip", red, "the cross-origin test lower-cases the host and takes ws / wss for http / https on both sides")
    else:
        chk.violation("C17.strip", red, "cross-origin test", "scheme: ws -> http, wss -> https; host.lower() - on both sides",
                      "the same-origin test compares scheme and host as text: `ws_connect('ws://a.test:P/ws', headers={'Authorization': ...})` answered `301 Location: http://a.test:P/ws/` (same host, port and TLS state) loses Authorization and the cookies and the handshake ends in 401; `http://A.test` redirected to `http://a.test` counts as another origin as well")
    # ---- C17.strip.digest: the digest middleware scopes its credentials by the same notion of origin ----------------------------------------------------------
    dc = repo.func(DG, "DigestAuthMiddleware.__call__")
    ovals = [v for _d, v in norm.fn_defs(dc.node).defs.get("origin", []) if v is not None]
    if not ovals:
        chk.analysis_error("C17.strip.digest: the origin of the request is not computed in DigestAuthMiddleware.__call__ any more")
    elif any(isinstance(v, ast.Call) and isinstance(v.func, ast.Attribute) and v.func.attr == "origin" for v in ovals):
        chk.violation("C17.strip.digest", ovals[0], K.short(ovals[0]), "(url.scheme, url.raw_host.lower(), url.port)",
                      "DigestAuthMiddleware compares yarl origins, i.e. the netloc text: `GET http://a.test/` -> `301 Location: http://a.test:80/app` -> `401 Digest` is taken for a foreign origin, the 401 is handed to the caller and the credentials are never used, while `Location: http://a.test/app` authenticates")
    elif all(isinstance(v, ast.Tuple) and ".port" in norm.raw(v) and ".lower()" in norm.raw(v) for v in ovals):
        chk.ok("C17.strip.digest", ovals[0], "DigestAuthMiddleware scopes its credentials by (scheme, lower-cased host, effective port)")
    else:
        chk.violation("C17.strip.digest", ovals[0], K.short(ovals[0]), "(url.scheme, url.raw_host.lower(), url.port)", "the origin the digest credentials are scoped to is not (scheme, lower-cased host, effective port)")


def hunt3_rules(chk, repo, rq, reg):
    """Rules written after the third defect hunt (F200-F202)."""
    red = reg.anchor
    import re as _re
    folder = Folder(repo)
    mod = repo.module(CLIENT)
    # ---- C17.history: the final response knows its redirect chain whichever way _request() ends ---------------------------------------------------
    g = cfg_of(rq.node)
    hist = K.nodes_matching(rq, "resp._history = tuple(history)")
    rfs = [n for n in g.nodes if K.node_has(n, "resp.raise_for_status()") or K.node_has(n, "raise_for_status(resp)")]
    if not hist or not rfs:
        chk.analysis_error("C17.history: `resp._history = tuple(history)` / the raise_for_status calls were not found in _request()")
    else:
        p = g.find_path([g.entry], lambda n: n in rfs, lambda n: n in hist, EXPLICIT)
        if p is None:
            chk.ok("C17.history", hist[0].ast, "the redirect history is recorded on the response before raise_for_status can end the request with it")
        else:
            chk.violation("C17.history", rfs[0].ast, K.short(rfs[0].ast), "resp._history = tuple(history) before the status check",
                          "with raise_for_status the error for the final response is raised before its history is set: ClientResponseError.history and the response handed to a raise_for_status callback say `no redirects` for a request that followed some", path=g.fmt_path(p))
    hp = repo.cls("aiohttp/client_reqrep.py", "ClientResponse").methods.get("history")
    decos = [norm.raw(d) for d in hp.node.decorator_list] if hp is not None else []
    if hp is None:
        chk.analysis_error("C17.history: ClientResponse.history not found")
    elif "reify" in decos:
        chk.violation("C17.history", hp, "@reify def history", "@property", "ClientResponse.history is cached at first access: read before _request() has recorded the chain (trace callbacks, raise_for_status callback) it answers `()` for good")
    else:
        chk.ok("C17.history", hp, "ClientResponse.history is read from _history each time (not cached before it is set)")
    # ---- C17.entry: a Location that is taken as it is must fit in a request line -----------------------------------------------------------------------
    urls = [s_ for s_ in reg.walk() if isinstance(s_, ast.Assign) and isinstance(s_.value, ast.Call) and norm.raw(s_.value.func) == "URL" and any(k.arg == "encoded" for k in s_.value.keywords)]
    for u in urls:
        src = _root_text(u.value.args[0]) if u.value.args else ""
        tr = next((t for t in prog.enclosing(u, (ast.Try,)) if prog.in_body_of(u, t, "body") and any("ValueError" in PC.handler_types(h) for h in t.handlers)), None)
        gate = None
        for r_, _c in (K.raises_in(ast.Module(body=tr.body, type_ignores=[])) if tr is not None else []):
            if r_.lineno > u.lineno:
                continue
            b = PC.has_lit(PC.pc(r_, stop=tr, raw=True), f"$R.search({src})", True)
            if b is not None:
                gate = (r_, b["R"])
        # (c) what yarl raises while the Location is taken apart is all caught here: ValueError, and IndexError for an authority with an
        #     empty host behind a bracketed userinfo (`http://[::1]@/x`; raiser table of sa.effects, as for the request parser)
        if tr is not None:
            caught = {t_ for h in tr.handlers for t_ in PC.handler_types(h)}
            need_x = [x for x in ("ValueError", "IndexError") if x not in caught and not ({"Exception", "LookupError"} & caught if x == "IndexError" else {"Exception"} & caught)]
            if not need_x:
                chk.ok("C17.entry", tr, "the guard around the Location catches ValueError and IndexError (both raised by yarl for malformed authorities)")
            else:
                chk.violation("C17.entry", tr, "except ValueError", "except (ValueError, IndexError)",
                              f"yarl raises {', '.join(need_x)} for `Location: http://[::1]@/x` (brackets in the userinfo, empty host): it leaves session.get() as a bare exception instead of InvalidUrlRedirectClientError, the intermediate response is not closed")
            # (d) the host is the one component yarl never quotes: it goes to the resolver and into the Host header as it is
            hostgate = None
            for r_, _c in K.raises_in(ast.Module(body=tr.body, type_ignores=[])):
                cl_ = PC.pc(r_, stop=tr)
                txt_ = norm.fmt_cnf(cl_)
                if "raw_host" in txt_ and ".search(" in txt_ and "' ' in" in txt_ and not any(len(c_) == 1 and "_requote_redirect_url" in l.text for c_ in cl_ for l in c_):
                    hostgate = r_
            if hostgate is not None:
                chk.ok("C17.entry", hostgate, "a Location whose host holds a control character or a blank is refused in both requote modes")
            else:
                chk.violation("C17.entry", u, K.short(u, 70), "if ' ' in host or <CTL pattern>.search(host): raise ValueError  (host = parsed URL's raw_host, both requote modes)",
                              "yarl percent-encodes control characters everywhere except in the host: `Location: http://b\x7f.test/x` is resolved and connected to, and a bare ValueError leaves session.get() when the Host header is serialised (with requoting on, the default)")
        # (e) SP delimits the request line: a verbatim Location never carries one into it (quoted, or refused)
        if tr is not None and u is urls[0]:
            sp = [st_ for st_ in ast.walk(ast.Module(body=tr.body, type_ignores=[])) if isinstance(st_, (ast.Assign, ast.Raise))
                  and any(l.pos and l.text.startswith("' ' in ") and _root_text(ast.parse(l.text[7:], mode="eval").body) == src for c_ in PC.pc(st_, stop=tr, raw=True) for l in c_)]
            spgate = False
            try:
                if gate is not None:
                    rx_ = folder.eval(mod, gate[1])
                    spgate = bool(_re.compile(rx_.pattern, rx_.flags).search("/a b"))
            except (NotConst, AttributeError, TypeError):
                spgate = False
            if sp or spgate:
                chk.ok("C17.entry", sp[0] if sp else gate[0], "a blank in a verbatim Location is percent-encoded (or refused) before the next request line is written")
            else:
                chk.violation("C17.entry", u, K.short(u, 70), f"if not self._requote_redirect_url and ' ' in {src}: URL({src}.replace(' ', '%20'), encoded=True)",
                              "with requote_redirect_url=False `Location: /my file.txt` is written as `GET /my file.txt HTTP/1.1`: a four-token request line (a strict server answers 400, a lenient one sees another target or version)")
        if gate is None:
            chk.violation("C17.entry", u, K.short(u, 70), f"if not self._requote_redirect_url and <CTL pattern>.search({src}): raise ValueError",
                          "with requote_redirect_url=False the Location is used verbatim (encoded=True): a value with CR / LF / NUL passes URL() and fails only when the next hop's request line is written - ValueError out of session.get() instead of InvalidUrlRedirectClientError, with the intermediate response already released")
            continue
        try:
            rx = folder.eval(mod, gate[1])
            cre = _re.compile(rx.pattern, rx.flags)
            missed = [repr(w) for w in ("\r", "\n", "\x00", "\x7f", "\t") if not cre.search("/a" + w + "b")]
            over = [w for w in ("/a/b?x=1#f", "http://h/%0d") if cre.search(w)]
        except (NotConst, AttributeError, TypeError) as e:
            chk.analysis_error(f"C17.entry: cannot fold the control-character pattern `{norm.raw(gate[1])}`: {e}")
            continue
        if not missed and not over:
            chk.ok("C17.entry", gate[0], f"a verbatim Location with a control character is refused inside the ValueError guard (`{rx.pattern}`)")
        else:
            chk.violation("C17.entry", gate[0], f"{norm.raw(gate[1])} = {rx.pattern!r}", f"refuse {missed}; accept {over}", "the control-character gate of a verbatim Location does not cover CTLs / refuses plain URLs")


def hunt2_rules(chk, repo, rq, reg):
    """Rules written after the second defect hunt (F109-F114)."""
    red = reg.anchor
    # ---- C17.entry: everything server-controlled input can make raise is converted to a ClientError --------------------------------------
    # (a) the raw Location text is checked for encodability inside the guard (bytes that are not UTF-8 arrive surrogate-escaped and only
    #     fail when the next hop serialises the URL)
    urls = [s for s in reg.walk() if isinstance(s, ast.Assign) and isinstance(s.value, ast.Call) and norm.raw(s.value.func) == "URL" and any(k.arg == "encoded" for k in s.value.keywords)]
    for u in urls:
        src = _root_text(u.value.args[0]) if u.value.args else ""
        tr = next((t for t in prog.enclosing(u, (ast.Try,)) if prog.in_body_of(u, t, "body") and any("ValueError" in PC.handler_types(h) for h in t.handlers)), None)
        enc = tr is not None and any(isinstance(c, ast.Call) and isinstance(c.func, ast.Attribute) and c.func.attr == "encode" and norm.raw(c.func.value) == src for st_ in tr.body for c in ast.walk(st_))
        if enc:
            chk.ok("C17.entry", u, f"`{src}` is checked for encodability inside the ValueError guard")
        else:
            chk.violation("C17.entry", u, K.short(u, 70), f"{src}.encode('utf-8') inside the try",
                          "a Location holding bytes that are not UTF-8 (`/caf\\xe9`) reaches the next hop surrogate-escaped: with requote_redirect_url=False the request raises a bare UnicodeEncodeError / idna error, with requoting the byte is silently dropped and another path is requested")
    # (b) credentials embedded in the URL are decoded and re-encoded at the top of every hop: that can fail for a server-chosen Location
    for c in [c for c in prog.calls_in(rq.node) if prog.call_name(c) == "strip_auth_from_url"]:
        hs = [h for _t, h in K.enclosing_try_handlers(c) if "ValueError" in PC.handler_types(h)]
        if hs and any(rc and rc.endswith("ClientError") for h in hs for _r, rc in K.raises_in(h)) or (hs and any(isinstance(x, ast.Raise) for h in hs for x in ast.walk(h))):
            chk.ok("C17.entry", c, "a ValueError from the URL's embedded credentials is raised as InvalidUrl(Redirect)ClientError")
        else:
            chk.violation("C17.entry", c, K.short(c), "try: ... except ValueError: raise InvalidUrlRedirectClientError / InvalidUrlClientError",
                          "`Location: http://us%3Aer:pw@host/` passes every redirect guard and the next loop iteration fails in strip_auth_from_url() -> encode_basic_auth() with a bare ValueError('A \":\" is not allowed in login'): session.get() raises a non-ClientError for server-controlled input")
    # ---- C17.strip: the proxy is another party too ------------------------------------------------------------------------------------------
    ph = [s for s in ast.walk(rq.node) if isinstance(s, ast.Assign) and norm.raw(s.targets[0]) == "resolved_proxy_headers" and not (isinstance(s.value, ast.Constant) and s.value.value is None)]
    if not ph:
        chk.analysis_error("C17.strip: the proxy header set (resolved_proxy_headers) is no longer built in ClientSession._request")
    for s_ in ph:
        from_defaults = "self._prepare_headers" in norm.raw(s_.value)
        blk = PC._block_of(s_) or []
        later = blk[blk.index(s_) + 1:] if s_ in blk else []
        dropped = {m for m in ("hdrs.AUTHORIZATION", "hdrs.COOKIE") if any("popall" in norm.raw(x) and (m in norm.raw(x) or ("name" in norm.raw(x) and m in " ".join(norm.raw(y) for y in later))) for x in later)}
        if not from_defaults or dropped == {"hdrs.AUTHORIZATION", "hdrs.COOKIE"}:
            chk.ok("C17.strip", s_, "the proxy does not get the session's default Authorization / Cookie (only what proxy_headers names)")
        else:
            chk.violation("C17.strip", s_, K.short(s_, 70), "drop hdrs.AUTHORIZATION and hdrs.COOKIE unless given in proxy_headers",
                          "the proxy header set starts from the session's default headers: a session-level Authorization / Cookie is sent to the proxy in the clear-text CONNECT request - on the first hop and again on the hop after a cross-origin redirect that had just dropped them for the new origin")
    # ---- C17.perhop: building one attempt does not consume the header set shared by all attempts --------------------------------------------
    RQM = "aiohttp/client_reqrep.py"
    uh = repo.func(RQM, "ClientRequestBase._update_headers")
    prm = [a.arg for a in uh.node.args.args[1:]]
    muts = [c for c in prog.calls_in(uh.node) if isinstance(c.func, ast.Attribute) and isinstance(c.func.value, ast.Name) and c.func.value.id in prm and c.func.attr in ("pop", "popall", "popone", "popitem", "clear", "setdefault", "add", "extend", "update")]
    muts += [d for d in ast.walk(uh.node) if isinstance(d, (ast.Delete, ast.Assign)) and any(isinstance(t, ast.Subscript) and isinstance(t.value, ast.Name) and t.value.id in prm for t in (d.targets if hasattr(d, "targets") else []))]
    if muts:
        chk.violation("C17.perhop", muts[0], K.short(muts[0]), "read-only use of the caller's header mapping",
                      "_update_headers() takes entries out of the mapping it is given, and ClientSession._request passes the same mapping to every attempt: a caller-supplied `Host` header is gone on the transparent retry after ServerDisconnectedError and on every redirect hop, so the request is answered for another virtual host")
    else:
        chk.ok("C17.perhop", uh, "_update_headers() does not modify the header mapping shared by retries and redirect hops")
