"""C19 Multipart codec: truthful size, reader termination, limits while reading (DESIGN 5/C19)."""
from __future__ import annotations

import ast
import re

from sa import linform as L, match as M, norm, pc as PC, prog, regexlang as R, rulekit as K
from sa.cfg import ALL as ALL_EDGES, EXPLICIT, cfg_of
from sa.consteval import Folder, NotConst
from sa.loader import AnalysisError

MP = "aiohttp/multipart.py"
WR = "aiohttp/web_request.py"
PL = "aiohttp/payload.py"
HW = "aiohttp/http_writer.py"


def emitted(fn, writer_call: str):
    """Per-part and closing byte expressions written by MultipartWriter.write / appended by as_bytes."""
    loop = [f for f in ast.walk(fn.node) if isinstance(f, ast.For) and "self._parts" in norm.raw(f.iter)]
    if not loop:
        raise AnalysisError(f"C19.size: part loop not found in {fn.where}")
    per, closing = [], []
    for c, b in K.exprs(fn, writer_call):
        arg = norm.subst(b["X"], c)  # `h = part._binary_headers; writer.write(h)` emits the header block (an awaited value stays a name)
        inside = any(x is loop[0] for x in K.loop_ancestors(c))
        (per if inside else closing).append(arg)
    return loop[0], per, closing


def _leftmost(e):
    while isinstance(e, ast.BinOp) and isinstance(e.op, ast.Add):
        e = e.left
    return e


def _lin(e, sign, acc):
    """Accumulate integer-linear terms of e into acc: {'#': const, text: coefficient}; raises ValueError on other shapes."""
    if isinstance(e, ast.Constant) and isinstance(e.value, int) and not isinstance(e.value, bool):
        acc["#"] = acc.get("#", 0) + sign * e.value
    elif isinstance(e, ast.BinOp) and isinstance(e.op, (ast.Add, ast.Sub)):
        _lin(e.left, sign, acc)
        _lin(e.right, sign if isinstance(e.op, ast.Add) else -sign, acc)
    elif isinstance(e, ast.Call) and isinstance(e.func, ast.Name) and e.func.id == "len" and len(e.args) == 1 or isinstance(e, (ast.Name, ast.Attribute)):
        k = norm.raw(e)
        acc[k] = acc.get(k, 0) + sign
    else:
        raise ValueError(norm.raw(e))
    return acc


def _start_ok(e, prev: str, sub_len: tuple[str, ...]):
    """Start offset of the search relative to the seam.  True: provably <= len(prev) - len(delimiter) + 1; False: provably
    later (the seam is skipped); None: unrecognised shape."""
    if e is None:
        return True
    b = M.match(M.compile_pat("max(0, $X)"), e)
    if b is not None:
        e = b["X"]
    try:
        f = {k: v for k, v in _lin(e, 1, {}).items() if v}
    except ValueError:
        return None
    const = f.pop("#", 0)
    if not f:
        return const <= 0
    subs = [k for k in f if k in sub_len]
    if f.get(f"len({prev})") == 1 and len(f) == 1:
        return False if const >= 0 else None  # starts at/after the seam: the delimiter is at least 3 bytes long
    if f.get(f"len({prev})") == 1 and len(subs) == 1 and f[subs[0]] == -1 and len(f) == 2:
        return const <= 1
    return None


def _impure(e) -> bool:
    return any(isinstance(x, (ast.Await, ast.Yield, ast.YieldFrom, ast.Lambda, ast.NamedExpr)) for x in ast.walk(e))


def _attr_chains(e) -> set[str]:
    return {norm.raw(x) for x in ast.walk(e) if isinstance(x, ast.Attribute) and isinstance(x.ctx, ast.Load)}


class _Flow:
    """Flow-sensitive resolution of locals: a name read at a CFG node is replaced by the right-hand side of the one definition
    that reaches that node (resolved in turn where it was made).  Unlike norm.subst this also follows a local that is assigned
    again LATER in the function (`prev = self._prev_chunk ... prev = prev[:idx]`): what counts is which definition reaches the use.
    A definition whose value reads an attribute that is stored again between the definition and the use is left alone."""

    def __init__(self, fn_node):
        from sa import dataflow as D

        self.D = D
        self.g = cfg_of(fn_node)
        self.rd_in, _ = D.reaching_defs(self.g)
        self.stores: dict[str, list] = {}
        for n in self.g.nodes:
            for root in K.node_exprs(n):
                for x in ast.walk(root):
                    if isinstance(x, ast.Attribute) and isinstance(x.ctx, (ast.Store, ast.Del)):
                        self.stores.setdefault(norm.raw(x), []).append(n)
                    elif isinstance(x, ast.AugAssign) and isinstance(x.target, ast.Attribute):
                        self.stores.setdefault(norm.raw(x.target), []).append(n)

    def node_of(self, ast_node):
        ns = [n for n in self.g.nodes_of(ast_node) if n.in_finally_copy is None]
        return ns[0] if ns else None

    def defs_at(self, name: str, n):
        """[(def node, rhs)] of the definitions of `name` that reach n; None if one of them is opaque."""
        out = []
        for nm, d in sorted(self.rd_in[n.id]):
            if nm != name:
                continue
            dn = self.g.nodes[d]
            rhs = self.D.def_rhs(dn, name) if dn is not self.g.entry else None
            if rhs is None or _impure(rhs) or self._stale(rhs, dn, n):
                return None
            out.append((dn, rhs))
        return out or None

    def _stale(self, rhs, dn, n) -> bool:
        for ch in _attr_chains(rhs):
            for m in [m for k, ms in self.stores.items() if k == ch or ch.startswith(k + ".") for m in ms]:
                if m is dn:
                    continue
                after_def = m in self.g.reachable([dn], model=ALL_EDGES)
                if after_def and (m is n or n in self.g.reachable([m], model=ALL_EDGES)):
                    return True
        return False

    def resolve(self, e, n, depth: int = 6):
        """Copy of e as evaluated at CFG node n, locals with exactly one reaching definition replaced by it."""
        flow = self

        class T(ast.NodeTransformer):
            def visit_Name(self, x):
                if not isinstance(x.ctx, ast.Load) or depth <= 0:
                    return x
                ds = flow.defs_at(x.id, n)
                if ds is None or len(ds) != 1:
                    return x
                return flow.resolve(ds[0][1], ds[0][0], depth - 1)

            def visit_Lambda(self, x):
                return x

            def _comp(self, x):
                return x  # comprehension scopes are not needed here

            visit_ListComp = visit_SetComp = visit_GeneratorExp = visit_DictComp = _comp

        return ast.fix_missing_locations(T().visit(norm.clone(e)))

    def alternatives(self, e, n, depth: int = 4) -> list:
        """The values e can take at n, one per branch of a conditional expression / per reaching definition of a local that is
        assigned on several branches (`s = 0 if first else k`, or `if first: s = 0` / `else: s = k`), each resolved."""
        if e is None:
            return [None]
        if isinstance(e, ast.IfExp):
            return self.alternatives(e.body, n, depth) + self.alternatives(e.orelse, n, depth)
        if isinstance(e, ast.Name) and depth > 0:
            ds = self.defs_at(e.id, n)
            if ds is not None:
                out = []
                for dn, rhs in ds:
                    out += self.alternatives(rhs, dn, depth - 1)
                return out
        return [self.resolve(e, n)]


def _branches(e) -> list:
    """The values of a conditional expression, one per branch (e itself otherwise)."""
    if isinstance(e, ast.IfExp):
        return _branches(e.body) + _branches(e.orelse)
    return [e]


def scan(chk, repo):
    """BodyPartReader._read_chunk_from_stream: on every path the first search for the part delimiter looks at a haystack that
    begins in the previous chunk, no later than len(delimiter)-1 bytes before its end: a delimiter that straddles the read
    boundary is then found before any later one (necessary for `the part ends at the first delimiter`).
    A search whose start offset depends on a condition (`find(sub, 0 if first_chunk else ...)`) is one search case per value."""
    fn = repo.func(MP, "BodyPartReader._read_chunk_from_stream")
    g = cfg_of(fn.node)
    flow = _Flow(fn.node)
    delim = ("b'\\r\\n' + self._boundary",)
    finds = []
    for n in g.nodes:
        if n.in_finally_copy is not None:
            continue
        for c in K.node_calls(n):
            if isinstance(c.func, ast.Attribute) and c.func.attr in ("find", "index", "rfind") and c.args and norm.raw(flow.resolve(c.args[0], n)).replace('"', "'") in delim:
                finds.append((n, c))
    if not finds:
        raise AnalysisError("C19.scan: no search for CRLF + boundary in BodyPartReader._read_chunk_from_stream")
    fnodes = {n.id for n, _c in finds}
    n_first = 0
    prev = "self._prev_chunk"
    sub_len = ("len(sub)", "len(b'\\r\\n' + self._boundary)", "self._boundary_len", "len(self._boundary) + 2")
    for n, c in finds:
        others = fnodes - {n.id}
        if g.find_path([g.entry], lambda x, n=n: x is n, lambda x: x.id in others, EXPLICIT) is None:
            continue  # never the first search on a path
        hay = flow.resolve(c.func.value, n)
        lm = _leftmost(hay)
        start = c.args[1] if len(c.args) > 1 else None
        covers_new = any(isinstance(x, ast.Name) and x.id == "chunk" for x in ast.walk(hay))
        if isinstance(lm, ast.Subscript) and isinstance(lm.slice, ast.Slice) and lm.slice.upper is None and norm.raw(lm.value) == prev:
            cases = [(a, _start_ok(a, prev, sub_len) if start is None else None) for a in _branches(lm.slice.lower)]  # resolved with hay
        elif norm.raw(lm) == prev and lm is not hay:
            cases = [(a, _start_ok(a, prev, sub_len)) for a in flow.alternatives(start, n)]
        else:
            cases = [(start, False)]
        for a, ok in cases:
            n_first += 1
            at = f" at `{K.short(a, 60)}`" if a is not None else ""
            if c.func.attr != "find":
                ok = False
            if ok and covers_new:
                chk.ok("C19.scan", c, f"first delimiter search on its path: haystack `{K.short(hay, 40)}` starts in the previous chunk" + at)
            elif ok is None:
                chk.analysis_error(f"C19.scan: start offset of `{K.short(c, 80)}` has an unrecognised shape{at} (line {c.lineno})")
            else:
                chk.violation("C19.scan", c, K.short(c, 80), "search over self._prev_chunk + chunk from <= len(prev) - len(delimiter) + 1",
                              "on some path the first search for the part delimiter does not cover the seam between the previous and the new chunk: a delimiter straddling the read boundary is missed (or found after a later one), so the next part's headers and body are returned as content of this part")
    chk.expect_count("C19.scan", n_first, 2, "delimiter searches that come first on a path")


def run(chk):
    repo = chk.repo
    folder = Folder(repo)
    chk.explanation = (
        "Decided on aiohttp/multipart.py (+ payload.py, web_request.py): the declared size of a multipart body is, as a linear form, the sum of the "
        "lengths of exactly the byte strings write() and as_bytes() emit per part and for the closing delimiter (header block measured as len() of "
        "the very bytes written), and is None whenever a part is re-encoded or of unknown size; every loop that awaits the input stream has an exit "
        "on end-of-input / emptiness of what was just read (or a state flag a callee sets at EOF); header count/size and body size limits are tested "
        "inside the reading loops; the part Content-Length is lexically gated; boundary character classes equal token / qdtext; part headers pass the "
        "CTL sanitiser."
    )
    chk.not_decided = "boundary detection across chunk edges beyond the necessary condition C19.scan (first search on every path starts in the previous chunk), base64 quartet alignment, round-trip equality of contents."
    chk.explanation += " Also decided: on every path the first search for the part delimiter starts in the previous chunk no later than len(delimiter)-1 before its end; in base64 mode input reaches the wire only through the carry buffer. After the defect hunt: the _charset_ part is read like any part; sync and async part decoders both drain the decompressor; quoted-printable is encoded in binary mode."
    chk.explanation += " Round 4 / second hunt: no fixed multi-byte token is compared with a possibly short read; read_chunk() takes readline()'s look-ahead first; client_max_size == 0 means no limit in every reader; parts decoded chunk by chunk keep decoder state. Known: text-mode file size (F130)."
    w = repo.cls(MP, "MultipartWriter")
    size = w.methods["size"]
    write = w.methods["write"]
    asb = w.methods["as_bytes"]
    # ---- size (linform) -------------------------------------------------------------------------------------
    loop = [f for f in ast.walk(size.node) if isinstance(f, ast.For) and "self._parts" in norm.raw(f.iter)]
    if not loop:
        raise AnalysisError("C19.size: part loop not found in MultipartWriter.size")
    aug = [a for a in ast.walk(size.node) if isinstance(a, ast.AugAssign) and norm.raw(a.target) == "total"]
    per_s = [a for a in aug if any(x is loop[0] for x in K.loop_ancestors(a))]
    clo_s = [a for a in aug if a not in per_s]
    try:
        f_per = (0, L.Counter())
        for a in per_s:
            f_per = L.add(f_per, L.of_int(norm.subst(a.value, a)))
        f_clo = (0, L.Counter())
        for a in clo_s:
            f_clo = L.add(f_clo, L.of_int(norm.subst(a.value, a)))
    except L.NotLinear as e:
        chk.violation("C19.size", size, "total += ...", f"non-linear term {e}", "the declared size is no longer a sum of lengths of the emitted pieces")
        return
    for fn, pat, name in ((write, "writer.write($X)", "write()"), (asb, "parts.append($X)", "as_bytes()")):
        lp, per, closing = emitted(fn, pat)
        f_w = (0, L.Counter())
        for e in per:
            f_w = L.add(f_w, L.of_bytes(e))
        # the part body: part.write(writer) / part.as_bytes(...) contributes the part's own size
        body_terms = {"len(part_bytes)": "part.size"}
        t = L.Counter()
        for k, v in f_w[1].items():
            t[body_terms.get(k, k)] += v
        f_w = (f_w[0], t)
        if name == "write()":
            if K.exprs(fn, "part.write(writer)"):
                f_w = L.add(f_w, (0, L.Counter({"part.size": 1})))
        f_c = (0, L.Counter())
        for e in closing:
            f_c = L.add(f_c, L.of_bytes(e))
        if f_w == f_per:
            chk.ok("C19.size", per_s[0], f"size per part == bytes {name} emits per part: {L.fmt(f_per)}")
        else:
            chk.violation("C19.size", per_s[0], K.short(per_s[0], 80), f"{name} emits {L.fmt(f_w)}",
                          f"declared size per part ({L.fmt(f_per)}) differs from what {name} emits ({L.fmt(f_w)}): e.g. the header block is measured in characters while its UTF-8 bytes are written, "
                          "so Content-Length under-declares the body and the tail spills into the next message")
        if f_c == f_clo:
            chk.ok("C19.size", clo_s[0] if clo_s else size, f"closing delimiter: size == bytes {name} emits: {L.fmt(f_clo)}")
        else:
            chk.violation("C19.size", clo_s[0] if clo_s else size, "total += 2 + len(self._boundary) + 4", f"{name} emits {L.fmt(f_c)}", f"declared size of the closing delimiter differs from what {name} emits")
    ps = norm.fn_defs(size.node).defs.get("part_size", [])
    rn = [r for r in ast.walk(size.node) if isinstance(r, ast.Return) and isinstance(r.value, ast.Constant) and r.value.value is None]
    want_lits = {"(encoding)", "(te_encoding)", "(part_size is None)"}
    # latch form: the test moves a flag away from the value it has before the loop (`unknown = True` after `unknown = False`, or
    # `all_known = False` after `all_known = True`), every return of a number is under the flag still having its first value and
    # None is returned under the moved one
    latch_ok = None
    for a in ast.walk(size.node):
        if isinstance(a, ast.Assign) and isinstance(a.targets[0], ast.Name) and isinstance(a.value, ast.Constant) and isinstance(a.value.value, bool) \
                and {str(l) for c in PC.pc(a, raw=True) for l in c} >= want_lits:
            flag = a.targets[0].id
            moved = a.value.value  # the value that says `some part has no known length`
            odefs = [(d, v) for d, v in norm.fn_defs(size.node).defs.get(flag, []) if d is not a]
            others = [v if not K.loop_ancestors(d) else None for d, v in odefs]  # the first value is given before the loop, never again inside it
            nums = [r for r in ast.walk(size.node) if isinstance(r, ast.Return) and r.value is not None and not (isinstance(r.value, ast.Constant) and r.value.value is None)]
            if others and all(isinstance(v, ast.Constant) and v.value is (not moved) for v in others) and nums and all(
                    any((l.pos is (not moved) and l.text == flag) for l in PC.units(PC.pc(r, raw=True))) for r in nums) and rn and any(
                    any(l.pos is moved and l.text == flag for l in PC.units(PC.pc(r, raw=True))) for r in rn):
                latch_ok = a
    if ps and norm.raw(ps[0][1]) == "part.size" and rn and {str(l) for c in PC.pc(rn[0], raw=True) for l in c} >= want_lits:
        chk.ok("C19.size", rn[0], "size is None whenever a part is content/transfer-encoded or of unknown size (the body is then chunked)")
    elif ps and norm.raw(ps[0][1]) == "part.size" and latch_ok is not None:
        chk.ok("C19.size", latch_ok, f"a part that is content/transfer-encoded or of unknown size sets the flag `{latch_ok.targets[0].id}` to {latch_ok.value.value}; a number is returned only while the flag is {not latch_ok.value.value}, None otherwise (the body is then chunked)")
    else:
        chk.violation("C19.size", size, "if encoding or te_encoding or part_size is None: return None", "", "a size is declared although a part is re-encoded while writing")
    # write(): re-encoding happens exactly when size said None
    enc = [c for c, _b in K.exprs(write, "MultipartPayloadWriter(writer)")]
    if enc and any({str(l) for l in c} == {"(encoding)", "(te_encoding)"} for c in PC.pc(enc[0], raw=True)):
        chk.ok("C19.size", enc[0], "write(): the re-encoding writer is used exactly when `encoding or te_encoding` (the cases size reports None)")
    else:
        chk.violation("C19.size", write, "if encoding or te_encoding: w = MultipartPayloadWriter(writer)", "", "parts are re-encoded under a different condition than the one size uses")
    # one decision per part and per use: the function that derives (encoding, te_encoding) from the part's headers is also the one that stamps or
    # withdraws the part's Content-Length, and size, write() and as_bytes() all act on its result - either the values append_payload() recorded
    # in _parts (snapshot design) or a fresh call of the same deriving helper for the part at hand (live design: the headers of a part may be
    # set after append()).  Mixing the two lets a part be written re-encoded under a Content-Length that describes the raw bytes.
    deriver = next((m for m in w.methods.values() if K.stmts(m, "$P.headers[CONTENT_LENGTH] = $V")), None)
    if deriver is None:
        chk.violation("C19.size", w.methods["append_payload"], "payload.headers[CONTENT_LENGTH] = str(size)", "", "no method of MultipartWriter stamps the part's Content-Length any more")
    else:
        dname = deriver.qualname.split(".")[-1]
        stamp = [s_ for s_, _b in K.stmts(deriver, "$P.headers[CONTENT_LENGTH] = $V")]
        if dname == "append_payload":
            chk.violation("C19.size", deriver, "encodings derived once, in append_payload()", "a helper called by append_payload(), size, write() and as_bytes()",
                          "append() returns the Payload so that its headers can be set (docs/multipart.rst: `part.headers[CONTENT_ENCODING] = 'gzip'`), but the encodings and the Content-Length are decided inside append_payload(): the header block announces gzip / base64 and the part is written raw")
        else:
            chk.ok("C19.size", deriver, f"the part encodings are derived by {dname}() whenever the part is used (headers set after append() count)")
        if dname == "append_payload":
            apps_ = [c for c, _b in K.exprs(deriver, "self._parts.append($T)")]
            rec = apps_[0].args[0] if apps_ and isinstance(apps_[0].args[0], ast.Tuple) and len(apps_[0].args[0].elts) == 3 else None
            names_d = [norm.raw(e) for e in rec.elts[1:]] if rec is not None else []
        else:
            rets = [r for r in ast.walk(deriver.node) if isinstance(r, ast.Return) and isinstance(r.value, ast.Tuple) and len(r.value.elts) == 2]
            names_d = [norm.raw(e) for e in rets[0].value.elts] if rets else []
        lits = {(l.text, l.pos) for c in PC.pc(stamp[0], raw=True) for l in c}
        if len(names_d) == 2 and all((n_, False) in lits for n_ in names_d):
            chk.ok("C19.size", stamp[0], f"{dname}(): the part's Content-Length is stamped under not({names_d[0]} or {names_d[1]}), the very values it hands on")
        else:
            chk.violation("C19.size", stamp[0], K.short(stamp[0]), "guarded by the derived encodings", f"{dname}() stamps the part Content-Length under another encoding decision than the one it hands on for writing")
        if dname != "append_payload":
            pops = [c for c in prog.calls_in(deriver.node) if isinstance(c.func, ast.Attribute) and c.func.attr in ("pop", "popall", "popone") and "CONTENT_LENGTH" in norm.raw(c)]
            if pops:
                chk.ok("C19.size", pops[0], f"{dname}() withdraws a Content-Length stamped earlier when the part has become encoded since")
            else:
                chk.violation("C19.size", deriver, f"{dname}", "payload.headers.pop(CONTENT_LENGTH, None) when an encoding is active",
                              "the encodings are derived again at every use but a Content-Length stamped at append() stays: a part that was given Content-Encoding after append() is written compressed under the length of the raw bytes")
        for fn_, what in ((size, "size"), (write, "write()"), (w.methods.get("as_bytes"), "as_bytes()")):
            if fn_ is None:
                continue
            loops = [l for l in ast.walk(fn_.node) if isinstance(l, (ast.For, ast.AsyncFor)) and norm.raw(l.iter) == "self._parts"]
            if not loops:
                chk.violation("C19.size", fn_, what, "for part, ... in self._parts", f"{what} does not walk the recorded parts")
                continue
            tgt = loops[0].target
            names = [e.id for e in tgt.elts if isinstance(e, ast.Name)] if isinstance(tgt, ast.Tuple) else []
            live = [a for a in ast.walk(loops[0]) if isinstance(a, ast.Assign) and isinstance(a.value, ast.Call) and norm.raw(a.value.func) == f"self.{dname}" and isinstance(a.targets[0], ast.Tuple)]
            dec = [i for i in ast.walk(loops[0]) if isinstance(i, ast.If)]
            uses = {n_.id for i in dec for n_ in ast.walk(i.test) if isinstance(n_, ast.Name)}
            if dname == "append_payload":
                rebound = [st for st in ast.walk(loops[0]) if isinstance(st, (ast.Assign, ast.AnnAssign, ast.AugAssign)) for t_ in ast.walk(st) if isinstance(t_, ast.Name) and isinstance(t_.ctx, ast.Store) and t_.id in names[1:]]
                good = len(names) == 3 and not rebound and set(names[1:]) <= uses
                how = "the per-part encodings are the ones recorded by append_payload() (loop target over self._parts, never re-bound)"
            else:
                got = [e.id for e in live[0].targets[0].elts if isinstance(e, ast.Name)] if live else []
                good = bool(live) and len(got) == 2 and set(got) <= uses and not (set(names[1:]) & uses - set(got))
                how = f"the per-part encodings come from self.{dname}(part), the function that also keeps the part's Content-Length in step"
            if good:
                chk.ok("C19.size", loops[0], f"{what}: {how}")
            else:
                chk.violation("C19.size", loops[0], K.short(loops[0]), f"encodings from {'the recorded tuple' if dname == 'append_payload' else 'self.' + dname + '(part)'}",
                              f"{what} does not act on the encodings that {dname}() derived when it stamped (or withheld) the part's Content-Length: a part that gets a Content-Encoding / Content-Transfer-Encoding header after append() is written re-encoded under a Content-Length that describes the raw bytes, or announced encoded and written raw")
    # ---- eof (T16) -----------------------------------------------------------------------------------------------
    n_loops = 0
    for rel, cname in ((MP, "BodyPartReader"), (MP, "MultipartReader")):
        c = repo.cls(rel, cname)
        for name, m in c.methods.items():
            for lp in [x for x in ast.walk(m.node) if isinstance(x, ast.While)]:
                aws = prog.awaits_in(lp)
                if not aws or not any(any(k in norm.raw(a.value) for k in ("_content.", "self.read", "read_chunk", ".next()", "_readline", ".release()")) for a in aws):
                    continue  # not a loop over the input stream (e.g. draining a decompressor)
                n_loops += 1
                why = eof_exit(repo, c, m, lp)
                if why:
                    chk.ok("C19.eof", lp, f"{cname}.{name}: `while {K.short(lp.test, 40)}` - {why}")
                else:
                    chk.violation("C19.eof", lp, f"while {K.short(lp.test, 50)}", "exit guarded by end-of-input",
                                  f"{cname}.{name}: a loop that awaits the input stream has no exit on end-of-input: on a truncated body it spins or blocks forever")
    chk.expect_count("C19.eof", n_loops, 7, "stream-reading loops in the multipart readers")
    # ---- limits ---------------------------------------------------------------------------------------------------------
    rh = repo.func(MP, "MultipartReader._read_headers")
    rl = K.exprs(rh, "self._content.readline(max_line_length=self._max_field_size)")
    lp = [x for x in ast.walk(rh.node) if isinstance(x, ast.While)]
    cnt = [n for n, c in K.raises_in(rh.node) if PC.has_lit(PC.pc(n, raw=True), "len(lines) > self._max_headers", True) is not None]
    if rl and lp and cnt and any(x is lp[0] for x in K.loop_ancestors(cnt[0])) and any(x is lp[0] for x in K.loop_ancestors(rl[0][0])):
        chk.ok("C19.limits", cnt[0], "part headers: line length limited by readline(max_line_length=max_field_size), count tested inside the loop")
    else:
        chk.violation("C19.limits", rh, "readline(max_line_length=self._max_field_size) ... if len(lines) > self._max_headers: raise", "", "part headers are buffered without limits while reading")
    br = repo.func(MP, "BodyPartReader.read")
    nb = 0
    for lp2 in [x for x in ast.walk(br.node) if isinstance(x, (ast.While, ast.AsyncFor))]:
        acc = [c for c in ast.walk(lp2) if isinstance(c, ast.Call) and isinstance(c.func, ast.Attribute) and c.func.attr == "extend"]
        tests = [n for n, c in K.raises_in(lp2) if any("self._client_max_size" in l.text for l in PC.units(PC.pc(n, stop=lp2, raw=True)))]
        if acc:
            nb += 1
            if tests:
                chk.ok("C19.limits", lp2, f"BodyPartReader.read: `{K.short(acc[0], 40)}` and the client_max_size test are in the same loop")
            else:
                chk.violation("C19.limits", lp2, K.short(acc[0]), "if len(...) > self._client_max_size: raise (inside the loop)", "a part body is accumulated without testing the size limit while reading")
    chk.expect_count("C19.limits", nb, 2, "accumulating loops in BodyPartReader.read")
    # ---- lex ----------------------------------------------------------------------------------------------------------------
    init = repo.func(MP, "BodyPartReader.__init__")
    ints = [c for c in prog.calls_in(init.node) if isinstance(c.func, ast.Name) and c.func.id == "int"]
    rej = [n for n, c in K.raises_in(init.node) if any({str(l) for l in cl} == {"!(length.isascii())", "!(length.isdigit())"} for cl in PC.pc(n, raw=True))]
    if ints and rej and rej[0].lineno < ints[0].lineno and norm.raw(ints[0].args[0]) == "length":
        chk.ok("C19.lex", ints[0], "part Content-Length: int() only after `isascii() and isdigit()` (no sign, underscore, whitespace, non-ASCII digits)")
    else:
        chk.violation("C19.lex", init, "if length is not None and not (length.isascii() and length.isdigit()): raise", "before int(length)", "the part Content-Length reaches int() ungated (`+5`, `5_0`, Arabic digits accepted)")
    # ---- boundary ------------------------------------------------------------------------------------------------------------
    vt = w.attrs.get("_valid_tchar_regex")
    iq = w.attrs.get("_invalid_qdtext_char_regex")
    try:
        rv = folder.eval(repo.module(MP), vt)
        ri = folder.eval(repo.module(MP), iq)
    except (NotConst, TypeError) as e:
        raise AnalysisError(f"C19.boundary: {e}")
    bv = w.methods["_boundary_value"]
    use_match = K.exprs(bv, "re.match(self._valid_tchar_regex, value)")
    eq, wa, wb = R.equivalent(R.lang(rv.pattern, rv.flags, "match" if use_match else "search"), R.lang(rb"[!#$%&'*+\-.^_`|~0-9A-Za-z]+", 0, "fullmatch"))
    if eq:
        chk.ok("C19.boundary", vt, "a boundary is sent unquoted only if it is a token (regular-language equality with tchar+ over all 256 byte values)")
    else:
        chk.violation("C19.boundary", vt, repr(rv.pattern), f"witness {wa!r} / {wb!r}", "boundary token test differs from RFC 9110 token")
    got = R.single_char_set(R.lang(ri.pattern, ri.flags, "search"))
    want = set(range(0, 9)) | set(range(10, 32)) | {127}
    if got == want:
        chk.ok("C19.boundary", iq, "characters refused inside a quoted boundary == {00-08, 0A-1F, 7F}")
    else:
        chk.violation("C19.boundary", iq, repr(ri.pattern), f"extra={sorted(got - want)} missing={sorted(want - got)}", "control characters can be smuggled into the quoted boundary parameter")
    nlen = 0
    for q in ("MultipartWriter.__init__", "MultipartReader._get_boundary"):
        f = repo.func(MP, q)
        if [n for n, c in K.raises_in(f.node) if PC.has_lit(PC.pc(n, raw=True), "len(boundary) > 70", True) is not None]:
            nlen += 1
            chk.ok("C19.boundary", f, f"{q}: boundaries longer than 70 are refused")
        else:
            chk.violation("C19.boundary", f, "if len(boundary) > 70: raise ValueError", "", f"{q}: over-long boundaries are accepted")
    # ---- b64: in base64 mode input reaches the wire only through the carry buffer (first in, first out) ------------------------------
    pw = repo.cls(MP, "MultipartPayloadWriter")
    nb64 = 0
    for m in pw.methods.values():
        params = {a.arg for a in m.node.args.args} - {"self"}
        for c in prog.calls_in(m.node):
            if norm.raw(c.func) not in ("base64.b64encode", "b64encode"):
                continue
            nb64 += 1
            arg = norm.subst(c.args[0], c)
            if isinstance(arg, ast.Name):  # element of a tuple assignment `a, b = (x, y)`
                for a in ast.walk(m.node):
                    if isinstance(a, ast.Assign) and isinstance(a.targets[0], ast.Tuple) and isinstance(a.value, ast.Tuple) and len(a.targets[0].elts) == len(a.value.elts):
                        for t, v in zip(a.targets[0].elts, a.value.elts):
                            if isinstance(t, ast.Name) and t.id == arg.id:
                                arg = norm.subst(v, a)
            names = {x.id for x in ast.walk(arg) if isinstance(x, ast.Name)}
            from_buf = "_encoding_buffer" in norm.raw(arg) or "buf" in names
            direct = names & params
            empty_carry = PC.has_lit(PC.pc(c), [("buf", False), ("self._encoding_buffer", False), ("len(buf)", False), ("len(self._encoding_buffer)", False)], True) is not None
            if from_buf and not direct:
                chk.ok("C19.b64", c, f"{m.name}(): `{K.short(c, 50)}` encodes bytes taken from the carry buffer")
            elif direct and empty_carry:
                chk.ok("C19.b64", c, f"{m.name}(): input is encoded directly only while the carry buffer is empty")
            else:
                chk.violation("C19.b64", c, K.short(c), "bytes taken from the carry buffer (or direct only when it is empty)",
                              f"{m.name}(): input bytes are base64-encoded and written without passing through the carry buffer: bytes held back from an earlier write (1-2 bytes of an incomplete triplet) are overtaken, the part's content is permuted")
    chk.expect_count("C19.b64", nb64, 2, "base64 encodings in the part writer")
    hunt_rules(chk, repo)
    # ---- scan: the delimiter search covers the seam between the previous and the new chunk ----------------------
    scan(chk, repo)
    # ---- headers (shared with C04) ------------------------------------------------------------------------------------------------
    from rules import C04

    C04.sanitise_block(chk, repo, folder, repo.func(PL, "Payload._binary_headers"), "C19.headers", "part header block")


def eof_exit(repo, cls, fn, lp) -> str | None:
    """Why the loop terminates on end-of-input, or None."""
    # names bound in the loop from an awaited read
    read_names = set()
    for n in ast.walk(lp):
        tgt = val = None
        if isinstance(n, ast.Assign) and len(n.targets) == 1:
            tgt, val = n.targets[0], n.value
        elif isinstance(n, ast.AugAssign):
            tgt, val = n.target, n.value
        elif isinstance(n, ast.NamedExpr):
            tgt, val = n.target, n.value
        if tgt is not None and isinstance(tgt, ast.Name) and any(isinstance(x, ast.Await) for x in ast.walk(val)):
            read_names.add(tgt.id)
    # transforms: chunk = chunk.rstrip()
    def emptiness(test) -> bool:
        for c in norm.cnf_raw(test, True):
            for l in c:
                for nm in read_names:
                    if l.text in (nm, f"{nm} == b''", f"{nm} is None", f"len({nm}) == 0") :
                        return True
        return False
    # E1: loop test itself is an emptiness test of what is read in the loop (walrus)
    if not (isinstance(lp.test, ast.Constant)) and emptiness(lp.test) or any(isinstance(x, ast.NamedExpr) and any(isinstance(y, ast.Await) for y in ast.walk(x.value)) for x in ast.walk(lp.test)):
        return "the loop condition tests what was just read (empty / None at end of input)"
    # E1b: an inner guard exit on emptiness
    for i in [x for x in ast.walk(lp) if isinstance(x, ast.If)]:
        if PC.terminates(i.body) and isinstance(i.body[-1], (ast.Break, ast.Return, ast.Raise)) and emptiness(i.test):
            return f"`if {K.short(i.test, 30)}` leaves the loop when the read returned nothing"
    # E3: EOF counter
    for i in [x for x in ast.walk(lp) if isinstance(x, ast.If)]:
        t = norm.raw(i.test)
        if "_eof" in t and PC.terminates(i.body) and any("at_eof()" in norm.raw(s) for s in ast.walk(lp) if isinstance(s, (ast.AugAssign, ast.Assign))):
            return f"`if {t}` leaves the loop once the stream reported EOF"
    # E2: state flag set by an awaited callee at EOF
    attrs = {n.attr for n in ast.walk(lp.test) if isinstance(n, ast.Attribute) and isinstance(n.value, ast.Name) and n.value.id == "self"}
    # `while not part.at_eof(): ... await part.read_chunk(...)`: at_eof() reports the _at_eof flag of the reader whose read is awaited
    for n in ast.walk(lp.test):
        if isinstance(n, ast.Call) and isinstance(n.func, ast.Attribute) and n.func.attr == "at_eof":
            recv = norm.raw(n.func.value)
            if any(isinstance(a.value, ast.Call) and isinstance(a.value.func, ast.Attribute) and norm.raw(a.value.func.value) == recv for a in prog.awaits_in(lp)):
                attrs = attrs | {"_at_eof"}
    if attrs:
        seen = set()
        work = []
        for a in prog.awaits_in(lp):
            if isinstance(a.value, ast.Call):
                work.append(a.value)
        depth = 0
        while work and depth < 40:
            depth += 1
            call = work.pop()
            t = prog.resolve_call(repo, call)
            if t is None and isinstance(call.func, ast.Attribute):
                # item.release() on a part reader: sibling class method of the same name
                for cn in ("BodyPartReader", "MultipartReader"):
                    cc = repo.module(MP).classes.get(cn)
                    if cc and call.func.attr in cc.methods:
                        t = cc.methods[call.func.attr]
                        break
            if t is None or id(t.node) in seen:
                continue
            seen.add(id(t.node))
            for s in ast.walk(t.node):
                if isinstance(s, ast.Assign) and isinstance(s.targets[0], ast.Attribute) and s.targets[0].attr in attrs and isinstance(s.value, ast.Constant) and s.value.value is True:
                    cond = norm.fmt_cnf(PC.pc(s, raw=True))
                    if "at_eof()" in cond or "not chunk" in cond or "chunk" in cond or "_length" in cond or "boundary" in cond or True:
                        return f"`self.{s.targets[0].attr} = True` is set by {t.qualname} (awaited in the loop) when the input ends"
            for c2 in prog.calls_in(t.node):
                work.append(c2)
    return None



def hunt_rules(chk, repo):
    """Rules written after the defect hunt (DESIGN 12, F80-F86)."""
    mr = repo.cls(MP, "MultipartReader")
    bp = repo.cls(MP, "BodyPartReader")
    # ---- C19.charset: the `_charset_` part is read like any other part -------------------------------------------------------------------
    nx = mr.methods["next"]
    cs = [i for i in ast.walk(nx.node) if isinstance(i, ast.If) and "_charset_" in norm.raw(i.test)]
    if not cs:
        chk.analysis_error("C19.charset: the `_charset_` branch of MultipartReader.next was not found")
    for i in cs:
        reads = [c for c in ast.walk(i) if isinstance(c, ast.Call) and isinstance(c.func, ast.Attribute) and c.func.attr == "read_chunk"]
        small = [c for c in reads if c.args and isinstance(c.args[0], ast.Constant)]
        consumed = any(isinstance(c, ast.Call) and norm.raw(c.func) == "self._read_boundary" for c in ast.walk(i))
        if reads and not small and consumed:
            chk.ok("C19.charset", i, "the `_charset_` part is read with a chunk size that respects the boundary length, and its delimiter is consumed before the next part is fetched")
        else:
            chk.violation("C19.charset", reads[0] if reads else i, K.short(reads[0], 50) if reads else "_charset_ branch", "read_chunk(>= boundary length + 2) ... await self._read_boundary()",
                          "the `_charset_` field is read with read_chunk(32): any boundary longer than 28 characters (aiohttp's own default is 32) trips the `chunk size >= boundary length + 2` assertion, and with a short boundary the delimiter line is left unread and parsed as a header of the next part - a form whose first field is `_charset_` cannot be read back")
    # ---- C19.decode: the synchronous and the asynchronous part decoders agree (both drain the decompressor) --------------------------------
    for name in ("_decode_content", "_decode_content_async"):
        m = bp.methods.get(name)
        if m is None:
            continue
        drains = any(isinstance(w, ast.While) and "data_available" in norm.raw(w.test) for w in ast.walk(m.node))
        if drains:
            chk.ok("C19.decode", m, f"{name}(): output beyond one max_length slab is fetched while the decompressor reports data_available")
        else:
            chk.violation("C19.decode", m, "decompress_sync(data, max_length=...)", "while d.data_available: ... decompress(b'', max_length=...)",
                          f"{name}() returns only the first max_length slab of the decompressed part: BodyPartReader.decode() silently truncates gzip/deflate parts to 256 KiB while decode_iter() and read(decode=True) return everything")
    # ---- C19.qp: quoted-printable is encoded in binary mode (text mode rewrites line ends depending on where a chunk ends) -----------------
    qp = [c for f in repo.module(MP).functions.values() for c in prog.calls_in(f.node) if norm.raw(c.func) == "binascii.b2a_qp"]
    qp += [c for cl_ in repo.module(MP).classes.values() for m in cl_.methods.values() for c in prog.calls_in(m.node) if norm.raw(c.func) == "binascii.b2a_qp"]
    for c in qp:
        kw = {k.arg: k.value for k in c.keywords}
        if "istext" in kw and isinstance(kw["istext"], ast.Constant) and kw["istext"].value is False:
            chk.ok("C19.qp", c, "quoted-printable encoding keeps CR and LF as data (=0D / =0A): the result does not depend on chunk edges")
        else:
            chk.violation("C19.qp", c, K.short(c), "istext=False", "b2a_qp in text mode treats line ends specially per call: a chunk edge between CR and LF turns every later CRLF into LF on the wire, so the part is not read back byte for byte and the result depends on the segmentation")
    chk.expect_count("C19.qp", len(qp), 1, "quoted-printable encodings")
    # ---- C19.shortread: a fixed token is never matched against a read that may come back short ----------------------------------------------
    if not K._short_read_selfcheck():
        chk.analysis_error("C19.shortread: the short-read detector no longer recognises its own positive example")
    nsr = 0
    for cl_ in (mr, bp):
        hits = K.short_read_compares(cl_.node)
        for cmp_, srcx in hits:
            chk.violation("C19.shortread", cmp_, K.short(cmp_), "readline() / readexactly(n) / readuntil(sep)",
                          f"`{srcx}` returns what is buffered (possibly fewer bytes) and is compared with a fixed token of two or more bytes: whether a valid body is accepted depends on how the transport segmented it (a CRLF split across two TCP segments is rejected as malformed)")
        nsr += 1
        if not hits:
            chk.ok("C19.shortread", cl_.node, f"{cl_.name}: no fixed multi-byte token is matched against read(n)/readany() (line and delimiter reads use readline/readuntil/readexactly)")
    hunt2_rules(chk, repo)
    hunt3_rules(chk, repo)
    hunt4_rules(chk, repo)
    round6_rules(chk, repo)
    hunt5_rules(chk, repo)
    round7_rules(chk, repo)
    # ---- C19.textsize: a text-mode file's byte size is its payload size only under the same codec (shared with C04) --------------------------
    textsize(chk, repo, "C19.size")


def textsize(chk, repo, rule):
    tp = repo.cls(PL, "TextIOPayload")
    sz = tp.methods.get("size")
    if sz is not None and any(isinstance(n, ast.Return) and isinstance(n.value, ast.Constant) and n.value.value is None for n in ast.walk(sz.node)) and "encoding" in norm.raw(sz.node):
        chk.ok(rule, sz, "TextIOPayload.size is None unless the file is read with the codec the payload is written with")
    else:
        chk.violation(rule, tp.node, "TextIOPayload.size (inherited: fstat size - tell)", "None when file encoding != payload encoding",
                      "a text-mode file opened with another encoding (latin-1 text sent as utf-8) declares its on-disk size but writes the re-encoded text: Content-Length / multipart size are smaller than the bytes written and the tail is cut off or spills into the next message")
    # the same holds for what text mode does besides decoding: universal newlines turn CRLF into LF on read, an error handler may replace
    # bytes - the encoded text is then not the file's bytes even under one codec (known finding F130)
    if sz is not None:
        nums = [r for r in ast.walk(sz.node) if isinstance(r, ast.Return) and not (isinstance(r.value, ast.Constant) and r.value.value is None)]
        aware = [r for r in nums if any("newline" in l.text or "errors" in l.text for c in PC.pc(r, raw=True) for l in c)]
        for r in nums:
            if r in aware:
                chk.ok(rule + ".newline", r, "a size is declared only when newline translation / error replacement are excluded")
            else:
                chk.violation(rule + ".newline", r, "return super().size", "None (a text-mode stream cannot promise its encoded length)",
                              "TextIOPayload.size is the on-disk size whenever the codecs agree, but text mode also translates newlines and applies an error handler: a 10-byte CRLF file opened with open(p) writes 8 bytes under `Content-Length: 10` (the peer stalls), with errors='replace' 5 bytes go out under a size of 3; multipart part lengths are wrong the same way")


def hunt5_rules(chk, repo):
    """Rules written after the fifth defect hunt (F282-F284)."""
    # ---- C19.readline.eof: the end of the stream ends the part for the line reader as well -----------------------------------------------------------
    # StreamReader.readline() at EOF returns b"" at once and does not suspend: a part whose closing boundary never came must not hand that out as
    # an (empty) line for ever - `while not part.at_eof(): await part.readline()` would spin and freeze the event loop.
    rl = repo.func(MP, "BodyPartReader.readline")
    ends = [x for x in ast.walk(rl.node) if (isinstance(x, ast.Raise) or (isinstance(x, ast.Assign) and norm.raw(x.targets[0]) == "self._at_eof" and isinstance(x.value, ast.Constant) and x.value.value is True))
            and any((not l.pos and l.text == "line") or (l.pos and l.text in ("not line", "line == b''", "len(line) == 0")) for l in PC.units(PC.pc(x, raw=True)))]
    if ends:
        chk.ok("C19.readline.eof", ends[0], "readline(): an empty line from the stream (its end) ends the part or is an error")
    else:
        chk.violation("C19.readline.eof", rl, "line = await self._content.readline()", "if not line: self._at_eof = True; return b''   (or raise)",
                      "on a body whose closing boundary is missing readline() returns b'' for ever and at_eof() never becomes true: StreamReader.readline() at EOF does not suspend, so `while not part.at_eof(): await part.readline()` spins and freezes the event loop (one raw POST against a handler that reads a part line by line), while read_chunk() on the same bytes raises after three calls")
    # ---- C19.cd.strip: only a file name loses the directory in front of it ---------------------------------------------------------------------------
    n = 0
    for fn in (repo.func(MP, "parse_content_disposition"), repo.func(MP, "content_disposition_filename")):
        for c in prog.calls_in(fn.node):
            if not (isinstance(c.func, ast.Attribute) and c.func.attr == "lstrip" and c.args):
                continue
            a0 = c.args[0]
            vals = [a0] if not isinstance(a0, ast.Name) else [v for _d, v in norm.fn_defs(fn.node).defs.get(a0.id, []) if v is not None]
            consts = [k for v in vals for k in ([v.body, v.orelse] if isinstance(v, ast.IfExp) else [v]) if isinstance(k, ast.Constant) and isinstance(k.value, str)]
            if not any("/" in k.value or "\\" in k.value for k in consts):
                continue
            n += 1
            by_def = all(isinstance(v, ast.IfExp) and "filename" in norm.raw(v.test) and isinstance(v.orelse, ast.Constant) and v.orelse.value == "" for v in vals) and isinstance(a0, ast.Name)
            by_pc = any("filename" in l.text for cl_ in PC.pc(c, raw=True) for l in cl_)
            if by_def or by_pc:
                chk.ok("C19.cd.strip", c, f"{fn.qualname}: leading `/` and `\\` are stripped from file-name parameters only")
            else:
                chk.violation("C19.cd.strip", c, K.short(c), "strip = '\\/' if <the parameter is filename / filename* / filename*N> else ''",
                              f"{fn.qualname} strips leading `/` and `\\` from every Content-Disposition parameter: FormData fields named `/a`, `/`, `\\\\host\\share` are read back as `a`, ``, `host\\share` (with and without quote_fields, and in the name*= form), and in request.post() the fields `/a` and `a` collapse into one key")
    chk.expect_count("C19.cd.strip", n, 4, "strippings of path separators in the Content-Disposition reader")
    # ---- C19.size.nested: a generated Content-Length is withdrawn when what it declared is no longer known --------------------------------------------
    pe = repo.func(MP, "MultipartWriter._part_encodings")
    sets = [a for a in ast.walk(pe.node) if isinstance(a, ast.Assign) and isinstance(a.targets[0], ast.Subscript) and "CONTENT_LENGTH" in norm.raw(a.targets[0].slice)]
    pops = [c for c in prog.calls_in(pe.node) if isinstance(c.func, ast.Attribute) and c.func.attr in ("pop", "popall") and c.args and "CONTENT_LENGTH" in norm.raw(c.args[0])]
    if not sets:
        chk.ok("C19.size.nested", pe, "_part_encodings() generates no Content-Length")
    else:
        stale_ok = [c for c in pops if any((not l.pos and l.text == "size is not None") or (l.pos and l.text == "size is None") for l in PC.units(PC.pc(c, raw=True)))]
        if stale_ok:
            chk.ok("C19.size.nested", stale_ok[0], "_part_encodings(): the Content-Length it generated earlier is removed when the part's size has become unknown (a nested writer that got an encoded part)")
        else:
            chk.violation("C19.size.nested", sets[0], K.short(sets[0]), "elif isinstance(payload, MultipartWriter): payload.headers.pop(CONTENT_LENGTH, None)",
                          "_part_encodings() writes a part's Content-Length when its size is known and never takes it back: `root.append(sub)` stores `Content-Length: 9` on the nested writer, `sub.append(data, {'Content-Transfer-Encoding': 'base64'})` makes sub.size None, and write() / as_bytes() still send `Content-Length: 9` in front of a 570-byte nested body")


def round7_rules(chk, repo):
    """Rule written after seeding round 7 (seed C19-7): the header block of a part is serialised after its headers were brought up to date.
    _part_encodings(part) looks like a getter but keeps the part's Content-Length current (removed for an encoded part, refreshed otherwise;
    headers may be set after append()).  What write() / as_bytes() send as the part's header block has to be read from `_binary_headers`
    behind that call, in the same iteration - a block rendered earlier declares a stale length."""
    for fname in ("write", "as_bytes"):
        fn = repo.func(MP, f"MultipartWriter.{fname}")
        loops = [l for l in ast.walk(fn.node) if isinstance(l, (ast.For, ast.AsyncFor)) and "self._parts" in norm.raw(l.iter)]
        if not loops:
            chk.analysis_error(f"C19.headers.order: the loop over self._parts was not found in MultipartWriter.{fname}")
            continue
        lp = loops[0]
        enc = [c for c in ast.walk(lp) if isinstance(c, ast.Call) and norm.raw(c.func) == "self._part_encodings"]
        reads = [a for a in ast.walk(lp) if isinstance(a, ast.Attribute) and a.attr == "_binary_headers"]
        # names of the loop target other than the part tuple: a value that was prepared before the loop
        outside = {x.id for x in ast.walk(lp.target) if isinstance(x, ast.Name)} - {"part", "_e", "_te", "encoding", "te_encoding"}
        stale = [x for x in ast.walk(lp) if isinstance(x, ast.Name) and x.id in outside and isinstance(x.ctx, ast.Load)
                 and any(isinstance(a, ast.Attribute) and a.attr == "_binary_headers" for m_ in repo.cls(MP, "MultipartWriter").methods.values() for a in ast.walk(m_.node))
                 and "zip(" in norm.raw(lp.iter)]
        if stale:
            chk.violation("C19.headers.order", stale[0], K.short(K.stmt_of(stale[0])), "part._binary_headers, read after self._part_encodings(part) in the same iteration",
                          f"MultipartWriter.{fname}() sends a header block that was rendered before the loop (`{stale[0].id}`), i.e. before _part_encodings(part) brought the part's Content-Length up to date: a part whose Content-Encoding is set after append() goes out compressed but declares the plain length - the reader reads by length and fails with `Reader did not read all the data or it is malformed` - and a nested writer that was filled after append() declares `Content-Length: 11` in front of 164 bytes")
        elif enc and reads and all(r.lineno > min(c.lineno for c in enc) for r in reads):
            chk.ok("C19.headers.order", reads[0], f"MultipartWriter.{fname}(): each part's header block is serialised behind _part_encodings(part) of the same iteration")
        elif not reads:
            chk.violation("C19.headers.order", lp, K.short(lp, 60), "part._binary_headers inside the loop", f"MultipartWriter.{fname}() does not serialise the part headers inside its loop over the parts: the block it sends was rendered before the headers were brought up to date")
        else:
            chk.violation("C19.headers.order", reads[0], K.short(K.stmt_of(reads[0])), "self._part_encodings(part) first", f"MultipartWriter.{fname}() reads part._binary_headers in front of _part_encodings(part): the Content-Length of the block is stale")


def round6_rules(chk, repo):
    """Rule written after seeding round 6 (seed C19-6): what the writer leaves unescaped in a percent-encoded Content-Disposition value is
    nothing the reader gives a meaning.  content_disposition_header() percent-encodes `filename` and `name*=` values with urllib's quote(); the
    characters quote() passes through are the unreserved ones plus its `safe` argument (default "/").  parse_content_disposition() strips the
    characters of its `.lstrip(...)` calls from the front of a value and accepts an extended value only if it is a token.  Both tables are
    constants: the writer's pass-through set must avoid the first and lie inside the second."""
    from sa.consteval import Folder, NotConst
    rule = "C19.cd.pct"
    HL_ = "aiohttp/helpers.py"
    folder = Folder(repo)
    hmod = repo.module(HL_)
    w = repo.func(HL_, "content_disposition_header")
    pcd = repo.func(MP, "parse_content_disposition")
    cdf = repo.func(MP, "content_disposition_filename")
    stripped: set[str] = set()
    for f in (pcd, cdf):
        for c in prog.calls_in(f.node):
            if isinstance(c.func, ast.Attribute) and c.func.attr == "lstrip" and c.args:
                # the characters are a constant, or a local that is one of several constants (`"\\/" if <a file name> else ""`)
                vals = [c.args[0]]
                if isinstance(c.args[0], ast.Name):
                    vals = [v for _d, v in norm.fn_defs(f.node).defs.get(c.args[0].id, []) if v is not None]
                for v in vals:
                    for k in ([v.body, v.orelse] if isinstance(v, ast.IfExp) else [v]):
                        if isinstance(k, ast.Constant) and isinstance(k.value, str):
                            stripped |= set(k.value)
    try:
        token = folder.name(hmod, "TOKEN")
    except NotConst as e:
        chk.analysis_error(f"{rule}: helpers.TOKEN cannot be folded: {e}")
        return
    if not stripped or not isinstance(token, (set, frozenset)):
        chk.analysis_error(f"{rule}: the reader's tables were not found (lstrip characters: {sorted(stripped)}, TOKEN: {type(token).__name__})")
        return
    unreserved = set("ABCDEFGHIJKLMNOPQRSTUVWXYZabcdefghijklmnopqrstuvwxyz0123456789_.-~")
    partials = {}
    for a in ast.walk(w.node):
        if isinstance(a, ast.Assign) and isinstance(a.targets[0], ast.Name) and isinstance(a.value, ast.Call) and norm.raw(a.value.func) in ("functools.partial", "partial") and a.value.args and norm.raw(a.value.args[0]) == "quote":
            partials[a.targets[0].id] = a.value
    n = 0
    for c in prog.calls_in(w.node):
        fname = norm.raw(c.func)
        if fname == "quote":
            pos, kws = list(c.args), {k.arg: k.value for k in c.keywords}
        elif fname in partials:
            pc_ = partials[fname]
            pos, kws = list(pc_.args[1:]) + list(c.args), {**{k.arg: k.value for k in pc_.keywords}, **{k.arg: k.value for k in c.keywords}}
        else:
            continue
        n += 1
        sv = pos[1] if len(pos) > 1 else kws.get("safe")
        try:
            safe = "/" if sv is None else folder.eval(hmod, sv)
        except NotConst:
            safe = None
        if not isinstance(safe, (str, bytes)):
            chk.violation(rule, c, K.short(c), "quote(val, '', encoding=...)", "the characters this percent-encoding leaves as they are cannot be determined: the reader strips leading `/` and `\\` and takes an extended value only if it is a token")
            continue
        passed = unreserved | set(safe if isinstance(safe, str) else safe.decode("latin-1"))
        bad = sorted((passed & stripped) | (passed - set(token)))
        if bad:
            chk.violation(rule, c, K.short(c), "quote(val, '', encoding=_charset)  (safe must be empty)",
                          f"the writer leaves {''.join(bad)!r} unescaped in a percent-encoded Content-Disposition value (safe={safe!r}" + (", urllib's default" if sv is None else "") + f"), but the reader strips {''.join(sorted(stripped))!r} from the front of a value and refuses an extended value that is not a token: `filename=\"/srv/data/report.bin\"` is read back as `srv/data/report.bin`, and a non-ASCII field name with a `/` (`name*=utf-8''upload/%D1%84`) is dropped, part.name is None")
        else:
            chk.ok(rule, c, f"`{K.short(c, 50)}` passes only unreserved characters through: none of {''.join(sorted(stripped))!r}, all of them token characters")
    chk.expect_count(rule, n, 2, "percent-encodings in content_disposition_header")


def hunt4_rules(chk, repo):
    """Rules written after the fourth defect hunt (F226-F234)."""
    import re as _re
    bp = repo.cls(MP, "BodyPartReader")
    # ---- C19.cd.quoted (escapes): the end of a quoted value is judged with quoted-pairs in mind ------------------------------------------------
    pcd = repo.func(MP, "parse_content_disposition")
    preds = {}
    for f in [x for x in ast.walk(pcd.node) if isinstance(x, ast.FunctionDef)]:
        for c in ast.walk(f):
            if isinstance(c, ast.Call) and norm.raw(c.func) in ("re.fullmatch", "re.match") and c.args and isinstance(c.args[0], ast.Constant) and isinstance(c.args[0].value, str) and "\\\\" in repr(c.args[0].value):
                preds[f.name] = (c.args[0].value, norm.raw(c.func))
    ok_pred = None
    for name, (pat, how) in preds.items():
        try:
            cre = _re.compile(pat, _re.S)
            m = cre.fullmatch if how.endswith("fullmatch") else cre.match
            open_w = ['"say\\ \\"hi\\"', '"a', '"a\\"']      # the quote at the end is escaped / missing: the value goes on
            closed_w = ['"abc"', '"a\\\\"', '""']                # closed (an escaped backslash in front of the closing quote)
            if all(m(x) for x in open_w) and not any(m(x) for x in closed_w):
                ok_pred = name
        except _re.error:
            pass
    joins = [l for l in ast.walk(pcd.node) if isinstance(l, ast.While) and "is_quoted" in norm.raw(l.test) and norm.raw(l.test) != "parts"]
    if ok_pred and joins and all(any(isinstance(c, ast.Call) and norm.raw(c.func) == ok_pred for c in ast.walk(l.test)) for l in joins):
        chk.ok("C19.cd.quoted", joins[0], f"the joining loop goes on while `{ok_pred}()` says the quoted-string is still open (a `\\\"` at the end of a piece is not its closing quote)")
    else:
        chk.violation("C19.cd.quoted", joins[0] if joins else pcd, K.short(joins[0], 70) if joins else "parse_content_disposition", "while parts and (not is_quoted(v) or is_unclosed(v)): join the next piece",
                      "a piece that ends in an escaped quote is taken for a complete quoted value: `name=\"say \\\"hi\\\"; then leave\"` (what FormData writes for the field name `say \"hi\"; then leave`) fails to parse, the part loses its name and request.post() raises `Multipart field missing name`")
    # ---- C19.lookahead.cancel (tail): the end-of-part step of read_chunk() is undone when its wait is interrupted ---------------------------------
    rc = bp.methods["read_chunk"]
    marks = [a for a in ast.walk(rc.node) if isinstance(a, ast.Assign) and norm.raw(a) == "self._at_eof = True"]
    tails = [a for a in prog.awaits_in(rc.node) if isinstance(a.value, ast.Call) and norm.raw(a.value.func).startswith("self._content.read") and marks and a.lineno > marks[0].lineno]
    for a in tails:
        hs = [h for _t, h in K.enclosing_try_handlers(a) if h.type is None or {"BaseException", "asyncio.CancelledError"} & set(PC.handler_types(h))]
        undo = [h for h in hs if isinstance(h.body[-1], ast.Raise) and any(isinstance(x, ast.Assign) and norm.raw(x) == "self._at_eof = False" for x in ast.walk(h))
                and any(isinstance(x, ast.Assign) and norm.raw(x.targets[0]) == "self._b64_carry" for x in ast.walk(h))]
        if undo:
            chk.ok("C19.lookahead.cancel", a, "read_chunk(): interrupted while waiting for the CRLF after the last byte, the step is undone (bytes unread, _at_eof and the carry restored)")
        else:
            chk.violation("C19.lookahead.cancel", a, K.short(a, 60), "except BaseException: unread `fresh`, self._at_eof = False, self._b64_carry = carry; raise",
                          "read_chunk() has taken the last bytes of a Content-Length part and set _at_eof before it waits for the trailing CRLF; when that wait is interrupted the chunk is gone and the part is stuck at EOF: the retry returns b'' and next() raises `Invalid boundary`")
    if marks and not tails:
        chk.analysis_error("C19.lookahead.cancel: the wait for the trailing CRLF in BodyPartReader.read_chunk was not found")
    # ---- C19.window (carry): the bytes read_chunk() carries over are part of what it holds back ---------------------------------------------------------
    rl = bp.methods["readline"]
    if "self._b64_carry" in norm.raw(rl.node) and any(isinstance(c, ast.Call) and norm.raw(c.func).endswith("unread_data") and "_b64_carry" in norm.raw(c) for c in ast.walk(rl.node)):
        chk.ok("C19.window", rl, "readline() also gives the tail read_chunk() carries to its next chunk (base64 / quoted-printable alignment) back to the stream")
    else:
        chk.violation("C19.window", rl, "BodyPartReader.readline", "if self._b64_carry: self._content.unread_data(self._b64_carry); self._b64_carry = b''",
                      "readline() after read_chunk() on a base64 / quoted-printable part ignores the bytes read_chunk() carried over for alignment: they are dropped from the line stream")
    # ---- C19.charset.first: the `_charset_` convention applies to the first part only (RFC 7578 4.6) -----------------------------------------------------
    nx = repo.func(MP, "MultipartReader.next")
    cs = [i for i in ast.walk(nx.node) if isinstance(i, ast.If) and any(isinstance(c, ast.Constant) and c.value == "_charset_" for c in ast.walk(i.test))]
    if not cs:
        chk.analysis_error("C19.charset.first: the `_charset_` test of MultipartReader.next was not found")
    else:
        lits = [l for c_ in PC.pc(cs[0]) for l in c_ if len(c_) == 1]
        first = [l for l in lits if l.pos and l.text == "self._at_bof"]
        if first and not any(l.pos and l.text == "self._last_part is None" for l in lits):
            chk.ok("C19.charset.first", cs[0], "a field named `_charset_` sets the default charset only when it is the first part (the position is taken from _at_bof before the delimiter is read)")
        else:
            chk.violation("C19.charset.first", cs[0], K.short(cs[0], 60), "first_part = self._at_bof  (taken before the first delimiter is read)",
                          "the position test is `self._last_part is None`, which _maybe_release_last_part() has made true for every part: a form field named `_charset_` at any position is swallowed and changes the charset of the fields after it")
    # ---- C19.limits.negative: a length-framed part never asks the stream for a negative number of bytes --------------------------------------------------
    rfl = bp.methods["_read_chunk_from_length"]
    rds = [a for a in prog.awaits_in(rfl.node) if isinstance(a.value, ast.Call) and norm.raw(a.value.func) == "self._content.read"]
    for a in rds:
        st = K.stmt_of(a)
        if PC.has_lit(PC.pc(st), [("self._read_bytes > self._length", False), ("self._length < self._read_bytes", False), ("self._read_bytes <= self._length", True), ("self._length >= self._read_bytes", True)], True) is not None:
            chk.ok("C19.limits.negative", a, "_read_chunk_from_length(): read(n) is reached only with _read_bytes <= _length (readline() may have gone past a too small Content-Length)")
        else:
            chk.violation("C19.limits.negative", a, K.short(a, 60), "if self._read_bytes > self._length: raise ValueError(...)",
                          "after readline() has read past a Content-Length smaller than the part, read_chunk() computes a negative remainder and StreamReader.read(-n) means `read to EOF`: the rest of the request body is buffered and returned as content of this part")
    # ---- C19.append.charset: text appended with a charset in its Content-Type is encoded in that charset ---------------------------------------------------
    apd = repo.func(MP, "MultipartWriter.append")
    gp = [c for c in prog.calls_in(apd.node) if norm.raw(c.func) == "get_payload"]
    if gp and any(any(k.arg == "content_type" for k in c.keywords) or any(k.arg is None for k in c.keywords) for c in gp):
        chk.ok("C19.append.charset", gp[0], "append(): the Content-Type given in the headers reaches get_payload(), which encodes text with its charset")
    else:
        chk.violation("C19.append.charset", apd, "get_payload(obj, headers=headers)", "content_type=<Content-Type of the headers>",
                      "append('text', {'Content-Type': 'text/plain; charset=cp1251'}) writes UTF-8 bytes under a header that says cp1251: part.text() on the other side returns mojibake")
    # ---- C19.boundary.quoted: parameters of a media type are split with quoted-strings in mind -----------------------------------------------------------------
    pm = repo.func("aiohttp/helpers.py", "parse_mimetype")
    naive = [c for c in prog.calls_in(pm.node) if isinstance(c.func, ast.Attribute) and c.func.attr == "split" and c.args and isinstance(c.args[0], ast.Constant) and c.args[0].value == ";"]
    fa = [c for c in prog.calls_in(pm.node) if norm.raw(c.func) in ("re.findall", "re.split", "re.finditer") and c.args and isinstance(c.args[0], ast.Constant)]
    good = False
    if fa and not naive:
        try:
            pieces = [x if isinstance(x, str) else x[0] for x in _re.findall(fa[0].args[0].value, 'multipart/form-data; boundary="a;b\\"c"; x=1')]
            good = any(p_.strip() == 'boundary="a;b\\"c"' for p_ in pieces)
        except _re.error:
            good = False
    if good:
        chk.ok("C19.boundary.quoted", fa[0], "parse_mimetype(): a `;` or an escaped quote inside a quoted parameter value does not end the parameter")
    else:
        chk.violation("C19.boundary.quoted", naive[0] if naive else pm, K.short(naive[0]) if naive else "parse_mimetype", "split that respects quoted-strings; unescape quoted-pairs",
                      "parse_mimetype() splits the header at every `;`: a boundary that MultipartWriter had to quote (`boundary=\"a;b\"`) is cut short and the body it delimits cannot be read back")


def hunt3_rules(chk, repo):
    """Rules written after the third defect hunt (F205-F207)."""
    READS = ("read", "readany", "readline", "readchunk", "readexactly", "readuntil")
    # ---- C19.cd.quoted: a quoted parameter value split at `;` is put together up to its closing quote ----------------------------------------------
    pcd = repo.func(MP, "parse_content_disposition")
    joins = [j for j in ast.walk(pcd.node) if isinstance(j, ast.JoinedStr) and any(isinstance(v, ast.Constant) and ";" in str(v.value) for v in j.values)
             and any(isinstance(v, ast.FormattedValue) and "parts" in norm.raw(v.value) for v in j.values)]
    if not joins:
        chk.analysis_error("C19.cd.quoted: the re-join of a value that was split at `;` was not found in parse_content_disposition")
    for j in joins:
        lp = next(iter(K.loop_ancestors(j)), None)
        inner = lp is not None and lp is not next((l for l in ast.walk(pcd.node) if isinstance(l, ast.While) and norm.raw(l.test) == "parts"), None) and "is_quoted" in norm.raw(lp.test if isinstance(lp, ast.While) else lp.iter)
        if inner:
            chk.ok("C19.cd.quoted", j, "pieces are appended until the value ends with its closing quote (any number of `;` inside the quotes)")
        else:
            chk.violation("C19.cd.quoted", j, K.short(j), "while parts and not is_quoted(_value.rstrip()): _value = f'{_value};{parts.pop(0)}'",
                          "a quoted filename is re-joined with exactly one following piece: `filename=\"a;b;c.txt\"` (two semicolons inside the quotes) fails to parse, the whole Content-Disposition is dropped with a warning and the form field loses its name and filename")
    # ---- C19.lookahead.cancel: a value taken before a further wait survives the interruption of that wait ------------------------------------------
    bp = repo.cls(MP, "BodyPartReader")
    nla = 0
    for mname, m in bp.methods.items():
        if not isinstance(m.node, ast.AsyncFunctionDef) or not mname.lstrip("_").startswith("read"):
            continue
        g = cfg_of(m.node)
        taken = []  # (cfg node, local) : a local that holds bytes removed from the stream / from the part's own buffers
        for n in g.nodes:
            if n.kind == "stmt" and isinstance(n.ast, ast.Assign) and isinstance(n.ast.targets[0], ast.Name):
                v = n.ast.value
                from_stream = isinstance(v, ast.Await) and isinstance(v.value, ast.Call) and isinstance(v.value.func, ast.Attribute) and v.value.func.attr in READS and "self._content" in norm.raw(v.value.func.value)
                from_buf = isinstance(v, ast.Call) and isinstance(v.func, ast.Attribute) and v.func.attr in ("popleft", "pop") and norm.raw(v.func.value).startswith("self._")
                if from_stream or from_buf:
                    taken.append((n, n.ast.targets[0].id))
        waits = [n for n in g.nodes if n.kind == "stmt" and any(isinstance(a, ast.Await) and isinstance(a.value, ast.Call) and isinstance(a.value.func, ast.Attribute) and a.value.func.attr in READS and "self._content" in norm.raw(a.value.func.value)
                                                              for a in ast.walk(n.ast)) and not K.loop_ancestors(n.ast)]
        for w in waits:
            for tn, loc in taken:
                if tn is w or tn.ast is w.ast:
                    continue
                if g.find_path([tn], lambda x: x is w, lambda x: False, EXPLICIT) is None:
                    continue
                # still needed afterwards?  (a use reached from the wait without a new definition of the local in between)
                def _defines(n_, loc=loc):
                    return n_.ast is not None and n_.kind == "stmt" and isinstance(n_.ast, (ast.Assign, ast.AugAssign, ast.AnnAssign)) and any(
                        isinstance(t_, ast.Name) and t_.id == loc for t0 in (n_.ast.targets if isinstance(n_.ast, ast.Assign) else [n_.ast.target]) for t_ in ast.walk(t0))

                def _uses(n_, loc=loc):
                    return n_.ast is not None and any(isinstance(x, ast.Name) and x.id == loc and isinstance(x.ctx, ast.Load) for x in ast.walk(n_.ast if n_.kind != "handler" else ast.Pass()))

                if _defines(w) or g.find_path([w], _uses, lambda n_: _defines(n_) and not _uses(n_), EXPLICIT) is None:
                    continue
                nla += 1
                hs = [h for _t, h in K.enclosing_try_handlers(w.ast) if h.type is None or {"BaseException", "asyncio.CancelledError"} & set(PC.handler_types(h))]
                if any(isinstance(h.body[-1], ast.Raise) and any(isinstance(x, ast.Name) and x.id == loc for x in ast.walk(h)) for h in hs):
                    chk.ok("C19.lookahead.cancel", w.ast, f"BodyPartReader.{mname}(): `{loc}` (already taken) is put back when the look-ahead wait is interrupted")
                else:
                    chk.violation("C19.lookahead.cancel", w.ast, K.short(w.ast, 60), f"except BaseException: self._unread.appendleft({loc}); raise",
                                  f"BodyPartReader.{mname}() holds `{loc}` (removed from the stream) while it waits for the next read; when that wait is interrupted (asyncio.wait_for timing out) `{loc}` is dropped and the next call continues after it")
    chk.expect_count("C19.lookahead.cancel", nla, 1, "look-ahead waits of BodyPartReader read methods that hold data")
    # ---- C19.window: bytes held back by read_chunk() are seen by every other way of reading the part ---------------------------------------------
    holders = {mname for mname, m in bp.methods.items() if mname != "__init__" and any(isinstance(a, (ast.Assign, ast.AugAssign)) and any(norm.raw(t) == "self._prev_chunk" for t in (a.targets if isinstance(a, ast.Assign) else [a.target])) for a in ast.walk(m.node))}
    nw = 0
    for mname, m in bp.methods.items():
        direct = [a for a in prog.awaits_in(m.node) if isinstance(a.value, ast.Call) and isinstance(a.value.func, ast.Attribute) and a.value.func.attr in READS and norm.raw(a.value.func.value) == "self._content"]
        if not direct:
            continue
        nw += 1
        fronts = any(norm.raw(c.func) in {f"self.{h}" for h in holders} for c in prog.calls_in(m.node))  # the front end of the windowed reader itself
        if mname in holders or fronts or "self._prev_chunk" in norm.raw(m.node):
            chk.ok("C19.window", m, f"BodyPartReader.{mname}() reads the stream and accounts for the window read_chunk() keeps in _prev_chunk")
            continue
        # a reader that never coexists with the window: selected by the part's fixed Content-Length
        sites = [c for mm in bp.methods.values() for c in prog.calls_in(mm.node) if norm.raw(c.func) == f"self.{mname}"]
        if sites and all(any("self._length" in l.text for cl in PC.pc(c, raw=True) for l in cl) for c in sites):
            chk.ok("C19.window", m, f"BodyPartReader.{mname}() is used only for parts with a Content-Length, which never fill _prev_chunk")
        else:
            chk.violation("C19.window", m, f"BodyPartReader.{mname}", "if self._prev_chunk is not None: self._content.unread_data(self._prev_chunk); self._prev_chunk = None",
                          f"BodyPartReader.{mname}() reads the stream directly while read_chunk() may hold the previous window in _prev_chunk (taken from the stream, not yet returned): mixing read_chunk() and {mname}() skips those bytes and returns them later, out of order")
    chk.expect_count("C19.window", nw, 3, "BodyPartReader methods that read the underlying stream")


def hunt2_rules(chk, repo):
    """Rules written after the second defect hunt (F150-F152)."""
    bp = repo.cls(MP, "BodyPartReader")
    # ---- C19.lookahead: what readline() has peeked is seen by every other way of reading the part --------------------------------------------
    rl = bp.methods["readline"]
    peeks = [c for c in prog.calls_in(rl.node) if norm.raw(c.func) in ("self._unread.append", "self._unread.appendleft")]
    rc = bp.methods["read_chunk"]
    if peeks:
        reads = [c.lineno for c in prog.calls_in(rc.node) if norm.raw(c.func).startswith(("self._content.read", "self._read_chunk_from"))]
        uses = [n_.lineno for n_ in ast.walk(rc.node) if isinstance(n_, ast.Attribute) and n_.attr == "_unread" and norm.raw(n_.value) == "self"]
        if uses and reads and min(uses) < min(reads):
            chk.ok("C19.lookahead", rc, "read_chunk() takes the line readline() has looked ahead before it reads from the stream (read(), release() and next() go through read_chunk())")
        else:
            chk.violation("C19.lookahead", rc, "read_chunk()", "drain self._unread (push the peeked line back) before reading from self._content",
                          "readline() keeps the next line in self._unread, and no other read path looks there: readline() followed by read() silently drops a line of the part, reading only the first line of each part and calling next() raises `Invalid boundary`, release() swallows the following part")
        cnt = [a for a in ast.walk(rl.node) if isinstance(a, ast.AugAssign) and norm.raw(a.target) == "self._read_bytes" and isinstance(a.op, ast.Add)]  # (the give-back of carried bytes subtracts)
        # ... and counts what it hands out: the line is not changed any more between the count and the return (the CRLF that belongs to the
        # next delimiter is stripped first)
        grl = cfg_of(rl.node)
        cn = [n_ for n_ in grl.nodes if n_.in_finally_copy is None and n_.kind == "stmt" and any(n_.ast is a for a in cnt)]
        def reassigns(n_):
            return n_.kind == "stmt" and isinstance(n_.ast, ast.Assign) and any(isinstance(t_, ast.Name) and t_.id == "line" for t_ in n_.ast.targets)
        late = grl.find_path(cn, reassigns, lambda n_: False, EXPLICIT) if cn else None
        if cnt and late is not None:
            chk.violation("C19.lookahead", cnt[0], K.short(cnt[0]), "count after the last change of `line`",
                          "readline() counts the line before it strips the CRLF that belongs to the following delimiter: for a part with Content-Length the byte count ends at length + 2, read_chunk() then computes a negative remainder and StreamReader.read(-2) swallows the rest of the body - the following parts are returned as content of this one",
                          path=grl.fmt_path(late))
        elif cnt:
            chk.ok("C19.lookahead", cnt[0], "readline() counts the bytes it hands out (a Content-Length delimited part stays in step)")
        else:
            chk.violation("C19.lookahead", rl, "return line", "self._read_bytes += len(line)", "readline() does not count what it returns: in a part delimited by Content-Length a following read_chunk() reads past the end of the part")
    else:
        chk.ok("C19.lookahead", rl, "readline() keeps no look-ahead")
    # ---- C19.limit: client_max_size == 0 means `no limit` in every reader of the request body (sibling agreement) -------------------------------
    nlim = 0
    for rel, cname in ((MP, "BodyPartReader"), ("aiohttp/web_request.py", "BaseRequest")):
        for m in repo.cls(rel, cname).methods.values():
            for c in [c for c in ast.walk(m.node) if isinstance(c, ast.Compare) and any("_client_max_size" in norm.raw(x) for x in [c.left] + c.comparators) and any(isinstance(o, (ast.Gt, ast.Lt, ast.GtE, ast.LtE)) for o in c.ops)]:
                nlim += 1
                zero_aware = (len(c.ops) == 2 and isinstance(c.left, ast.Constant) and c.left.value == 0) or any(l.pos and l.text.endswith("_client_max_size") for cl_ in PC.pc(c, raw=True) for l in cl_) \
                    or any(isinstance(b_, ast.BoolOp) and isinstance(b_.op, ast.And) and any(norm.raw(v).endswith("_client_max_size") for v in b_.values) and any(x is c for x in ast.walk(b_)) for b_ in ast.walk(m.node))
                if zero_aware:
                    chk.ok("C19.limit", c, f"{cname}.{m.name}: the size test applies only when client_max_size is non-zero")
                else:
                    chk.violation("C19.limit", c, norm.raw(c), "0 < self._client_max_size < len(...)",
                                  f"{cname}.{m.name}() compares the size with client_max_size without the `0 = no limit` convention its siblings (request.read(), request.post()) follow: with client_max_size=0 every multipart field is refused with 413 `Maximum request body size 0 exceeded`")
    chk.expect_count("C19.limit.zero", nlim, 3, "size comparisons against client_max_size")
    # ---- C19.decode: a part decoded chunk by chunk is decoded as one stream -------------------------------------------------------------------------
    # the chunk-wise decoders: decode_iter() and the async generators it delegates to
    di = bp.methods["decode_iter"]
    chain = [di] + [bp.methods[c.func.attr] for c in prog.calls_in(di.node) if isinstance(c.func, ast.Attribute) and norm.raw(c.func.value) == "self" and c.func.attr in bp.methods]
    fresh = [c for m_ in chain for c in prog.calls_in(m_.node) if norm.raw(c.func) == "ZLibDecompressor"]
    chk.expect_count("C19.decode.chunkwise", len(fresh), 1, "decompressor constructions on the chunk-wise decoding path")
    for c in fresh:
        if PC.pc(c, raw=True) and any("eof" in l.text or "is None" in l.text for cl_ in PC.pc(c, raw=True) for l in cl_ if "encoding" not in l.text):
            chk.ok("C19.decode", c, "decode_iter() keeps one decompressor per part until the compressed stream has ended")
        else:
            chk.violation("C19.decode", c, K.short(c, 50), "self._decompressor, renewed only when it is None or at eof",
                          "decode_iter() makes a new decompressor for every call: BodyPartReaderPayload.write() and web.Request.post() decode a part chunk by chunk (256 KiB), so a gzip/deflate part whose compressed data exceeds one chunk raises zlib.error although read(decode=True) decodes it")
    qp = [i for i in ast.walk(rc.node) if isinstance(i, ast.If) and "quoted-printable" in norm.raw(i.test)]
    if qp and any(isinstance(a, ast.Assign) and "carry" in norm.raw(a.targets[0]) for a in ast.walk(qp[0])):
        chk.ok("C19.decode", qp[0], "read_chunk(): a quoted-printable chunk never ends inside an `=XX` escape (the unfinished tail is carried to the next chunk)")
    else:
        chk.violation("C19.decode", rc, "read_chunk()", "carry an unfinished `=`, `=X` or `=\\r` tail of a quoted-printable chunk",
                      "quoted-printable parts are decoded chunk by chunk without state: where the 256 KiB chunk edge cuts an `=XX` escape the decoder emits the literal characters - a 600000-byte part comes back with 600001 bytes")
