"""C01 Request framing is unambiguous: one wire message, one parsed request (DESIGN 5/C01)."""
from __future__ import annotations

import ast
import re

from sa import match as M, norm, pc as PC, prog, regexlang as R, rulekit as K
from sa.cfg import EXPLICIT, cfg_of
from sa.consteval import Folder, NotConst, RegexConst
from sa.loader import AnalysisError

MOD = "aiohttp/http_parser.py"
PROTO = "aiohttp/web_protocol.py"
TCHAR = r"[!#$%&'*+\-.^_`|~0-9A-Za-z]"
HTTP_ERRORS = None  # filled from http_exceptions.py

# literals that merely dispatch on parser state / loop progress: they select *where* in the stream we are,
# they do not make a rejection conditional on message content
DISPATCH = [
    ("self._chunk == $S", True), ("self._chunk == $S", False), ("self._type == $S", True), ("self._type == $S", False),
    ("self._payload_parser is None", True), ("self._upgraded", False), ("line", True),  # `while line:` loop variable
    ("pos < 0", True), ("pos < 0", False), ("$D.find($S, $P) < $Q", True), ("$D.find($S, $P) < $Q", False), ("$D.find($A, $B, $C) < 0", False), ("$D.find($A, $B, $C) < 0", True),
    ("self._lines[-1] == $E", True), ("self._trailer_lines[-1] == $E", True), ("self._chunk_tail", True),
    ("self._should_close", False),
    # queue-full / blank-line-skip / loop-progress disjuncts of HttpParser.feed_data and HttpPayloadParser.feed_data
    ("self._max_msg_queue_size", False), ("self._msg_in_flight < self._max_msg_queue_size", True), ("$D.find($S, $P) == $Q", False), ("self._lines", True),
    ("$A == b'\\n'", False), ("$D.startswith(b'\\r\\n', $P)", False),  # lax parser: the skipped blank line is CRLF although lines are split at LF
    ("self._payload_has_more_data", True), ("start_pos < data_len", True), ("chunk", True), ("self._more_data_available", True),
]


def te10_rule(chk, pm, rule: str, kind: str, what: str):
    """RFC 9112 6.1: an HTTP/1.0 message with Transfer-Encoding has faulty framing; the last word on `close` in parse_message() is True for it.
    One rule for both parse_message() implementations (request: C01, response: C06)."""
    closes = [a for a in ast.walk(pm.node) if isinstance(a, ast.Assign) and norm.raw(a) == "close = True"]
    te10 = [a for a in closes if any("TRANSFER_ENCODING" in l.text and l.pos for c in PC.pc(a, raw=True) for l in c) and any("HttpVersion1" in l.text for c in PC.pc(a, raw=True) for l in c)]
    rets = [r for r in ast.walk(pm.node) if isinstance(r, ast.Return)]
    if te10 and rets and all(a.lineno < rets[-1].lineno for a in te10) and not any(isinstance(x, ast.Assign) and norm.raw(x.targets[0]) == "close" and x.lineno > te10[-1].lineno for x in ast.walk(pm.node)):
        chk.ok(rule, te10[0], f"an HTTP/1.0 {kind} carrying Transfer-Encoding closes the connection, whatever its Connection header says")
    else:
        chk.violation(rule, pm, "close", "if version_o < HttpVersion11 and hdrs.TRANSFER_ENCODING in headers: close = True", what)


def http_error_classes(repo) -> set[str]:
    m = repo.module("aiohttp/http_exceptions.py")
    out = set()
    for c in m.classes.values():
        if any(x.name == "HttpProcessingError" for x in repo.mro(c)):
            out.add(c.name)
    if "HttpProcessingError" not in out:
        raise AnalysisError("C01: HttpProcessingError hierarchy not found")
    return out


def regex_of(folder, mod, expr) -> RegexConst:
    """RegexConst for an expression naming a compiled pattern (module constant)."""
    try:
        v = folder.eval(mod, expr)
    except NotConst as e:
        raise AnalysisError(f"cannot fold regex `{norm.raw(expr)}`: {e}")
    if not isinstance(v, RegexConst):
        raise AnalysisError(f"`{norm.raw(expr)}` is not a compiled pattern")
    return v


def lang_check(chk, rule, node, rx: RegexConst, mode: str, oracle: str | bytes, what: str, relation="equal", oracle_flags=0):
    a = R.lang(rx.pattern, rx.flags, mode)
    b = R.lang(oracle, oracle_flags, "fullmatch")
    wa, wb = R.compare(a, b)
    if wa is not None:
        chk.violation(rule, node, f"{what}: {rx.pattern!r} flags={rx.flags} mode={mode}", f"admits {wa!r}",
                      f"{what}: the gate admits {wa!r}, which is outside the RFC language {oracle!r}")
        return False
    if relation == "equal" and wb is not None:
        chk.violation(rule, node, f"{what}: {rx.pattern!r} flags={rx.flags} mode={mode}", f"refuses {wb!r}",
                      f"{what}: the gate refuses {wb!r}, which the RFC language {oracle!r} allows")
        return False
    chk.ok(rule, node, f"{what}: L({rx.pattern!r}, flags={rx.flags}, {mode}) {'==' if relation == 'equal' else 'subset of'} L({oracle!r}) over the whole alphabet partition")
    return True


def gate_of_int(call: ast.Call, folder):
    """For `int(x[, base])`: find a positive regex-match literal on x (or the match object x.group(k)
    comes from) in the path condition.  Returns (regexconst, mode, group or None, litnode) or None."""
    arg = call.args[0]
    clauses = PC.pc(call)
    mod = call.mod
    # int(m.group(k)) with m := R.fullmatch(v)
    e = norm.subst(arg, call)
    b = M.match(M.compile_pat("$R.fullmatch($V).group($K)"), e)
    if b is not None:
        rx = regex_of(folder, mod, b["R"])
        # the match must be known to have succeeded
        if PC.has_lit(clauses, "$R.fullmatch($V) is None", False) is None and PC.has_lit(clauses, "$R.fullmatch($V)", True) is None:
            return None
        return rx, "fullmatch", folder.eval(mod, b["K"]), e
    # int(m.group(k)) / int(m.group()) / int(m[k]) / (int(s) for s in m.groups()) with `m = R.match|fullmatch|search(v)` the only definition
    # of m and `m` (or `m is not None`) established: the converted text is in the language of the group (of the whole pattern)
    mo = _match_object(arg, call, folder)
    if mo is not None:
        return mo
    inner = arg
    while isinstance(inner, ast.Call) and isinstance(inner.func, ast.Name) and inner.func.id in ("bytes", "str") and inner.args:
        inner = inner.args[0]
    t = norm.text(inner, call)
    for lit in PC.units(clauses):
        if not lit.pos:
            continue
        for pat, mode in (("$R.fullmatch($V)", "fullmatch"), ("re.fullmatch($R, $V)", "fullmatch"), ("$R.match($V)", "match")):
            bb = M.match_text(pat, lit.text)
            if bb is not None and norm.raw(bb["V"]) in (t, norm.raw(inner)):
                return regex_of(folder, mod, bb["R"]), mode, None, lit
    # x.isascii() and x.isdigit()
    if any(l.pos and l.text == f"{t}.isdigit()" for l in PC.units(clauses)) and any(l.pos and l.text == f"{t}.isascii()" for l in PC.units(clauses)):
        return RegexConst("[0-9]+", 0), "fullmatch", None, None
    return None


def _class_const(call, expr, folder):
    """RegexConst of `cls.X` / `self.X` (a class constant of the enclosing class) or of a module-level name."""
    if isinstance(expr, ast.Attribute) and isinstance(expr.value, ast.Name) and expr.value.id in ("cls", "self") and getattr(call, "fn", None) is not None and call.fn.cls is not None:
        for ci in folder.repo.mro(call.fn.cls):
            if expr.attr in ci.attrs:
                v = folder.eval(ci.module, ci.attrs[expr.attr])
                return v if isinstance(v, RegexConst) else None
        return None
    try:
        v = folder.eval(call.mod, expr)
    except NotConst:
        return None
    return v if isinstance(v, RegexConst) else None


def _match_object(arg, call, folder):
    which = None  # group index, "whole" or "all"
    m = None
    if isinstance(arg, ast.Call) and isinstance(arg.func, ast.Attribute) and arg.func.attr == "group" and isinstance(arg.func.value, ast.Name):
        m = arg.func.value.id
        if not arg.args:
            which = "whole"
        else:
            try:
                which = folder.eval(call.mod, arg.args[0])
            except NotConst:
                return None
            which = "whole" if which == 0 else which
    elif isinstance(arg, ast.Subscript) and isinstance(arg.value, ast.Name) and isinstance(arg.slice, ast.Constant) and isinstance(arg.slice.value, int):
        m = arg.value.id
        which = "whole" if arg.slice.value == 0 else arg.slice.value
    elif isinstance(arg, ast.Name):
        # the variable of a comprehension over m.groups()
        for comp in (x for x in ast.walk(call.fn.node) if isinstance(x, (ast.GeneratorExp, ast.ListComp, ast.SetComp))) if getattr(call, "fn", None) is not None else []:
            if any(c is call for c in ast.walk(comp.elt)):
                for g_ in comp.generators:
                    it = g_.iter
                    if isinstance(g_.target, ast.Name) and g_.target.id == arg.id and isinstance(it, ast.Call) and isinstance(it.func, ast.Attribute) and it.func.attr == "groups" and isinstance(it.func.value, ast.Name) and not it.args:
                        m, which = it.func.value.id, "all"
    if m is None or getattr(call, "fn", None) is None:
        return None
    defs = [v for _d, v in norm.fn_defs(call.fn.node).defs.get(m, []) if v is not None]
    if len(defs) != 1 or not (isinstance(defs[0], ast.Call) and isinstance(defs[0].func, ast.Attribute) and defs[0].func.attr in ("match", "fullmatch", "search")):
        return None
    rx = _class_const(call, defs[0].func.value, folder)
    if rx is None:
        return None
    site = call
    for comp in ast.walk(call.fn.node):
        if isinstance(comp, (ast.GeneratorExp, ast.ListComp, ast.SetComp)) and any(c is call for c in ast.walk(comp)):
            site = comp
    units = list(PC.units(PC.pc(site, raw=True))) + list(PC.units(PC.pc(site)))
    dtxt = (norm.raw(defs[0]), norm.raw(norm.subst(defs[0], call)))
    if not any((l.pos and l.text in (m, f"{m} is not None") + dtxt) or (not l.pos and l.text in (f"{m} is None", f"not {m}") + tuple(f"{d} is None" for d in dtxt)) for l in units):
        return None
    return rx, "matchobject", which, None


def int_cannot_raise(call: ast.Call, folder) -> bool:
    """int(x[, base]) cannot raise: the text is lexically gated AND (the base is a power of two, or the number of decimal
    digits is bounded - CPython refuses decimal strings longer than sys.get_int_max_str_digits(), 4300 by default -, or a
    ValueError handler encloses the call)."""
    g = gate_of_int(call, folder)
    if g is None:
        return False
    rx, mode, group, _lit = g
    base = 10
    if len(call.args) > 1:
        try:
            base = folder.eval(call.mod, call.args[1])
        except NotConst:
            return False
    if base in (2, 4, 8, 16, 32):
        return True
    if mode == "matchobject":
        bound = R.lang("[0-9]{0,64}" if not isinstance(rx.pattern, bytes) else b"[0-9]{0,64}", 0, "fullmatch")
        import re as _re
        ngroups = _re.compile(rx.pattern, rx.flags).groups
        def whole():
            # the matched text is in the language of the pattern without its zero-width assertions (a superset: sound for an upper bound)
            pat = rx.pattern
            strip = _re.compile(rb"\(\?<?[=!][^()]*\)" if isinstance(pat, bytes) else r"\(\?<?[=!][^()]*\)")
            try:
                return R.lang(pat, rx.flags, "fullmatch")
            except AnalysisError:
                return R.lang(strip.sub(b"" if isinstance(pat, bytes) else "", pat), rx.flags, "fullmatch")
        langs = [whole()] if group == "whole" else [R.group_lang(rx.pattern, rx.flags, k) for k in (range(1, ngroups + 1) if group == "all" else [group])]
        return bool(langs) and all(R.subset(l_, bound)[0] for l_ in langs)
    if group is not None:
        # a capture group: bounded iff its sub-language is finite (single \d)
        gl = R.group_lang(rx.pattern, rx.flags, group)
        ok, _w = R.subset(gl, R.lang("[0-9]{0,64}" if not isinstance(rx.pattern, bytes) else b"[0-9]{0,64}", 0, "fullmatch"))
        return ok
    arg = call.args[0]
    t = norm.text(arg, call)
    for lit in PC.units(PC.pc(call)):
        for pat, pos in (("len($X) != $K", False), ("len($X) == $K", True), ("len($X) > $K", False)):
            b = M.match_text(pat, lit.text)
            if b is not None and lit.pos == pos and norm.raw(b["X"]) in (t, norm.raw(arg)):
                return True
    for _t, h in K.enclosing_try_handlers(call):
        if any(x in ("ValueError", "Exception") for x in PC.handler_types(h)):
            return True
    return False


def run(chk):
    repo = chk.repo
    folder = Folder(repo)
    mod = repo.module(MOD)
    errs = http_error_classes(repo)
    chk.explanation = (
        "Decided on aiohttp/http_parser.py + web_protocol.py: each lexical gate (field name, method, version, Content-Length, status, "
        "chunk size, field value) accepts exactly the RFC 9110/9112 language (regular-language equivalence over the whole alphabet, "
        "match mode and flags included) and dominates its int()/headers.add() sink; every required rejection of the property text "
        "exists as a raise of an HttpProcessingError subclass whose path condition is implied by the offending condition alone "
        "(not weakened by lax mode or by message content); the request parser runs in strict mode with CRLF; trailers pass the "
        "header syntax checks; a parser error is mapped to 400 and the substituted message closes the connection."
    )
    chk.not_decided = "that accepted streams are split at the right byte offsets (positional arithmetic), equality with an independent RFC reader on valid messages, parity with llhttp."
    chk.explanation += " Also decided: only SP/HTAB are ever trimmed from wire text in the strict parsing path (no laundering strip before the lexical gates). After the defect hunt: the empty-body decision never depends on the parsed message's own method (a HEAD request's body is framed by its headers); control characters in the request-target and a bare LF in a complete start line are refused."
    chk.explanation += " Second hunt: an HTTP/1.0 request with Transfer-Encoding closes the connection; the chunk-extension guard's byte class covers every control byte but HTAB; the Host value is validated with the constructor request.url uses."
    chk.assumptions += ["the pure-Python parser is the one in use (C extensions not built in this tree)", "yarl/multidict semantics as tabled in DESIGN section 2"]
    hp = repo.cls(MOD, "HeadersParser")
    ph = repo.func(MOD, "HeadersParser.parse_headers")
    P = repo.cls(MOD, "HttpParser")
    fd = repo.func(MOD, "HttpParser.feed_data")
    pheaders = repo.func(MOD, "HttpParser.parse_headers")
    RP = repo.cls(MOD, "HttpRequestParser")
    pm = repo.func(MOD, "HttpRequestParser.parse_message")
    te = repo.func(MOD, "HttpRequestParser._is_chunked_te")
    pp = repo.func(MOD, "HttpPayloadParser.feed_data")

    # ------------------------------------------------------------------ C01.lex
    # 1 field name / 6 field value: sink headers.add(name, value)
    adds = K.exprs(ph, "$H.add($N, $V)")
    if not adds:
        raise AnalysisError("C01.lex: headers.add(name, value) sink not found in HeadersParser.parse_headers")
    for call, b in adds:
        cl = PC.pc(call)
        hit = None
        for lit in PC.units(cl):
            bb = M.match_text("$R.fullmatch($V)", lit.text) if lit.pos else None
            if bb is not None and norm.raw(bb["V"]) == norm.text(b["N"], call):
                hit = bb
        if hit is None:
            chk.violation("C01.lex.name", call, K.short(call), "(TOKENRE.fullmatch(name))", "field name reaches headers.add() without a token gate")
        else:
            lang_check(chk, "C01.lex.name", call, regex_of(folder, mod, hit["R"]), "fullmatch", TCHAR + "+", "field-name = token (RFC 9110 5.6.2)")
        # value: on the strict branch the forbidden-CTL search must be negative
        ok = False
        for c in cl:
            pass
        vtxt = norm.text(b["V"], call)
        ctl = None
        for n, cls in K.raises_in(ph.node):
            rcl = PC.pc(n)
            for lit in PC.units(rcl):
                bb = M.match_text("$R.search($V)", lit.text) if lit.pos else None
                if bb is not None and norm.raw(bb["V"]) == vtxt and PC.has_lit(rcl, "self._lax", False) is not None and cls in errs:
                    ctl = (n, bb)
        if ctl is None:
            chk.violation("C01.lex.value", call, K.short(call), "!(self._lax) & (_FIELD_VALUE_FORBIDDEN_CTL_RE.search(value)) -> raise",
                          "strict mode: field values are not checked for forbidden control characters before being stored")
        else:
            rx = regex_of(folder, mod, ctl[1]["R"])
            got = R.single_char_set(R.lang(rx.pattern, rx.flags, "search"))
            want = set(range(0, 9)) | set(range(10, 32)) | {127}
            if got == want:
                chk.ok("C01.lex.value", ctl[0], "forbidden field-value characters == RFC 9110 5.5 set {00-08, 0A-1F, 7F} (checked for every code point of the universe)")
                chk.exhaustive_domains.append("C01.lex.value: every code point 0..0x2FF + representatives")
            else:
                chk.violation("C01.lex.value", ctl[0], rx.pattern, f"extra={sorted(got - want)[:8]} missing={sorted(want - got)[:8]}",
                              "forbidden field-value character set differs from RFC 9110 5.5 (CR, LF, NUL and the other CTLs except HTAB)")
            # the raise must come before the sink on the strict path: sink PC contains the negated search
            if PC.has_lit(cl, "$R.search($V)", False) is not None or any(any(l.text == "self._lax" and l.pos for l in c) and any(M.match_text("$R.search($V)", l.text) and not l.pos for l in c) for c in cl):
                chk.ok("C01.lex.value", call, "headers.add() is reached in strict mode only when the forbidden-CTL search found nothing")
            else:
                chk.violation("C01.lex.value", call, K.short(call), "!(_FIELD_VALUE_FORBIDDEN_CTL_RE.search(value)) on the strict path", "the value check does not dominate the store")
    # 2 method
    rr = K.exprs(pm, "RawRequestMessage($M, ...)")
    if not rr:
        raise AnalysisError("C01.lex.method: RawRequestMessage construction not found")
    cl = PC.pc(rr[0][0])
    bb = PC.has_lit(cl, "$R.fullmatch($V)", True)
    if bb is None:
        chk.violation("C01.lex.method", rr[0][0], K.short(rr[0][0]), "(TOKENRE.fullmatch(method))", "request method is not gated by the token grammar")
    else:
        lang_check(chk, "C01.lex.method", rr[0][0], regex_of(folder, mod, bb["R"]), "fullmatch", TCHAR + "+", "method = token")
    # sweep: every int() on wire text in http_parser.py
    n_int = 0
    for fn in mod.functions.values():
        for call in prog.calls_in(fn.node):
            if not (isinstance(call.func, ast.Name) and call.func.id == "int" and call.args):
                continue
            base = 10
            if len(call.args) > 1:
                try:
                    base = folder.eval(mod, call.args[1])
                except NotConst:
                    base = None
            n_int += 1
            g = gate_of_int(call, folder)
            if g is None:
                chk.violation("C01.lex.int", call, K.short(call), "lexical gate (regex fullmatch) on the converted text",
                              "int() accepts '+5', ' 5 ', '5_0' and Unicode digits: wire text reaches it without a lexical gate", path_condition=norm.fmt_cnf(PC.pc(call)))
                continue
            rx, mode, group, _lit = g
            is_bytes = isinstance(rx.pattern, bytes)
            oracle = {10: "[0-9]+", 16: "[0-9A-Fa-f]+"}.get(base)
            if oracle is None:
                chk.violation("C01.lex.int", call, K.short(call), f"base {base}", "unexpected integer base")
                continue
            if is_bytes:
                oracle = oracle.encode()
            if group is not None:
                gl = R.group_lang(rx.pattern, rx.flags, group)
                ok, w = R.subset(gl, R.lang(oracle, 0, "fullmatch"))
                if ok:
                    chk.ok("C01.lex.int", call, f"`{K.short(call, 40)}`: group {group} of {rx.pattern!r} (flags={rx.flags}) is within {oracle!r}")
                else:
                    chk.violation("C01.lex.int", call, K.short(call), f"group {group} admits {w!r}", f"the regex group feeding int() admits {w!r} (not an ASCII digit string)")
            else:
                lang_check(chk, "C01.lex.int", call, rx, mode, oracle, f"`{K.short(call, 40)}` gate", relation="subset")
    chk.expect_count("C01.lex.int", n_int, 7, "int(<wire text>) conversions in http_parser.py")
    # version: full language
    for fnq in ("HttpRequestParser.parse_message", "HttpResponseParser.parse_message"):
        f = repo.func(MOD, fnq)
        hits = K.exprs(f, "$R.fullmatch(version)")
        if not hits:
            chk.violation("C01.lex.version", f, "VERSRE.fullmatch(version)", "version gate", f"{fnq}: HTTP-version is not matched in full")
            continue
        lang_check(chk, "C01.lex.version", hits[0][0], regex_of(folder, mod, hits[0][1]["R"]), "fullmatch", r"HTTP/[0-9]\.[0-9]", "HTTP-version = 'HTTP/' DIGIT '.' DIGIT")
    # Content-Length exact language, chunk-size exact language
    gcl = repo.func(MOD, "HttpParser.feed_data.get_content_length")
    hits = K.exprs(gcl, "$R.fullmatch($V)")
    if hits:
        lang_check(chk, "C01.lex.cl", hits[0][0], regex_of(folder, mod, hits[0][1]["R"]), "fullmatch", "[0-9]+", "Content-Length = 1*DIGIT")
        vt = norm.text(hits[0][1]["V"], hits[0][0])
        if M.match_text("$M.headers.get(hdrs.CONTENT_LENGTH)", vt) is None:
            chk.violation("C01.lex.cl", hits[0][0], K.short(hits[0][0]), "value = msg.headers.get(Content-Length)", "the gated text is not the Content-Length header value")
    else:
        chk.violation("C01.lex.cl", gcl, "DIGITS.fullmatch(length_hdr)", "gate", "Content-Length is not gated")
    hits = K.exprs(pp, "re.fullmatch($R, $V)")
    if hits:
        lang_check(chk, "C01.lex.chunk", hits[0][0], regex_of(folder, mod, hits[0][1]["R"]), "fullmatch", b"[0-9A-Fa-f]+", "chunk-size = 1*HEXDIG")
        v = hits[0][1]["V"]
        if isinstance(v, ast.Name):
            for dnode in norm.fn_defs(pp.node).def_nodes(v.id):
                val = dnode.value if isinstance(dnode, ast.Assign) else None
                if val is not None and M.contains(val, "$X.strip()"):
                    K.require_lits(chk, "C01.lex.chunk", dnode, [("self._lax", True, "whitespace around the chunk size is tolerated in lax mode only")], "chunk-size is stripped only in lax mode")
    else:
        chk.violation("C01.lex.chunk", pp, "re.fullmatch(HEXDIGITS, size_b)", "gate", "chunk size is not gated")

    # ------------------------------------------------------------------ C01.rej
    hdr_extra = DISPATCH + [("len(bname) == 0", False), ("{bname[0], bname[-1]} & $S", False), ("$R.fullmatch($N)", True)]

    def rej(rule, scope, req, classes, what, forbidden=(), extra=()):
        return K.find_rejection(chk, rule, scope, req, classes & errs if classes else errs, what, forbidden=list(forbidden), allowed_extra=hdr_extra + list(extra))

    ALL = errs
    # header syntax
    n = rej("C01.rej.nocolon", ph, [("EXCEPT(ValueError)", True, "name/value split failed")], ALL, "field line without colon")
    if n is not None:
        t = [x for x in prog.enclosing(n, (ast.Try,))]
        if not (t and M.contains(t[0].body[0], "$L.split(b':', 1)")):
            chk.violation("C01.rej.nocolon", n, K.short(n), "try: bname, bvalue = line.split(b':', 1)", "the ValueError handler does not guard the name/value split")
    rej("C01.rej.emptyname", ph, [("len($B) == 0", True, "empty field name")], ALL, "empty field name")
    n = rej("C01.rej.ows", ph, [("{$B[0], $B[-1]} & $S", True, "whitespace at either end of the field name")], ALL, "whitespace around field name")
    if n is not None:
        b = PC.has_lit(PC.pc(n), "{$B[0], $B[-1]} & $S", True)
        try:
            s = folder.eval(mod, b["S"])
        except NotConst:
            s = None
        if s is not None and set(s) >= {32, 9}:
            chk.ok("C01.rej.ows", n, "the tested set contains SP (32) and HTAB (9); first and last byte of the raw name are tested")
        else:
            chk.violation("C01.rej.ows", n, K.short(n), "{32, 9}", f"whitespace set is {s}: SP and HTAB must both be refused at both ends of the name (`Name : v` / `\\tName: v`)")
    rej("C01.rej.token", ph, [("$R.fullmatch($N)", False, "name is not a token")], ALL, "field name is not a token")
    # obs-fold only in lax mode
    cont = [d for d in norm.fn_defs(ph.node).def_nodes("continuation")]
    folds = [w for w in ast.walk(ph.node) if isinstance(w, ast.While) and norm.raw(w.test) != "line"]
    if not folds:
        chk.ok("C01.rej.obsfold", ph, "no line-folding loop exists: a folded line is a field whose name starts with SP/HTAB and is refused")
    for w in folds:
        names = {s.id for s in ast.walk(w.test) if isinstance(s, ast.Name)}
        ok = True
        for nm in names:
            entry_defs = [d for d in norm.fn_defs(ph.node).def_nodes(nm) if not any(d is x for x in ast.walk(w))]
            for d in entry_defs:
                val = getattr(d, "value", None)
                lits = norm.cnf(val, True, d) if val is not None else []
                in_lax = any(len(c) == 1 and next(iter(c)) == norm.Lit("self._lax", True) for c in lits) or PC.has_lit(PC.pc(d), "self._lax", True) is not None
                if not in_lax:
                    ok = False
                    chk.violation("C01.rej.obsfold", d, K.short(d), "self._lax as a conjunct", "obsolete line folding is honoured in strict mode: a folded line continues the previous field value")
        if ok:
            chk.ok("C01.rej.obsfold", w, "line folding is entered only under self._lax (strict mode: folded line -> name starts with SP/HTAB -> refused)")
    rej("C01.rej.ctl", ph, [("self._lax", False, "strict"), ("$R.search($V)", True, "forbidden control character in value")], ALL, "control bytes in field value (strict)")
    n = rej("C01.rej.singleton", ph, [("self._lax", False, "strict"), ("$N in $H", True, "already seen"), ("$N.lower() in SINGLETON_HEADERS", True, "singleton")], ALL,
            "duplicate singleton header", extra=[("$R.search($V)", False)])
    try:
        sing = folder.name(mod, "SINGLETON_HEADERS")
        need = {"content-length", "transfer-encoding", "host"}
        if need <= set(sing):
            chk.ok("C01.rej.singleton", ph, f"SINGLETON_HEADERS contains {sorted(need)}")
        else:
            chk.violation("C01.rej.singleton", ph, "SINGLETON_HEADERS", f"missing {sorted(need - set(sing))}", "repeated Content-Length / Transfer-Encoding / Host must be refused")
    except NotConst as e:
        raise AnalysisError(f"C01.rej.singleton: {e}")
    # TE with CL
    TE_PRESENT = [("$H.get(hdrs.TRANSFER_ENCODING) is None", False), ("hdrs.TRANSFER_ENCODING in $H", True)]
    CL_PRESENT = [("hdrs.CONTENT_LENGTH in $H", True), ("$H.get(hdrs.CONTENT_LENGTH) is None", False)]
    rej("C01.rej.tecl", P, [(TE_PRESENT, True, "Transfer-Encoding present"), (CL_PRESENT, True, "Content-Length present")], ALL,
        "Transfer-Encoding together with Content-Length", forbidden=[("self._lax", True, "lax"), ("self._lax", False, "lax")])
    # the TE+CL test must not depend on the *value* of either header
    # TE+CL must also be reached on every path of parse_headers that saw a TE header: checked via PC above (no extra literal allowed)
    # request TE
    rej("C01.rej.te2", te, [("$C > 1", True, "chunked applied twice")], ALL, "chunked applied more than once")
    g = cfg_of(te.node)
    bad_ret = [n for n in g.nodes if n.kind == "stmt" and isinstance(n.ast, ast.Return) and not (isinstance(n.ast.value, ast.Constant) and n.ast.value.value is True)]
    fall = g.find_path([g.entry], lambda n: n is g.exit, lambda n: n.kind == "stmt" and isinstance(n.ast, ast.Return), EXPLICIT)
    if bad_ret or fall is not None:
        chk.violation("C01.rej.tefinal", te, "_is_chunked_te", "only `return True` or raise", "a request Transfer-Encoding that is not a single final `chunked` gets an interpretation instead of a 400")
    else:
        rt = [n for n in g.nodes if n.kind == "stmt" and isinstance(n.ast, ast.Return)]
        K.require_lits(chk, "C01.rej.tefinal", rt[0].ast, [("$P[-1].isascii()", True, "ascii before lower()"), ("$P[-1].lower() == 'chunked'", True, "last coding is chunked")],
                       "request TE accepted only if the final coding is `chunked`") if rt else None
    # the request parser really uses these (no override)
    if "parse_headers" in RP.methods:
        chk.violation("C01.rej.tecl", RP.methods["parse_headers"], "HttpRequestParser.parse_headers", "override", "request parser overrides parse_headers (TE+CL check bypassed)")
    # head lines
    rej("C01.rej.afterclose", fd, [("self._should_close", True, "a previous message asked to close")], ALL, "data after Connection: close", extra=[("self._should_close", True)])
    rej("C01.rej.linelong", fd, [([("len(line) > $L", True), ("line_len > $L", True)], True, "complete line longer than its limit")], ALL, "start/header line too long")
    rej("C01.rej.toomany", fd, [("len(self._lines) > self.max_headers", True, "too many header lines")], ALL, "too many headers", extra=[("len(line) > $L", False)])
    TAILS = K.tail_spellings(fd, "_tail")  # the partial line is measured as it is stored, or before (on the value about to be stored)
    rej("C01.rej.barelf", fd, [([(f"b'\\n' in {t_}", True) for t_ in TAILS], True, "bare LF in a line without CRLF")], ALL, "bare LF in start line / header")
    # ... and in a *complete* start line too, otherwise `GET /a\nb HTTP/1.1` is refused only if a read happens to end between the LF and the
    # line's CRLF (header lines are covered by the control-character check of parse_headers)
    rej("C01.rej.barelf", fd, [("b'\\n' in line", True, "bare LF in a complete start line")], ALL, "bare LF in a complete start line", extra=[("self._lines", False), ("$S == b'\\n'", False)])  # strict mode: the separator is CRLF
    rej("C01.rej.taillong", fd, [([(f"len({t_}) - {t_}.endswith(b'\\r') > $L", True) for t_ in TAILS], True, "buffered partial line too long")], ALL, "buffered partial line too long",
        extra=[(f"b'\\n' in {t_}", False) for t_ in TAILS])
    # RFC 9110 9.3.6: a CONNECT request has no content - framing headers must not decide whether what follows is tunnel data or further requests
    cb = None
    for r_, cname_ in K.raises_in(fd.node):
        if cname_ not in errs:
            continue
        cl_ = PC.pc(r_, raw=True)
        if any(len(c_) == 1 and l.pos and l.text in ("method == METH_CONNECT", "msg.method == METH_CONNECT", "method == 'CONNECT'") for c_ in cl_ for l in c_) and \
                any(any("chunked" in l.text for l in c_) for c_ in cl_) and any(any(l.text.startswith("length") for l in c_) for c_ in cl_):
            cb = r_
    if cb is not None:
        chk.ok("C01.rej.connectbody", cb, "a CONNECT request that declares a body (Content-Length > 0 or Transfer-Encoding) is refused before a payload branch is chosen")
    else:
        chk.violation("C01.rej.connectbody", fd, "if method == METH_CONNECT", "and ((length is not None and length > 0) or msg.chunked): raise BadHttpMessage",
                      "feed_data() tests `has a body` before `is CONNECT`: `CONNECT remote:80` with `Content-Length: 1` reads one byte and stays in HTTP mode - after a forward proxy answered 200, what the client sends through the tunnel (`GET /admin ...`, meant for the remote) is parsed and answered by the proxy's own handlers")
    rej("C01.rej.wskey1", fd, [("hdrs.SEC_WEBSOCKET_KEY1 in $H", True, "hixie-76 key")], ALL, "Sec-WebSocket-Key1",
        extra=[("len(line) > $L", False), ("len(self._lines) > self.max_headers", False)])
    # request line
    rej("C01.rej.reqline", pm, [("EXCEPT(ValueError)", True, "request line does not have three parts")], ALL, "malformed request line",
        extra=[("VERSRE.fullmatch($V) is None", False), ("$R.fullmatch($M)", True)])
    rej("C01.rej.method", pm, [("$R.fullmatch($M)", False, "method not a token")], ALL, "method is not a token")
    rej("C01.rej.version", pm, [("$R.fullmatch(version) is None", True, "version does not match")], ALL, "bad HTTP version", extra=[("$R.fullmatch($M)", True)])
    # only HTTP/1.x is spoken: another major version is neither parsed as 1.x nor echoed in the status line (llhttp refuses it too)
    rej("C01.rej.major", pm, [([("version_o.major != 1", True), ("version_o.major == 1", False)], True, "major version is not 1")], ALL, "HTTP major version other than 1",
        extra=[("$R.fullmatch($M)", True), ("$R.fullmatch(version) is None", False)])
    rej("C01.rej.authority", pm, [("url.absolute", False, "authority-form without CONNECT")], ALL, "authority-form target without CONNECT",
        extra=[("$R.fullmatch($M)", True), ("$R.fullmatch(version) is None", False), ("$P.startswith('/')", False), ("method == 'CONNECT'", False), ("method == 'OPTIONS'", False), ("path == '*'", False)])
    rej("C01.rej.host", pm, [("version_o == HttpVersion11", True, "HTTP/1.1"), ("hdrs.HOST in $H", False, "no Host")], ALL, "missing Host in HTTP/1.1",
        extra=[("$R.fullmatch($M)", True), ("$R.fullmatch(version) is None", False)])
    # chunked body
    rej("C01.rej.chunkline", pp, [([("pos > self._max_line_size", True), ("line_len > self._max_line_size", True)], True, "chunk-size line too long")], ALL, "chunk-size line too long")
    # chunk-ext = *( BWS ";" BWS token [ "=" ( token / quoted-string ) ] ): no control byte except HTAB can occur in it.  The guard is either the
    # historical `b"\\n" in ext` (LF only: known to let NUL/CR/VT/DEL through) or a byte-class search whose class is checked here.
    ext_ok = None
    for r, cname in K.raises_in(pp.node):
        if cname not in errs:
            continue
        for l in PC.units(PC.pc(r, raw=True)):
            if not l.pos:
                continue
            b = M.match_text("$R.search($E)", l.text) or M.match_text("re.search($R, $E)", l.text)
            if b is not None and "chunk[" in norm.raw(b["E"]):
                try:
                    rx = folder.eval(mod, b["R"])
                    got = R.single_char_set(R.lang(rx.pattern, rx.flags, "search"))
                except (NotConst, AttributeError, R.Unsupported) as e:
                    chk.analysis_error(f"C01.rej.chunkext: cannot fold the chunk-extension pattern: {e}")
                    continue
                want = (set(range(0, 32)) | {127}) - {9}
                ext_ok = (r, want <= got and 9 not in got and not (got & set(range(33, 127))), sorted(want - got))
            elif M.match_text("b'\\n' in chunk[$I:$J]", l.text) is not None and ext_ok is None:
                ext_ok = (r, False, sorted((set(range(0, 32)) | {127}) - {9, 10}))
    if ext_ok is None:
        chk.violation("C01.rej.chunkext", pp, "chunk-extension", "if <CTL class>.search(ext): raise TransferEncodingError", "required rejection missing: control bytes / bare LF inside a chunk extension are accepted")
    elif ext_ok[1]:
        chk.ok("C01.rej.chunkext", ext_ok[0], "a chunk extension containing any control byte other than HTAB (LF included) is refused")
    else:
        chk.violation("C01.rej.chunkext", ext_ok[0], "chunk-extension guard", f"also refuse code points {ext_ok[2]}",
                      "only part of the control bytes is refused inside a chunk extension (`3;\\x00`, `3;a\\rb`, `3;a=\\x7f` are accepted, the body is delivered and the next pipelined request dispatched) although the same bytes in a field value get 400 and llhttp rejects them")
    rej("C01.rej.chunkhex", pp, [("re.fullmatch(HEXDIGITS, size_b)", False, "size is not hex")], ALL, "malformed chunk size", extra=[("pos > self._max_line_size", False), ("line_len > self._max_line_size", False)])
    n_lf = 0
    for n2, cls in K.raises_in(pp.node):
        clp = PC.pc(n2)
        if PC.has_lit(clp, "b'\\n' in chunk", True) is not None and cls in errs:
            st = PC.has_lit(clp, "self._chunk == $S", True)
            chk.ok("C01.rej.chunklf", n2, f"bare LF where CRLF is required is refused in state {norm.raw(st['S']) if st else '?'}")
            n_lf += 1
    if n_lf < 2:
        chk.violation("C01.rej.chunklf", pp, "if b'\\n' in chunk: raise TransferEncodingError", f"found {n_lf} of 2 (chunk-size line, trailer line)", "bare LF in a chunk-size or trailer line is buffered instead of refused")
    rej("C01.rej.chunkcrlf", pp, [([("chunk[:len($S)] == $S", False), ("chunk[$A:$B] == $S", False)], True, "no CRLF after chunk data")], ALL, "missing CRLF after chunk data",
        extra=[("chunk == $S[:len(chunk)]", False), ("len(chunk) < len($S)", False), ("$E == $S[:len($E)]", False), ("len($E) < len($S)", False)])
    rej("C01.rej.trailerlong", pp, [([("len(line) > self._max_field_size", True), ("line_len > self._max_field_size", True)], True, "trailer too long")], ALL, "trailer line too long")
    rej("C01.rej.trailers", pp, [("len(self._trailer_lines) > self._max_trailers", True, "too many trailers")], ALL, "too many trailers", extra=[("len(line) > self._max_field_size", False)])
    CTAILS = K.tail_spellings(pp, "_chunk_tail")
    rej("C01.rej.chunktail", pp, [([(f"len({t_}) - {t_}.endswith(b'\\r') > $L", True) for t_ in CTAILS], True, "buffered partial chunk-size/trailer line too long")], ALL,
        "buffered partial chunk line too long", extra=[])

    # ------------------------------------------------------------------ C01.strip
    # Between the wire bytes and the lexical gates only optional whitespace (SP / HTAB) may be trimmed in strict mode:
    # a bare .strip() / .rstrip() also removes CR, LF, VT, FF and so launders bytes the gates must see.
    n_strip = 0
    for q in ("HeadersParser.parse_headers", "HttpParser.parse_headers", "HttpRequestParser.parse_message", "HttpRequestParser._is_chunked_te", "HttpParser.feed_data", "HttpPayloadParser.feed_data"):
        f = repo.func(MOD, q)
        for c in prog.calls_in(f.node):
            if not (isinstance(c.func, ast.Attribute) and c.func.attr in ("strip", "rstrip", "lstrip")):
                continue
            n_strip += 1
            lax_only = PC.has_lit(PC.pc(c), "self._lax", True) is not None or PC.has_lit(PC.pc(c, raw=True), "SEP == b'\\n'", True) is not None
            if not c.args:
                if lax_only:
                    chk.ok("C01.strip", c, f"{q}: bare `{K.short(c, 30)}` only in lax mode")
                else:
                    chk.violation("C01.strip", c, K.short(c), "explicit argument b' \\t'", f"{q}: a bare {c.func.attr}() removes CR, LF, VT and FF as well as OWS: a field value / token ending in such a byte is silently cleaned before the control-character and framing checks see it")
                continue
            try:
                arg = folder.eval(mod, c.args[0])
            except NotConst:
                arg = None
            chars = set(arg.encode() if isinstance(arg, str) else arg) if isinstance(arg, (str, bytes)) else None
            if chars is not None and (chars <= {32, 9} or (chars == {13} and lax_only)):
                chk.ok("C01.strip", c, f"{q}: `{K.short(c, 30)}` trims only {sorted(chars)}")
            else:
                chk.violation("C01.strip", c, K.short(c), "trim set within {SP, HTAB}", f"{q}: trims {sorted(chars) if chars is not None else 'a non-constant set'}: more than optional whitespace is removed before the lexical checks")
    chk.expect_count("C01.strip", n_strip, 6, "strip calls on wire-derived text in the strict parsing path")

    # ------------------------------------------------------------------ C01.strictmode
    lax = repo.class_attr(RP, "lax")
    try:
        v = folder.eval(lax[0].module, lax[1]) if lax else None
    except NotConst:
        v = None
    if v is False:
        chk.ok("C01.strictmode", RP.node, "HttpRequestParser.lax folds to False through the MRO")
    else:
        chk.violation("C01.strictmode", RP.node, "HttpRequestParser.lax", f"folds to {v!r}", "the request parser does not run in strict mode")
    if "feed_data" in RP.methods:
        chk.violation("C01.strictmode", RP.methods["feed_data"], "HttpRequestParser.feed_data", "override", "the request parser overrides feed_data (SEP may differ from CRLF)")
    else:
        a = fd.node.args
        names = [x.arg for x in a.posonlyargs + a.args]
        dflt = dict(zip(names[len(names) - len(a.defaults):], a.defaults))
        sep = dflt.get("SEP")
        if sep is not None and isinstance(sep, ast.Constant) and sep.value == b"\r\n":
            chk.ok("C01.strictmode", fd, "default SEP of HttpParser.feed_data is b'\\r\\n' and the request parser does not override feed_data")
        else:
            chk.violation("C01.strictmode", fd, "SEP default", norm.raw(sep) if sep is not None else "none", "line separator of the request parser is not CRLF")
    rh_init = repo.func(PROTO, "RequestHandler.__init__")
    ctor = K.exprs(rh_init, "HttpRequestParser($A, ...)")
    if ctor:
        chk.ok("C01.strictmode", ctor[0][0], "RequestHandler constructs HttpRequestParser")
        # the feed_data calls in web_protocol pass no SEP
        for f in ("RequestHandler.data_received", "RequestHandler.finish_response"):
            for call, b in K.exprs(repo.func(PROTO, f), "self._parser.feed_data($D, ...)"):
                if len(call.args) > 1 or call.keywords:
                    chk.violation("C01.strictmode", call, K.short(call), "extra arguments", "the server passes a separator / extra arguments to the request parser")
    else:
        chk.violation("C01.strictmode", rh_init, "HttpRequestParser(...)", "constructor call", "RequestHandler does not construct the strict request parser")

    # ------------------------------------------------------------------ C01.trailers
    appends = K.nodes_matching(pp, "self._trailer_lines.append($L)")
    if not appends:
        chk.violation("C01.trailers", pp, "self._trailer_lines.append(line)", "trailer collection", "trailers are not collected")
    else:
        def is_complete(n):
            return n.kind == "stmt" and isinstance(n.ast, ast.Return) and M.contains(n.ast, "PayloadState.PAYLOAD_COMPLETE")
        K.must_pass(chk, "C01.trailers", pp, appends, lambda n: K.node_has(n, "self._headers_parser.parse_headers(self._trailer_lines)"),
                    "trailer lines get the header-field syntax checks before the body is reported complete", targets=is_complete,
                    construct="self._trailer_lines.append(line)", missing="self._headers_parser.parse_headers(self._trailer_lines)")
    hpc = K.exprs(repo.func(MOD, "HttpParser.__init__"), "HeadersParser($F, self.lax)")
    if hpc:
        chk.ok("C01.trailers", hpc[0][0], "the headers parser shared with the body parser is built with the class's lax flag")
    else:
        chk.violation("C01.trailers", repo.func(MOD, "HttpParser.__init__"), "HeadersParser(max_field_size, self.lax)", "lax flag", "the header syntax checker is not configured from the parser's lax flag")
    for call, b in K.exprs(fd, "HttpPayloadParser($P, ...)"):
        kw = {k.arg: norm.raw(k.value) for k in call.keywords}
        if kw.get("headers_parser") != "self._headers_parser" or kw.get("lax") != "self.lax":
            chk.violation("C01.trailers", call, K.short(call, 60), "headers_parser=self._headers_parser, lax=self.lax", "the body parser gets a different strictness than the head parser")
        else:
            chk.ok("C01.trailers", call, "body parser inherits headers_parser and lax from the head parser")

    # ------------------------------------------------------------------ C01.rej.target
    # RFC 9112 3.2: no form of request-target contains a control character; the bare-LF guard of the line splitter only looks at
    # incomplete lines, so without this gate `GET /a\nb HTTP/1.1` is accepted or rejected depending on where the read ended
    pm = repo.func(MOD, "HttpRequestParser.parse_message")
    tgt_ok = None
    for r, cname in K.raises_in(pm.node):
        if cname not in errs:
            continue
        for l in PC.units(PC.pc(r)):
            b = M.match_text("$R.search(path)", l.text) or M.match_text("re.search($R, path)", l.text)
            if b is None or not l.pos:
                continue
            try:
                rx = folder.eval(mod, b["R"])
                got = R.single_char_set(R.lang(rx.pattern, rx.flags, "search"))
            except (NotConst, AttributeError, R.Unsupported) as e:
                chk.analysis_error(f"C01.rej.target: cannot fold the request-target pattern: {e}")
                got = None
            if got is not None:
                want = set(range(0, 32)) | {127}
                tgt_ok = (r, want <= got, sorted(want - got))
    if tgt_ok is None:
        chk.violation("C01.rej.target", pm, "request-target", "if <CTL pattern>.search(path): raise InvalidURLError", "control characters (NUL, HTAB, CR, LF, DEL ...) in the request-target are accepted: they reach raw_path, the access log and anything that re-emits the target, and for LF the verdict depends on the segmentation")
    elif tgt_ok[1]:
        chk.ok("C01.rej.target", tgt_ok[0], "a request-target containing any control character (00-1F, 7F) is refused before the URL is built")
    else:
        chk.violation("C01.rej.target", tgt_ok[0], "request-target pattern", f"missing code points {tgt_ok[2]}", "some control characters are still accepted in the request-target")
    # ------------------------------------------------------------------ C01.te10
    # RFC 9112 6.1: an HTTP/1.0 request with Transfer-Encoding has faulty framing (a 1.0 hop may have framed it by other rules): whatever the
    # Connection header says, nothing may follow it on the connection
    te10_rule(chk, pm, "C01.te10", "request",
              "an HTTP/1.0 request with `Transfer-Encoding: chunked` and `Connection: keep-alive` is answered `Connection: keep-alive` and the bytes after it are dispatched as the next request: a 1.0 intermediary that framed the message by Content-Length / close disagrees about where it ends (request smuggling)")
    # ------------------------------------------------------------------ C01.rej.host
    # what BaseRequest.url builds lazily from the Host header (URL.build(authority=...)) the parser validates eagerly: an invalid Host is the
    # client's error (400), not a ValueError in whatever handler or middleware first touches request.url (500)
    WR_ = "aiohttp/web_request.py"
    lazy = [c for f in repo.cls(WR_, "BaseRequest").methods.values() for c in prog.calls_in(f.node) if norm.raw(c.func) == "URL.build" and any(k.arg == "authority" for k in c.keywords)]
    eager = []
    for c in prog.calls_in(pm.node):
        if norm.raw(c.func) == "URL.build" and [k.arg for k in c.keywords] == ["authority"] and isinstance(c.keywords[0].value, ast.Name):
            ds = norm.fn_defs(pm.node).defs.get(c.keywords[0].value.id, [])
            if any(v is not None and "hdrs.HOST" in norm.raw(v) for _d, v in ds):
                eager.append(c)
    if not lazy:
        chk.analysis_error("C01.rej.host: BaseRequest no longer builds its URL from the Host header with URL.build(authority=...)")
    elif eager and any(any(rc in ("BadHttpMessage",) for _r, rc in K.raises_in(h)) for c in eager for _t, h in K.enclosing_try_handlers(c) if "ValueError" in PC.handler_types(h) or h.type is None):
        chk.ok("C01.rej.host", eager[0], "the Host value is run through the same URL.build(authority=...) the request object uses later; its ValueError becomes BadHttpMessage (400)")
        # yarl splits (and IDNA-decodes) the authority lazily: the parser has to force what the request object reads later
        if any(isinstance(getattr(c, "parent", None), ast.Attribute) and c.parent.attr in ("host", "raw_host", "port", "explicit_port", "authority") for c in eager):
            chk.ok("C01.rej.host", eager[0], "the parser reads a component of the built URL, which forces the lazy split of the authority")
        else:
            chk.violation("C01.rej.host", eager[0], K.short(eager[0]), "URL.build(authority=host).host",
                          "URL.build(authority=...) does not look at the authority until a component is read: `Host: xn--a` (UnicodeError from the IDNA codec) or a bracketed non-address passes the parser and fails in the handler when request.url.host is read - 500 instead of 400")
    else:
        chk.violation("C01.rej.host", pm, "Host header", "try: URL.build(authority=host) except ValueError: raise BadHttpMessage",
                      "an invalid Host value (`a:b`, `a:99999999`, `[::1]x`) passes the parser and only fails as ValueError when request.url is first touched: the client gets 500 (or a middleware crashes) instead of the 400 RFC 9112 3.2 requires")
    # the Host value is `uri-host [":" port]`: whatever pattern gates it must refuse userinfo, path, query, fragment and blanks (a value like
    # `internal@public.example` or `evil.example/?x=` otherwise makes request.url name another authority than the header)
    def _predicate_gate(litsrc, arg):
        """`if not F(arg): raise` where F is a function of the module that returns False unless `<R>.fullmatch(<its parameter>)` matched:
        (regex expression, FunctionInfo) or None (fifth hunt: the gate of the Host value grew a second, non-lexical test)"""
        for cl_ in litsrc:
            for l in cl_:
                if len(cl_) != 1 or l.pos:
                    continue
                try:
                    e = ast.parse(l.text, mode="eval").body
                except SyntaxError:
                    continue
                if isinstance(e, ast.Call) and isinstance(e.func, ast.Name) and len(e.args) == 1 and norm.raw(e.args[0]) == arg:
                    r_ = repo.resolve_name(mod, e.func.id)
                    if r_ and r_[0] == "func" and len(r_[1].node.args.args) == 1:
                        hf = r_[1]
                        par = hf.node.args.args[0].arg
                        for a_ in ast.walk(hf.node):
                            if isinstance(a_, ast.Assign) and isinstance(a_.value, ast.Call) and isinstance(a_.value.func, ast.Attribute) and a_.value.func.attr == "fullmatch" \
                                    and a_.value.args and norm.raw(a_.value.args[0]) == par and isinstance(a_.targets[0], ast.Name):
                                m_ = a_.targets[0].id
                                refuses = [rt for rt in ast.walk(hf.node) if isinstance(rt, ast.Return) and isinstance(rt.value, ast.Constant) and rt.value.value is False
                                           and any(l2.pos and l2.text == f"{m_} is None" for l2 in PC.units(PC.pc(rt, raw=True)))]
                                if refuses:
                                    return a_.value.func.value, hf
        return None

    hre = None
    hpred = None
    for r, cname in K.raises_in(pm.node):
        if cname not in errs:
            continue
        b = PC.has_lit(PC.pc(r, raw=True), [("$R.fullmatch(host)", False), ("$R.fullmatch(host) is None", True), ("not $R.fullmatch(host)", True)], True)
        if b is not None:
            hre = (r, b["R"])
        else:
            pg = _predicate_gate(PC.pc(r, raw=True), "host")
            if pg is not None:
                hre, hpred = (r, pg[0]), pg[1]
    if hre is None:
        chk.violation("C01.rej.hostsyntax", pm, "Host header", "if not <uri-host[:port] pattern>.fullmatch(host): raise BadHttpMessage",
                      "the Host value is only checked by what makes yarl raise: `internal.example@public.example`, `evil.example/?x=`, `a b`, `[::1`, `:80` reach the handler with 200, and request.url then names a different authority than the header (RFC 9112 3.2 requires 400)")
    else:
        try:
            rx = folder.eval(mod, hre[1])
            import re as _re
            cre = _re.compile(rx.pattern, rx.flags)
            bad = [w for w in ("a@b", "evil.example/?x=", "a/b", "a b", "a?x", "a#x", "[::1", ":80", "", "a\\b", "[evil.com]", "[::1]x", "[a b]") if cre.fullmatch(w)]
            good = [w for w in ("example.com", "example.com:8080", "[::1]", "[::1]:80", "127.0.0.1:80", "xn--caf-dma.example", "a_b.example") if not cre.fullmatch(w)]
            if bad or good:
                chk.violation("C01.rej.hostsyntax", hre[0], "Host pattern", f"refuse {bad!r}; accept {good!r}", "the Host gate does not describe `uri-host [\":\" port]`")
            else:
                chk.ok("C01.rej.hostsyntax", hre[0], "the Host value is gated by a pattern that admits host[:port] forms and refuses userinfo, path, query, fragment, blanks and unbalanced brackets")
            # what stands between brackets is an IP-literal: the pattern can only say "hex digits, colons and dots" - that it is an address is
            # decided by the address parser, whose ValueError has to mean "refused" (F323: `[a:b]`, `[1::2::3]` reached the handler, where
            # request.url raised: 500 instead of 400)
            v6 = [c for c in prog.calls_in(hpred.node) if norm.raw(c.func) in ("IPv6Address", "ipaddress.IPv6Address", "ipaddress.ip_address", "ip_address")] if hpred is not None else []
            if v6 and any(any(x in ("ValueError", "Exception") for x in PC.handler_types(h)) and any(isinstance(rt, ast.Return) and isinstance(rt.value, ast.Constant) and rt.value.value is False for rt in ast.walk(h))
                          for c in v6 for _t, h in K.enclosing_try_handlers(c)):
                chk.ok("C01.rej.hostsyntax", v6[0], "a bracketed host is parsed as an IPv6 address; what the address parser refuses is refused")
            else:
                chk.violation("C01.rej.hostsyntax", hre[0], "Host / CONNECT authority: bracketed host", "try: IPv6Address(<what stands between the brackets>) except ValueError: return False",
                              "a bracketed host that is no IP-literal passes the lexical gate (`[a:b]`, `[1::2::3]`, `[12345::]` are hex digits and colons): the request is dispatched, request.url raises ValueError in the handler and the client gets 500 instead of the 400 that the same authority in an absolute-form target gets")
        except (NotConst, AttributeError) as e:
            chk.analysis_error(f"C01.rej.hostsyntax: cannot fold the Host pattern: {e}")
    # CONNECT takes the authority-form (RFC 9112 3.2.3): the same `uri-host[:port]` gate as the Host value, before URL.build(authority=...)
    ct = None
    for r_, cname_ in K.raises_in(pm.node):
        cl_ = PC.pc(r_, raw=True)
        if any(len(c_) == 1 and l.pos and l.text in ("method == 'CONNECT'", "method == METH_CONNECT", "method == hdrs.METH_CONNECT") for c_ in cl_ for l in c_) and (
                PC.has_lit(cl_, [("$R.fullmatch(path)", False), ("$R.fullmatch(path) is None", True)], True) is not None or _predicate_gate(cl_, "path") is not None):
            ct = r_
    if ct is not None:
        chk.ok("C01.rej.connecttarget", ct, "the CONNECT request-target is matched against the host[:port] pattern before it becomes the URL's authority")
    else:
        chk.violation("C01.rej.connecttarget", pm, "url = URL.build(authority=path, encoded=True)", "if not _HOST_RE.fullmatch(path): raise ValueError(...)",
                      "the CONNECT target is not checked to be in authority-form: `CONNECT  HTTP/1.1` (empty), `CONNECT /admin`, `CONNECT user@h:1`, `CONNECT :80` are accepted and switch the connection to tunnel mode, where `GET  HTTP/1.1` is a 400")
    # ------------------------------------------------------------------ C01.reqbody
    reqbody(chk, repo)
    # ------------------------------------------------------------------ C01.err400
    err400(chk, repo, folder, errs)
    # nothing but an HTTP protocol error can leave the request parser (shared with C10.total): otherwise malformed input is not answered 400
    from rules import C10

    chk.include(C10.run, ("C10.total.request", "C10.total.server"), ("C10.total.", "C01.err400.escape."))


def err400(chk, repo, folder, errs, rule="C01.err400"):
    for q in ("RequestHandler.data_received", "RequestHandler.finish_response"):
        f = repo.func(PROTO, q)
        calls = K.exprs(f, "self._parser.feed_data($D, ...)")
        if not calls:
            raise AnalysisError(f"{rule}: no parser feed in {q}")
        for call, _b in calls:
            ok = False
            for t, h in K.enclosing_try_handlers(call):
                types = PC.handler_types(h)
                if any(x in ("HttpProcessingError", "Exception", "BaseException") for x in types):
                    infos = list(M.find(h, "_ErrInfo(..., status=400)"))
                    if infos:
                        ok = True
                        chk.ok(rule, call, f"{q}: parser errors ({'|'.join(types)}) become an _ErrInfo with status 400")
                    break
            if not ok:
                chk.violation(rule, call, K.short(call), "except HttpProcessingError -> _ErrInfo(..., status=400)", f"{q}: a parse error is not mapped to a 400 response")
    start = repo.func(PROTO, "RequestHandler.start")
    subs = K.stmts(start, "message = ERROR")
    if subs and PC.has_lit(PC.pc(subs[0][0]), "isinstance(message, _ErrInfo)", True) is not None and M.contains(K._root(start), "HTTPBadRequest(...)"):
        chk.ok(rule, subs[0][0], "start(): an _ErrInfo is answered through HTTPBadRequest with the ERROR message substituted")
    else:
        chk.violation(rule, start, "if isinstance(message, _ErrInfo): ... message = ERROR", "substitution", "start() does not turn a queued parse error into a 400 response")
    m = repo.module(PROTO)
    e = m.consts.get("ERROR")
    okc = False
    if isinstance(e, ast.Call) and norm.raw(e.func) == "RawRequestMessage":
        fields = [f.target.id for f in repo.cls(MOD, "RawRequestMessage").node.body if isinstance(f, ast.AnnAssign)]
        if "should_close" in fields:
            i = fields.index("should_close")
            arg = e.args[i] if i < len(e.args) else next((k.value for k in e.keywords if k.arg == "should_close"), None)
            if isinstance(arg, ast.Constant) and arg.value is True:
                okc = True
    if okc:
        chk.ok(rule, (f"{PROTO}:<module>", getattr(e, "lineno", 0)), "ERROR.should_close folds to True: the connection is closed after the 400")
    else:
        chk.violation(rule, (f"{PROTO}:<module>", getattr(e, "lineno", 0)), "ERROR = RawRequestMessage(...)", "should_close=True", "the message substituted for a parse error does not close the connection")



def reqbody(chk, repo, rule="C01.reqbody"):
    """RFC 9112 6.3: whether a *request* has a body is decided by Content-Length / Transfer-Encoding alone.  "A response to HEAD has no
    body" is a rule about responses, keyed by the method of the request that was *sent* (self.method on the response parser, None on the
    request parser).  If the parsed message's own method feeds the empty-body decision, `HEAD /x` + `Content-Length: n` leaves its n body
    bytes in the stream, where they are parsed as the next request (request smuggling past any front-end that honours the length)."""
    hp = repo.func(MOD, "HttpParser.feed_data")
    defs = norm.fn_defs(hp.node).defs
    eb = [(d, v) for d, v in defs.get("empty_body", []) if v is not None]
    if not eb:
        chk.analysis_error("C01.reqbody: the `empty_body` decision of HttpParser.feed_data was not found (anchor vanished)")
        return
    seen = set()
    tainted = []

    def walk(expr, depth=0):
        for n in ast.walk(expr):
            if isinstance(n, ast.Attribute) and n.attr == "method" and norm.raw(n.value) == "msg":
                tainted.append(n)
            elif isinstance(n, ast.Call) and isinstance(n.func, ast.Name) and n.func.id == "getattr" and len(n.args) >= 2 and norm.raw(n.args[0]) == "msg" and isinstance(n.args[1], ast.Constant) and n.args[1].value == "method":
                tainted.append(n)
            elif isinstance(n, ast.Name) and n.id not in seen and depth < 4:
                seen.add(n.id)
                for _d, v in defs.get(n.id, []):
                    if v is not None:
                        walk(v, depth + 1)

    for _d, v in eb:
        walk(v)
    if tainted:
        chk.violation(rule, tainted[0], K.short(K.stmt_of(tainted[0]), 70), "self.method (the method of the request a response answers) only",
                      "the parsed message's own method feeds the empty-body decision: a HEAD request that declares a body is taken to have none, and its body bytes are parsed as the next request")
    else:
        chk.ok(rule, eb[0][0], "the empty-body decision depends on the response status and on the method of the request that was sent, never on the parsed message's own method")
