"""C14 URL dispatch follows the documented resolution rule (DESIGN 5/C14): local structural conditions."""
from __future__ import annotations

import ast

from sa import match as M, norm, pc as PC, prog, regexlang as R, rulekit as K
from sa.cfg import EXPLICIT, cfg_of
from sa.consteval import Folder, NotConst
from sa.loader import AnalysisError

MOD = "aiohttp/web_urldispatcher.py"
MW = "aiohttp/web_middlewares.py"


def run(chk):
    repo = chk.repo
    folder = Folder(repo)
    chk.explanation = (
        "Decided on web_urldispatcher.py / web_middlewares.py: in UrlDispatcher.resolve every candidate that does not match contributes its allowed "
        "methods to a *fresh* accumulator (never an alias of a resource's own set), 405 is returned iff the accumulator is non-empty and 404 otherwise; "
        "resources return an empty set only on path mismatch and their full method set on method mismatch; sub-applications forward the set of a 405; "
        "the candidate walk starts at the full path, shortens by rpartition('/'), visits '/' last and stops; the resource index has two writers and "
        "re-prefixing is unindex -> add_prefix -> index; every registered resource is indexed or listed as a matched sub-app; the value that reaches "
        "the redirect constructor passed the leading-slash collapse, whose image contains no string starting with '//'; variable segments exclude "
        "exactly '{', '}', '/'."
    )
    chk.not_decided = "that index lookup equals the documented linear rule for all route tables; url_for/_match inverse; match_info values."
    chk.explanation += " After the defect hunt: a fresh HTTPNotFound per request; matchers are built in the path_safe quoting form; domain sub-apps are not re-indexed; both domain rules lower-case the host."
    chk.explanation += " Second hunt: add_prefix() feeds the matcher the path_safe form of the prefix and sub-applications hand on the requoted prefix; the Host header is normalised like the configured domain; every METH_ALL method can be registered through RouteDef."
    ur = repo.func(MOD, "UrlDispatcher.resolve")
    # ---- accumulate ------------------------------------------------------------------------------------------
    g = cfg_of(ur.node)
    acc_defs = norm.fn_defs(ur.node).defs.get("allowed_methods", [])
    fresh = [d for d, v in acc_defs if v is not None and isinstance(v, ast.Call) and norm.raw(v.func) == "set"]
    augs = [d for d, v in acc_defs if isinstance(d, ast.AugAssign)]
    other = [d for d, v in acc_defs if d not in fresh and d not in augs]
    if fresh and not other:
        chk.ok("C14.fresh", fresh[0], "the 405 accumulator starts as a fresh set() and is only ever updated in place")
    else:
        for d in other or [ur.node]:
            chk.violation("C14.fresh", d, K.short(d) if isinstance(d, ast.AST) else "allowed_methods", "allowed_methods = set()",
                          "the accumulator of allowed methods can be bound to a set returned by a resource (its own `_allowed_methods`): the later `|=` then mutates that resource permanently, "
                          "so later 405/handler decisions depend on request history")
    resolves = [a for a in prog.awaits_in(ur.node) if M.match(M.compile_pat("$C.resolve(request)"), a.value) is not None]
    if len(resolves) < 2:
        chk.analysis_error(f"C14.accumulate: {len(resolves)} candidate resolve() awaits in UrlDispatcher.resolve (2 confirmed)")
    for a in resolves:
        st = K.stmt_of(a)
        if not (isinstance(st, ast.Assign) and isinstance(st.targets[0], ast.Tuple) and len(st.targets[0].elts) == 2):
            chk.violation("C14.accumulate", a, K.short(st), "match, allowed = await candidate.resolve(request)", "the allowed-method set of a candidate is dropped")
            continue
        mname, aname = [e.id for e in st.targets[0].elts]
        blk = PC._block_of(st)
        nxt = blk[blk.index(st) + 1] if blk.index(st) + 1 < len(blk) else None
        ok = False
        if isinstance(nxt, ast.If):
            cn = norm.cnf_raw(nxt.test, True)
            if cn == norm.cnf_raw(ast.parse(f"{mname} is not None", mode="eval").body, True):
                ret = [s for s in nxt.body if isinstance(s, ast.Return) and norm.raw(s.value) == mname]
                rest = nxt.orelse or blk[blk.index(nxt) + 1:]
                acc = [s for s in rest if isinstance(s, ast.AugAssign) and norm.raw(s.target) == "allowed_methods" and isinstance(s.op, ast.BitOr) and norm.raw(s.value) == aname]
                ok = bool(ret and acc)
        if ok:
            chk.ok("C14.accumulate", a, f"candidate `{norm.raw(a.value)[:40]}`: match -> return it; no match -> `allowed_methods |= {aname}`")
        else:
            chk.violation("C14.accumulate", a, K.short(st), f"if {mname} is not None: return {mname} else: allowed_methods |= {aname}",
                          "a candidate that matches the path but not the method does not contribute its methods: 404 instead of 405, or an incomplete Allow set")
        # the returned set must not be mutated or re-bound into the accumulator
        for n in ast.walk(ur.node):
            if isinstance(n, ast.AugAssign) and norm.raw(n.target) == aname:
                chk.violation("C14.fresh", n, K.short(n), f"no in-place update of `{aname}`", "a resource's own allowed-method set is mutated by the dispatcher")
            if isinstance(n, ast.Call) and isinstance(n.func, ast.Attribute) and norm.raw(n.func.value) == aname and n.func.attr in prog.MUTATORS:
                chk.violation("C14.fresh", n, K.short(n), f"no mutation of `{aname}`", "a resource's own allowed-method set is mutated by the dispatcher")
    r405 = [r for r in ast.walk(ur.node) if isinstance(r, ast.Return) and "HTTPMethodNotAllowed" in norm.raw(r)]
    r404 = [r for r in ast.walk(ur.node) if isinstance(r, ast.Return) and ("HTTP_NOT_FOUND" in norm.raw(r) or "HTTPNotFound" in norm.raw(r))]
    if r405 and {str(l) for l in PC.units(PC.pc(r405[0]))} == {"(allowed_methods)"} and "HTTPMethodNotAllowed(request.method, allowed_methods)" in norm.raw(r405[0]):
        chk.ok("C14.accumulate", r405[0], "405 (with the accumulated set) iff some candidate matched the path")
    else:
        chk.violation("C14.accumulate", ur, "if allowed_methods: return MatchInfoError(HTTPMethodNotAllowed(request.method, allowed_methods))", "", "405 is not decided by the accumulated allowed methods alone")
    if r404 and {str(l) for l in PC.units(PC.pc(r404[0]))} == {"!(allowed_methods)"}:
        chk.ok("C14.accumulate", r404[0], "404 only when no candidate matched the path")
    else:
        chk.violation("C14.accumulate", ur, "return MatchInfoError(self.HTTP_NOT_FOUND)", "!(allowed_methods)", "404 can be returned although a resource matched the path")
    # the exception object of a 404 is raised by the handler of that request: it must be created per request. A shared instance accumulates the
    # traceback (pinning the frames and the Request of every 404 ever served) and whatever a middleware attaches to it (e.g. a Set-Cookie)
    for r in r404:
        args = [c.args[0] for c in ast.walk(r) if isinstance(c, ast.Call) and norm.raw(c.func) == "MatchInfoError" and c.args]
        if args and all(isinstance(a, ast.Call) for a in args):
            chk.ok("C14.fresh", r, "every unmatched request gets a new HTTPNotFound instance")
        else:
            chk.violation("C14.fresh", r, K.short(r), "MatchInfoError(HTTPNotFound())", "one HTTPNotFound instance is shared by every unmatched request: each raise extends its traceback chain (unbounded growth, remotely triggerable) and state set on the caught exception by a middleware (a cookie) leaks into unrelated responses")
    # ---- resource ------------------------------------------------------------------------------------------------
    rr = repo.func(MOD, "Resource.resolve")
    rets = [r for r in ast.walk(rr.node) if isinstance(r, ast.Return)]
    spec = {"None, set()": "path mismatch", "None, self._allowed_methods": "method mismatch"}
    texts = [norm.raw(r.value) for r in rets]
    e = [r for r in rets if _t(r.value) == "None, set()"]
    m = [r for r in rets if _t(r.value) in ("None, self._allowed_methods", "None, set(self._allowed_methods)", "None, self._allowed_methods.copy()", "None, frozenset(self._allowed_methods)")]
    if e and PC.has_lit(PC.pc(e[0]), "self._match(request.rel_url.path_safe) is None", True) is not None and len(e) == 1:
        chk.ok("C14.resource", e[0], "Resource.resolve: empty set only when the path does not match")
    else:
        chk.violation("C14.resource", rr, "return None, set()", "(self._match(path) is None)", "Resource.resolve returns an empty method set although the path matched (405 becomes 404)")
    if m and PC.has_lit(PC.pc(m[0]), "self._match(request.rel_url.path_safe) is None", False) is not None:
        chk.ok("C14.resource", m[0], "Resource.resolve: full allowed-method set when only the method does not match")
    else:
        chk.violation("C14.resource", rr, "return None, self._allowed_methods", "", "Resource.resolve does not report its methods on a method mismatch")
    sr = repo.func(MOD, "StaticResource.resolve")
    e = [r for r in ast.walk(sr.node) if isinstance(r, ast.Return) and _t(r.value) == "None, set()"]
    m2 = [r for r in ast.walk(sr.node) if isinstance(r, ast.Return) and (_t(r.value) == "None, allowed_methods" or norm.text(r.value, r).replace("(", "").replace(")", "") in ("None, self._allowed_methods", "None, setself._allowed_methods"))]
    if len(e) == 1 and m2 and PC.has_lit(PC.pc(m2[0]), "request.method in self._allowed_methods", False) is not None:
        chk.ok("C14.resource", m2[0], "StaticResource.resolve: allowed methods on method mismatch, empty set only on prefix mismatch")
    else:
        chk.violation("C14.resource", sr, "return None, allowed_methods", "", "StaticResource.resolve method/prefix mismatch results changed")
    for q in ("PrefixedSubAppResource.resolve", "MatchedSubAppResource.resolve"):
        f = repo.func(MOD, q)
        if "isinstance(match_info.http_exception, HTTPMethodNotAllowed)" in norm.raw(f.node) and "match_info.http_exception.allowed_methods" in norm.raw(f.node):
            chk.ok("C14.resource", f, f"{q}: forwards the allowed methods of a sub-application's 405")
        else:
            chk.violation("C14.resource", f, q, "methods = match_info.http_exception.allowed_methods", f"{q}: the sub-application's allowed methods are lost")
    # add_route keeps _allowed_methods complete
    ar = repo.func(MOD, "Resource.register_route")
    if K.exprs(ar, "self._allowed_methods.add($M)") and K.stmts(ar, "self._routes[$M] = $R"):
        chk.ok("C14.resource", ar, "register_route adds the method to _allowed_methods together with the route")
    else:
        chk.violation("C14.resource", ar, "self._allowed_methods.add(route.method)", "", "a registered method is missing from the allowed set")
    # ---- walk --------------------------------------------------------------------------------------------------------
    w = [x for x in ast.walk(ur.node) if isinstance(x, ast.While)]
    ud = norm.fn_defs(ur.node).defs.get("url_part", [])
    texts = sorted(norm.raw(v) for _d, v in ud if v is not None)
    if w and norm.raw(w[0].test) == "url_part" and texts == ["request.rel_url.path_safe", "url_part.rpartition('/')[0] or '/'"]:
        br = [b for b in ast.walk(w[0]) if isinstance(b, ast.Break)]
        if br and PC.has_lit(PC.pc(br[0], stop=w[0]), "url_part == '/'", True) is not None:
            chk.ok("C14.walk", w[0], "candidate walk: full path first, shortened by rpartition('/'), '/' visited last, then stop")
        else:
            chk.violation("C14.walk", w[0], "if url_part == '/': break", "", "the walk does not stop after '/'")
        look = K.exprs(w[0], "resource_index.get(url_part, ())")
        if look and isinstance(K.stmt_of(look[0][0]), (ast.For,)) or look:
            chk.ok("C14.walk", look[0][0], "candidates of one index key are tried in list (registration) order")
    else:
        chk.violation("C14.walk", ur, "url_part = request.rel_url.path_safe; while url_part: ... url_part = url_part.rpartition('/')[0] or '/'", str(texts), "the longest-prefix-first walk changed")
    ms = [f for f in ast.walk(ur.node) if isinstance(f, ast.For) and norm.raw(f.iter) == "self._matched_sub_app_resources"]
    if ms and w and ms[0].lineno < w[0].lineno:
        chk.ok("C14.walk", ms[0], "matched (domain) sub-applications are consulted before the index walk")
    else:
        chk.violation("C14.walk", ur, "for resource in self._matched_sub_app_resources", "before the walk", "domain sub-applications no longer take priority")
    # ---- index ---------------------------------------------------------------------------------------------------------
    K.owners(chk, "C14.index", repo, [MOD], "_resource_index", {"UrlDispatcher.__init__": "creates", "UrlDispatcher.index_resource": "adds", "UrlDispatcher.unindex_resource": "removes"},
             "the resource index has a single pair of writers", classes=("UrlDispatcher",))
    ix = repo.func(MOD, "UrlDispatcher.index_resource")
    ux = repo.func(MOD, "UrlDispatcher.unindex_resource")
    ia = K.exprs(ix, "self._resource_index.setdefault($K, []).append(resource)")
    ua = K.exprs(ux, "self._resource_index[$K].remove(resource)")
    if ia and ua and all(norm.text(b_["K"], c_) == "self._get_resource_index_key(resource)" for c_, b_ in (ia[0], ua[0])):
        chk.ok("C14.index", ix, "index and unindex derive the key with the same function; entries are appended (registration order kept)")
    else:
        chk.violation("C14.index", ix, "index_resource / unindex_resource", "same key derivation, append / remove", "index and unindex disagree on the key or the order")
    kf = repo.func(MOD, "UrlDispatcher._get_resource_index_key")
    krets = [r for r in ast.walk(kf.node) if isinstance(r, ast.Return)]
    def _norm_key(v):
        # `<key>.rstrip('/') or '/'`, possibly passed through the quoting-form conversion `_path_safe(...)` (inside or outside)
        if isinstance(v, ast.Call) and isinstance(v.func, ast.Name) and v.func.id == "_path_safe" and len(v.args) == 1:
            return _norm_key(v.args[0])
        if M.match(M.compile_pat("$X.rstrip('/') or '/'"), v) is not None:
            return True
        return False
    badk = [r for r in krets if not _norm_key(r.value)]
    if krets and not badk:
        chk.ok("C14.index", kf, "every index key is normalised the same way (trailing slash stripped, root is '/'): plain and variable resources with the same fixed prefix share one candidate list, so registration order decides among them")
    else:
        for r in badk or [kf.node]:
            chk.violation("C14.index", r, K.short(r) if isinstance(r, ast.Return) else "_get_resource_index_key", "return <key>.rstrip('/') or '/'",
                          "some resources are indexed under a key that keeps the trailing slash: `/docs/` and `/docs/{path:.*}` land in different candidate lists and the longer key is tried first regardless of registration order")
    rg = repo.func(MOD, "UrlDispatcher.register_resource")
    gr = cfg_of(rg.node)
    apps = K.nodes_matching(rg, "self._resources.append(resource)")
    if apps:
        K.must_pass(chk, "C14.index", rg, apps, lambda n: K.node_has(n, "self.index_resource(resource)") or K.node_has(n, "self._matched_sub_app_resources.append(resource)"),
                    "every registered resource is indexed (or listed as a matched sub-application)", construct="self._resources.append(resource)", missing="self.index_resource(resource)")
    else:
        chk.violation("C14.index", rg, "self._resources.append(resource)", "", "register_resource no longer records the resource")
    ap = repo.func(MOD, "PrefixedSubAppResource._add_prefix_to_resources")
    loop = [f for f in ast.walk(ap.node) if isinstance(f, ast.For)]
    order = [norm.raw(s.value) for s in (loop[0].body if loop else []) if isinstance(s, ast.Expr)]
    if order == ["router.unindex_resource(resource)", "resource.add_prefix(prefix)", "router.index_resource(resource)"]:
        chk.ok("C14.index", loop[0], "re-prefixing a sub-application: unindex -> add_prefix -> index for every resource")
    else:
        chk.violation("C14.index", ap, "unindex_resource; add_prefix; index_resource", str(order), "a resource whose canonical path changes is left under its old index key (unreachable or wrongly reachable)")
    # ---- redirect --------------------------------------------------------------------------------------------------------
    impl = repo.func(MW, "normalize_path_middleware.impl")
    rc = [n for n, c in K.raises_in(impl.node) if c == "redirect_class"]
    if not rc:
        chk.violation("C14.redirect", impl, "raise redirect_class(request.raw_path + query)", "", "normalising redirect not found")
    else:
        r = rc[0]
        loop = K.loop_ancestors(r)
        subs = [s for s in (loop[0].body if loop else []) if isinstance(s, ast.Assign) and M.match(M.compile_pat("re.sub($P, '/', path)"), s.value) is not None]
        chk_call = [s for s in (loop[0].body if loop else []) if isinstance(s, ast.Assign) and "_check_request_resolves(request, path)" in norm.raw(s.value)]
        # what is sent: <value> + query, where <value> is the alternative request's raw_path *after* the same collapse (the clone re-quotes the
        # path through yarl, which drops what it cannot encode - a lone surrogate between two slashes - so the guard on the candidate alone
        # does not bound the Location)
        loc = r.exc.args[0] if isinstance(r.exc, ast.Call) and r.exc.args else None
        locv = norm.subst(loc, r) if loc is not None else None
        sent = locv.left if isinstance(locv, ast.BinOp) and isinstance(locv.op, ast.Add) else locv
        sent_guard = M.match(M.compile_pat("re.sub($P, '/', request.raw_path)"), sent) if sent is not None else None
        if subs and chk_call and subs[0].lineno < chk_call[0].lineno and sent is not None and norm.raw(sent) == "request.raw_path":
            chk.violation("C14.redirect", r, K.short(r), "location = re.sub('^//+', '/', request.raw_path)",
                          "the `//` guard is applied to the candidate path, but the Location is the raw_path of the cloned request, which yarl has re-quoted: `GET /\\xff/evil.com` (a raw non-UTF-8 byte, dropped by yarl) is redirected to `////evil.com/` - a scheme-relative URL on another host (the guard of GHSA-v6wp-4m6f-gcjg is bypassed)")
        elif subs and chk_call and subs[0].lineno < chk_call[0].lineno and sent_guard is not None and norm.raw(sent_guard["P"]) == norm.raw(subs[0].value.args[0]):
            pat = folder.eval(impl.module, subs[0].value.args[0])
            # image of x -> re.sub(pat, "/", x): strings still starting with '//' would have matched pat at position 0
            lang = R.lang(pat, 0, "match")
            ok1, w1 = R.subset(R.lang("//.*", re_flags(), "fullmatch"), lang)
            # what is matched is all leading slashes: pattern must be equivalent to ^/{2,}
            eq, wa, wb = R.equivalent(R.lang(pat, 0, "search"), R.lang("//.*", re_flags(), "fullmatch"))
            if ok1 and eq:
                chk.ok("C14.redirect", subs[0], f"every candidate path passes re.sub({pat!r}, '/', path) before it is cloned into the request whose raw_path is redirected to; "
                       "the pattern matches exactly the strings that start with '//' (regular-language check), so no redirect target starts with '//'")
            else:
                chk.violation("C14.redirect", subs[0], K.short(subs[0]), f"pattern {pat!r}: witness {w1!r} {wa!r} {wb!r}", "a path starting with '//' survives the collapse: the redirect points to another host (scheme-relative URL)")
            cl = repo.func(MW, "_check_request_resolves")
            if "request.clone(rel_url=path)" in norm.raw(cl.node):
                chk.ok("C14.redirect", cl, "the redirected request is the clone built from the sanitised path")
            else:
                chk.violation("C14.redirect", cl, "alt_request = request.clone(rel_url=path)", "", "the redirect target is not the sanitised candidate")
        else:
            chk.violation("C14.redirect", r, K.short(r), "path = re.sub('^//+', '/', path) before _check_request_resolves", "the redirect target does not pass the leading-slash collapse")
    # ---- segment -----------------------------------------------------------------------------------------------------------
    dr = repo.cls(MOD, "DynamicResource")
    good = dr.attrs.get("GOOD")
    if good is not None and isinstance(good, ast.Constant):
        got = R.single_char_set(R.lang(good.value.rstrip("+"), 0, "fullmatch"))
        uni = set(R.universe([R.lang(good.value, 0, "fullmatch")]))
        if uni - got == {ord("{"), ord("}"), ord("/")}:
            chk.ok("C14.segment", good, "a variable segment accepts every character except '{', '}' and '/' (checked over the whole universe)")
        else:
            chk.violation("C14.segment", good, good.value, f"excluded: {sorted(chr(c) for c in uni - got)[:8]}", "variable segments accept '/' or refuse ordinary characters")
    else:
        chk.violation("C14.segment", dr.node, "GOOD = r'[^{}/]+'", "", "variable segment pattern vanished")

    hunt_rules(chk, repo)
    hunt3_rules(chk, repo)
    hunt4_rules(chk, repo)
    hunt5_rules(chk, repo)
    round7_rules(chk, repo)


def _t(v) -> str:
    t = norm.raw(v)
    return t[1:-1] if t.startswith("(") and t.endswith(")") else t


def re_flags():
    import re

    return re.DOTALL


def hunt_rules(chk, repo):
    """Rules written after the defect hunt (DESIGN 12)."""
    # ---- C14.quoting: every matcher built from a route template is in the quoting form the request path is compared in (URL.path_safe) -----
    # canonical / url_for keep the percent-encoded text; matching against rel_url.path_safe needs the decoded-safe form, otherwise the URL that
    # url_for() returns for `/café/{name}` never resolves (url_for and resolution must be inverse)
    sites = [("DynamicResource.__init__", "re.escape("), ("PrefixResource.__init__", "self._prefix2"), ("UrlDispatcher._get_resource_index_key", "return")]
    for q, what in sites:
        f = repo.func(MOD, q)
        if any(isinstance(c, ast.Call) and isinstance(c.func, ast.Name) and c.func.id == "_path_safe" for c in ast.walk(f.node)):
            chk.ok("C14.quoting", f, f"{q}: the matcher is built from the path_safe form of the template")
        else:
            chk.violation("C14.quoting", f, what, "_path_safe(<template text>)",
                          f"{q} builds its matcher from the requoted template text but it is compared with the decoded URL.path_safe of the request: a literal part that needs percent-encoding (`/café/{{name}}`, `/my docs/...`, a static or sub-app prefix with a space or non-ASCII letter) never matches, although url_for() returns exactly that URL")
    # the same for prefixes added later (sub-applications): whatever add_prefix() puts in front of a matcher is the path_safe form, and the
    # sub-application hands its resources the requoted prefix it matches itself with
    napf = 0
    for cname in ("PlainResource", "DynamicResource"):
        ap_ = repo.cls(MOD, cname).methods.get("add_prefix")
        mt = repo.cls(MOD, cname).methods.get("_match")
        if ap_ is None or mt is None:
            continue
        napf += 1
        read = {a.attr for a in ast.walk(mt.node) if isinstance(a, ast.Attribute) and isinstance(a.value, ast.Name) and a.value.id == "self"}
        stores = [st for st in ast.walk(ap_.node) if isinstance(st, ast.Assign) and isinstance(st.targets[0], ast.Attribute) and st.targets[0].attr in read]
        if stores and all(any(isinstance(c, ast.Call) and isinstance(c.func, ast.Name) and c.func.id == "_path_safe" for c in ast.walk(st.value)) for st in stores):
            chk.ok("C14.quoting", stores[0], f"{cname}.add_prefix: the matcher (`self.{stores[0].targets[0].attr}`) gets the path_safe form of the prefix")
        elif not stores:
            # (round 6, seed C14-6: the rule used to crash here) the prefix has to reach what _match() compares the request path with
            chk.violation("C14.prefix.matcher", ap_, f"{cname}.add_prefix", "self.<matcher read by _match()> = <prefix> + ...",
                          f"{cname}.add_prefix() does not update any attribute that _match() reads ({', '.join(sorted(read)) or 'none'}): the resource is indexed and url_for() answers under the prefixed path while its matcher still matches the unprefixed one - if the prefix is applied later (on freeze), an application that was frozen before an outer add_subapp() prefixed it again never gets it: every dynamic route of a twice-nested sub-application is 404")
        else:
            at = stores[0]
            chk.violation("C14.quoting", at, K.short(at), "_path_safe(prefix)",
                          f"{cname}.add_prefix puts the quoted prefix in front of what _match() compares with the decoded URL.path_safe: under `add_subapp('/my%20docs', sub)` the sub-application is entered but none of its resources can match - `GET /my%20docs/1` is 404 although url_for() returns exactly that URL")
    chk.expect_count("C14.quoting.prefix", napf, 2, "add_prefix implementations with a matcher")
    psa = repo.func(MOD, "PrefixedSubAppResource.__init__")
    hand = [c for c in prog.calls_in(psa.node) if norm.raw(c.func) == "self._add_prefix_to_resources"]
    if hand and all(norm.raw(c.args[0]) == "self._prefix" for c in hand if c.args):
        chk.ok("C14.quoting", hand[0], "a prefixed sub-application hands its resources the requoted prefix (self._prefix), the one it resolves with itself")
    else:
        chk.violation("C14.quoting", hand[0] if hand else psa, K.short(hand[0]) if hand else "_add_prefix_to_resources", "self._add_prefix_to_resources(self._prefix)",
                      "the caller's raw spelling of the prefix reaches the sub-application's resources: with `add_subapp('/my docs', sub)` url_for() of a sub-app route yields `/my docs/1`, which is not a valid request-target (400), while the prefix resource itself answers to `/my%20docs`")
    # ---- C14.index.subapp: what was never indexed is not un-indexed -----------------------------------------------------------------------
    ap = repo.func(MOD, "PrefixedSubAppResource._add_prefix_to_resources")
    rg = repo.func(MOD, "UrlDispatcher.register_resource")
    skips_index = any(isinstance(i, ast.If) and "MatchedSubAppResource" in norm.raw(i.test) for i in ast.walk(rg.node))
    for c, _b in K.exprs(ap, "router.unindex_resource(resource)"):
        if not skips_index or PC.has_lit(PC.pc(c), "isinstance(resource, MatchedSubAppResource)", False) is not None:
            chk.ok("C14.index", c, "prefixing a nested application re-indexes only resources that register_resource() indexed (domain sub-apps are skipped)")
        else:
            chk.violation("C14.index", c, K.short(c), "!(isinstance(resource, MatchedSubAppResource))",
                          "register_resource() never indexes a MatchedSubAppResource, but _add_prefix_to_resources() un-indexes every child: `api.add_domain(...); root.add_subapp('/api', api)` raises KeyError")
    # ---- C14.domain: the Host header is brought into the form validation() gives the configured domain ------------------------------------
    def transforms(nodes):
        t = set()
        for nd in nodes:
            for c in ast.walk(nd):
                if isinstance(c, ast.Call) and isinstance(c.func, ast.Attribute):
                    if c.func.attr == "lower":
                        t.add("lower-case")
                    if c.func.attr in ("rstrip", "removesuffix") and c.args and isinstance(c.args[0], ast.Constant) and c.args[0].value == ".":
                        t.add("trailing dot dropped")
                if isinstance(c, ast.Compare) and any(isinstance(x, ast.Constant) and x.value == 80 for x in ast.walk(c)):
                    t.add("default port 80 dropped")
        return t
    dom = repo.cls(MOD, "Domain")
    conf = transforms([dom.methods["validation"].node])
    if not conf:
        chk.analysis_error("C14.domain: Domain.validation() no longer normalises the configured domain")
    for cname in ("Domain", "MaskDomain"):
        cl_ = repo.cls(MOD, cname)
        md = cl_.methods.get("match_domain")
        if md is None:
            continue
        helpers = [repo.method(cl_, c.func.attr) for c in prog.calls_in(md.node) if isinstance(c.func, ast.Attribute) and norm.raw(c.func.value) in ("self", cname, "Domain")]
        hdr = transforms([md.node] + [h.node for h in helpers if h is not None])
        miss = sorted(conf - hdr)
        if not miss:
            chk.ok("C14.domain", md, f"{cname}.match_domain normalises the Host header like validation() does the configured domain ({', '.join(sorted(conf))})")
        else:
            chk.violation("C14.domain", md, K.short(md.node.body[-1], 60), f"the normalisation of Domain.validation(): {', '.join(sorted(conf))}",
                          f"{cname}.match_domain compares the Host header without `{miss[0]}` while the configured domain went through it: `Host: WWW.Example.COM`, `Host: example.com.` or `Host: example.com:80` name the same authority but skip the domain sub-application (and its middlewares) and are dispatched by the parent")
    # ---- C14.static405: a static resource reports `path matched, method missing` only for a path that is under its prefix after normalisation --
    sr_ = repo.func(MOD, "StaticResource.resolve")
    n405 = 0
    for r in [r for r in ast.walk(sr_.node) if isinstance(r, ast.Return) and isinstance(r.value, ast.Tuple) and len(r.value.elts) == 2]:
        first, second = r.value.elts
        if not (isinstance(first, ast.Constant) and first.value is None):
            continue
        if isinstance(second, ast.Call) and norm.raw(second) == "set()":
            continue
        n405 += 1
        cl = PC.pc(r, raw=True)
        if any(any("norm_path" in l.text or "normpath" in l.text for l in c) for c in cl):
            chk.ok("C14.static405", r, "the `method not allowed here` answer of a static resource is given only after the prefix test on the normalised path")
        else:
            chk.violation("C14.static405", r, K.short(r), "after `if not norm_path.startswith(prefix + '/') and norm_path != prefix: return None, set()`",
                          "StaticResource.resolve() reports its allowed methods before it has checked that the normalised path is under the static prefix (the index only guarantees a textual prefix): `POST /static/../x` is answered 405 with `Allow: GET,HEAD` instead of 404, and the Allow set of another resource that matches the path but not the method is polluted with GET and HEAD",
                          path_condition=norm.fmt_cnf(cl)[:300])
    chk.expect_count("C14.static405", n405, 1, "`path matched, method missing` returns of StaticResource.resolve")
    # ---- C14.routedef: every method RouteDef accepts can be registered -------------------------------------------------------------------
    RD = "aiohttp/web_routedef.py"
    rg_ = repo.func(RD, "RouteDef.register")
    ud = repo.cls(MOD, "UrlDispatcher")
    ga = [c for c in prog.calls_in(rg_.node) if isinstance(c.func, ast.Name) and c.func.id == "getattr" and len(c.args) >= 2 and "add_" in norm.raw(c.args[1])]
    meths = folder_meth_all(repo)
    lacking = sorted(m for m in meths if f"add_{m.lower()}" not in ud.methods)
    if not ga:
        chk.ok("C14.routedef", rg_, "RouteDef.register does not look up per-method shortcuts dynamically")
    elif all(len(c.args) == 3 for c in ga) or not lacking:
        chk.ok("C14.routedef", ga[0], f"RouteDef.register falls back to add_route() for methods without a shortcut ({', '.join(lacking) or 'none'})")
    else:
        chk.violation("C14.routedef", ga[0], K.short(ga[0]), 'getattr(router, "add_" + method, None) with add_route() as fallback',
                      f"hdrs.METH_ALL contains {', '.join(lacking)} but UrlDispatcher has no add_{lacking[0].lower()}(): web.route('{lacking[0]}', ...) passes the METH_ALL test and add_routes() dies with AttributeError, while router.add_route('{lacking[0]}', ...) works")


def round7_rules(chk, repo):
    """Rule written after seeding round 7 (seed C14-7): within a resource the route of the request's method comes before the wildcard.
    add_route() refuses a specific method behind `*`, not `*` behind specific methods (`add_get(path, h)` then `add_view(path, View)`): a
    lookup that tries the wildcard first hands every method to it."""
    rs = repo.func(MOD, "Resource.resolve")
    looks = [x for x in ast.walk(rs.node) if isinstance(x, (ast.BoolOp, ast.Call, ast.IfExp)) and "self._any_route" in norm.raw(x) and "self._routes" in norm.raw(x)]
    looks = [x for x in looks if not any(y is not x and x in list(ast.walk(y)) for y in looks)]  # outermost
    if not looks:
        # two statements: the specific lookup has to come first
        spec = [x for x in ast.walk(rs.node) if isinstance(x, (ast.Call, ast.Subscript)) and norm.raw(x).startswith(("self._routes.get(request.method", "self._routes[request.method"))]
        anyr = [x for x in ast.walk(rs.node) if isinstance(x, ast.Attribute) and norm.raw(x) == "self._any_route"]
        if not spec or not anyr:
            chk.analysis_error("C14.method.first: the route lookup of Resource.resolve (self._routes / self._any_route) was not found")
        elif min(x.lineno for x in spec) <= min(x.lineno for x in anyr):
            chk.ok("C14.method.first", spec[0], "Resource.resolve(): the route registered for the request's method is looked up first, the wildcard is read afterwards")
        else:
            chk.violation("C14.method.first", anyr[0], K.short(K.stmt_of(anyr[0])), "self._routes.get(request.method) first", "the wildcard route is read before the route of the request's method is looked up: a `*` route registered after specific ones answers every method")
    for x in looks:
        first_any = False
        if isinstance(x, ast.BoolOp) and isinstance(x.op, ast.Or):
            first_any = "self._any_route" in norm.raw(x.values[0]) and "self._routes" not in norm.raw(x.values[0])
        elif isinstance(x, ast.IfExp):
            first_any = "self._any_route" in norm.raw(x.test) and "self._routes" not in norm.raw(x.test) and "self._any_route" in norm.raw(x.body)
        if first_any:
            chk.violation("C14.method.first", x, K.short(x), "self._routes.get(request.method, self._any_route)",
                          "the wildcard route is tried before the route of the request's method: on a resource that got `add_get(path, h)` and then `add_view(path, View)` (a `*` route may follow specific ones) GET and HEAD are answered by the view instead of `h` - the method must match, and registration order decides among equals")
        else:
            chk.ok("C14.method.first", x, "Resource.resolve(): the route registered for the request's method is looked up first, the wildcard is the fallback")


def hunt5_rules(chk, repo):
    """Rules written after the fifth defect hunt (F279-F281)."""
    # ---- C14.mount.once: a sub-application is prefixed once, and only by a parent that can still take it ----------------------------------------------
    # add_subapp() prefixes the resources of the sub-application in place (the factory does) and pre-freezes it.  Mounting an application that is
    # pre-frozen already stacks a second prefix on the same, shared resources (`/v1` and `/v2` both answer 404, only `/v2/v1/...` is served);
    # a parent that is pre-frozen itself raises only after the factory ran.  Both tests have to precede the factory call.
    asb = repo.func("aiohttp/web_app.py", "Application._add_subapp")
    fac = [c for c in prog.calls_in(asb.node) if norm.raw(c.func) == "resource_factory"]
    if not fac:
        chk.analysis_error("C14.mount.once: `resource_factory()` not found in Application._add_subapp")
    else:
        units = {(l.text, l.pos) for l in PC.units(PC.pc(K.stmt_of(fac[0]), raw=True))}
        missing = [w for w in ("subapp.pre_frozen", "self.pre_frozen") if (w, False) not in units]
        if not missing:
            chk.ok("C14.mount.once", fac[0], "_add_subapp(): the factory that prefixes the sub-application's resources runs only for a sub-application that is not mounted yet (not pre-frozen) and a parent whose router is not frozen")
        else:
            chk.violation("C14.mount.once", fac[0], K.short(fac[0]), " / ".join(f"if {m}: raise RuntimeError(...)" for m in missing) + " before resource_factory()",
                          "add_subapp() accepts an application that is mounted already (or a parent that is pre-frozen and refuses only after the factory ran): its shared resources get a second prefix in place - `add_subapp('/v1', api); add_subapp('/v2', api)` leaves both `/v1/items` and `/v2/items` at 404, url_for() answers `/v2/v1/items`; the same happens to a domain sub-app that is mounted under a prefix as well")
    # ---- C14.method.case: the duplicate-method guard looks a route up under the key it is stored under ------------------------------------------------
    ar = repo.func(MOD, "Resource.add_route")
    gets = [c for c in prog.calls_in(ar.node) if norm.raw(c.func) == "self._routes.get" and c.args]
    stores = [a for f_ in (ar, repo.func(MOD, "Resource.register_route")) for a in ast.walk(f_.node) if isinstance(a, ast.Assign) and isinstance(a.targets[0], ast.Subscript) and norm.raw(a.targets[0].value) == "self._routes"]
    ri = repo.func(MOD, "AbstractRoute.__init__")
    upper_in_route = any(isinstance(a, ast.Assign) and norm.raw(a.targets[0]) in ("self._method", "method") and ".upper()" in norm.raw(a.value) for a in ast.walk(ri.node))
    if not gets or not stores:
        chk.analysis_error("C14.method.case: the duplicate-method guard / the store of Resource.add_route was not found")
    else:
        keyed_by_route = any("route_obj.method" in norm.raw(a.targets[0].slice) or ".method" in norm.raw(a.targets[0].slice) for a in stores)
        key = norm.raw(gets[0].args[0])
        # the key may have been normalised in front of the lookup (`method = method.upper()`)
        kd = [norm.raw(v) for _d, v in norm.fn_defs(ar.node).defs.get(key, []) if v is not None] if key.isidentifier() else []
        pre = any(".upper()" in v for v in kd) and any(isinstance(a, ast.Assign) and norm.raw(a.targets[0]) == key and ".upper()" in norm.raw(a.value) and a.lineno < gets[0].lineno for a in ast.walk(ar.node))
        if keyed_by_route and upper_in_route and ".upper()" not in key and not pre:
            chk.violation("C14.method.case", gets[0], K.short(gets[0]), "self._routes.get(method.upper(), ...)",
                          f"routes are stored under the upper-cased method (AbstractRoute.__init__) but the duplicate guard looks `{key}` up as it was written: `add_route('GET', '/x', first)` followed by `add_route('get', '/x', second)` passes the guard and silently replaces the first route - GET /x is answered by another handler than the one registered first")
        else:
            chk.ok("C14.method.case", gets[0], "the duplicate-method guard looks the route up under the upper-cased method, the key it is stored under")
    # ---- C14.prefix.empty: a prefix added after freeze() goes in front of the path that was registered -------------------------------------------------
    pr = repo.cls(MOD, "PlainResource")
    fz, ap = pr.methods.get("freeze"), pr.methods.get("add_prefix")
    if fz is None or ap is None:
        chk.analysis_error("C14.prefix.empty: PlainResource.freeze / add_prefix not found")
    else:
        rewrites = [a for a in ast.walk(fz.node) if isinstance(a, ast.Assign) and any(norm.raw(t) == "self._path" for t in a.targets) and isinstance(a.value, ast.Constant) and a.value.value == "/"]
        restores = [a for a in ast.walk(ap.node) if isinstance(a, ast.Assign) and any(norm.raw(t) == "self._path" for t in a.targets) and isinstance(a.value, ast.Constant) and a.value.value == ""
                    and PC.pc(a, raw=True)]
        if not rewrites:
            chk.ok("C14.prefix.empty", fz, "freeze() does not rewrite the registered path")
        elif restores:
            chk.ok("C14.prefix.empty", restores[0], "add_prefix(): the `/` that freeze() wrote for a resource registered with the empty path is taken back before the prefix is put in front")
        else:
            chk.violation("C14.prefix.empty", ap, "self._path = prefix + self._path", "if <registered as ''> and self._path == '/': self._path = self._path_safe = ''",
                          "freeze() turns the empty path into `/`; an application is pre-frozen when it is mounted, so a prefix that is added later (a domain sub-app nested below a prefixed one) produces `<prefix>/`: `GET /pre` is 404 and `/pre/` is served, while the same route in a prefixed sub-app answers `/pre`")


def hunt4_rules(chk, repo):
    """Rules written after the fourth defect hunt (F247-F250)."""
    mod = repo.module(MOD)
    # ---- C14.quoting (url_for): a URL built with encoded=True is built from quoted text ----------------------------------------------------------------
    nq = 0
    for cname, c in mod.classes.items():
        if not any(x.name == "AbstractResource" for x in repo.mro(c)):
            continue
        for mname, m in c.methods.items():
            if mname != "url_for":
                continue
            for call in [x for x in prog.calls_in(m.node) if norm.raw(x.func) == "URL.build" and any(k.arg == "encoded" and norm.raw(k.value) == "True" for k in x.keywords)]:
                pk = next((k.value for k in call.keywords if k.arg == "path"), None)
                if pk is None:
                    continue
                nq += 1
                attrs = [a for a in ast.walk(pk) if isinstance(a, ast.Attribute) and norm.raw(a.value) == "self"]
                quoted_here = any(isinstance(x, ast.Call) and norm.raw(x.func) in ("_requote_path", "_quote_path") for x in ast.walk(pk))
                quoted_at_store = bool(attrs) and all(any(isinstance(asg, ast.Assign) and norm.raw(asg.targets[0]) == norm.raw(a) and any(isinstance(x, ast.Call) and norm.raw(x.func) in ("_requote_path", "_quote_path") for x in ast.walk(asg.value))
                                                         for k_ in repo.mro(c) for mm in k_.methods.values() for asg in ast.walk(mm.node)) for a in attrs)
                derived = any(isinstance(x, ast.Name) for x in ast.walk(pk)) and not attrs  # built from locals that the method quotes itself (DynamicResource)
                if quoted_here or quoted_at_store or derived:
                    chk.ok("C14.quoting", call, f"{cname}.url_for(): the path handed to URL.build(encoded=True) is quoted ({'here' if quoted_here else 'where it is stored' if quoted_at_store else 'piecewise'})")
                else:
                    chk.violation("C14.quoting", call, K.short(call), f"URL.build(path=_requote_path({norm.raw(pk)}), encoded=True)",
                                  f"{cname}.url_for() passes the route text as written to URL.build(encoded=True): for `/my docs`, `/what?`, `/a#b` the URL it returns is not the one the route answers (a blank in the request line, the rest read as query / fragment), while the dynamic sibling quotes its literal parts")
    chk.expect_count("C14.quoting.url_for", nq, 2, "URL.build(encoded=True) calls in url_for() of resources")
    # ---- C14.match.groups: a variable's regex may contain named groups that do not take part in the match --------------------------------------------------
    dm = repo.func(MOD, "DynamicResource._match")
    gd = [c for c in ast.walk(dm.node) if isinstance(c, (ast.DictComp, ast.For)) and "groupdict()" in norm.raw(c)]
    uq = repo.func(MOD, "_unquote_path_safe") if "_unquote_path_safe" in mod.functions else None
    handles_none = uq is not None and any(isinstance(i, ast.If) and "is None" in norm.raw(i.test) for i in ast.walk(uq.node))
    filt = any(isinstance(c, ast.DictComp) and any("is not None" in norm.raw(i) for g_ in c.generators for i in g_.ifs) for c in gd)
    if gd and (filt or handles_none):
        chk.ok("C14.match.groups", gd[0], "_match(): a named group that did not take part in the match (value None) is left out of the match info")
    else:
        chk.violation("C14.match.groups", gd[0] if gd else dm, K.short(gd[0], 70) if gd else "_match", "... for key, value in match.groupdict().items() if value is not None",
                      "a route like `/items/{ref:(?P<num>\\d+)|(?P<slug>[a-z-]+)}` matches with one of its inner groups unset: _unquote_path_safe(None) raises TypeError out of router.resolve(), and the request gets no response at all")
    ph = repo.func("aiohttp/web_request.py", "Request._prepare_hook")
    asserts = [a for a in ast.walk(ph.node) if isinstance(a, ast.Assert) and "match_info" in norm.raw(a.test)]
    if asserts:
        chk.violation("C14.match.groups", asserts[0], K.short(asserts[0]), "if match_info is None: return",
                      "any exception out of a router's resolve() leaves request._match_info unset; the 500 for it is prepared through _prepare_hook(), whose assertion fails: the error response cannot be sent and the connection is dropped")
    else:
        chk.ok("C14.match.groups", ph, "_prepare_hook(): a request that never got a match info (resolve() raised) still gets its error response")
    # ---- C14.domain.port: the default port a Host value is compared under is the request scheme's ---------------------------------------------------------------
    dom = mod.classes["Domain"]
    hard = [c for mname in ("validation", "_normalize_host", "match_domain") if mname in dom.methods for c in ast.walk(dom.methods[mname].node)
            if isinstance(c, ast.Compare) and any(isinstance(x, ast.Constant) and x.value == 80 for x in ast.walk(c))]
    mt = dom.methods["match"]
    by_scheme = any(isinstance(x, ast.Attribute) and x.attr in ("scheme", "secure") for x in ast.walk(mt.node))
    if not hard and by_scheme:
        chk.ok("C14.domain.port", mt, "Domain.match(): an absent port is the default of the request's scheme (443 over TLS), none of the helpers compares with a fixed 80")
    else:
        chk.violation("C14.domain.port", hard[0] if hard else mt, K.short(hard[0]) if hard else "Domain.match", "self.match_domain(host, 443 if request.scheme == 'https' else 80)",
                      "domain sub-applications normalise `:80` away whatever the scheme: over TLS `Host: example.com:443` misses the sub-app that `Host: example.com` reaches (same request.url), `add_domain('secure.example:443')` is unreachable with the Host a browser sends, and `plain.example:80` over https reaches a sub-app of another authority")


def hunt3_rules(chk, repo):
    """Rules written after the third defect hunt (F192-F194)."""
    # ---- C14.domain.effective: routing by host uses the host the request is addressed to --------------------------------------------------------
    # An absolute-form target carries its own authority and the Host header must be ignored (RFC 9112 3.2.2); BaseRequest does so for
    # request.host / request.url.  A routing rule that reads the Host header itself may do so only for targets that are not absolute.
    nh = 0
    mod = repo.module(MOD)
    for fn in mod.functions.values():
        for e in ast.walk(fn.node):
            direct = (isinstance(e, ast.Call) and isinstance(e.func, ast.Attribute) and e.func.attr == "get" and norm.raw(e.func.value).endswith(".headers") and e.args and norm.raw(e.args[0]) == "hdrs.HOST") or (
                isinstance(e, ast.Subscript) and norm.raw(e.value).endswith(".headers") and norm.raw(e.slice) == "hdrs.HOST")
            if not direct:
                continue
            nh += 1
            st = next(x for x in [e] + list(prog.enclosing(e, (ast.stmt,))) if isinstance(x, ast.stmt))
            cl = PC.pc(st, raw=True)
            if any(c and all(not l.pos for l in c) and any(l.text.endswith(".absolute") for l in c) for c in cl):
                chk.ok("C14.domain.effective", e, f"{fn.qualname}: the Host header is consulted only when the request-target is not in absolute-form")
            else:
                chk.violation("C14.domain.effective", e, K.short(st, 60), "url = request._message.url; if url.absolute and url.raw_host: host = url.raw_host[:explicit_port]",
                              f"{fn.qualname} routes by the Host header although the request-target may be in absolute-form: `GET http://a.example/ HTTP/1.1` with `Host: b.example` is dispatched to the sub-application of b.example while request.host / request.url say a.example")
    chk.expect_count("C14.domain.effective", nh, 1, "direct reads of the Host header in web_urldispatcher.py")
    # ---- C14.absform.root: an absolute-form target without a path asks for `/` -------------------------------------------------------------------
    WR = "aiohttp/web_request.py"
    ini = repo.func(WR, "BaseRequest.__init__")
    rels = [a for a in ast.walk(ini.node) if isinstance(a, ast.Assign) and norm.raw(a.targets[0]) == "self._rel_url" and any(l.pos and l.text.endswith(".absolute") for l in PC.units(PC.pc(a, raw=True)))]
    if not rels:
        chk.analysis_error("C14.absform.root: the `self._rel_url = ...` of the absolute-form branch of BaseRequest.__init__ was not found")
    for a in rels:
        blk = PC._block_of(a) or []
        roots = [x for st in blk[: blk.index(a)] for x in ast.walk(st) if isinstance(x, ast.Assign) and M.contains(x.value, "$U.with_path('/', ...)")
                 and any(not l.pos and l.text.endswith(".raw_path") for l in PC.units(PC.pc(x, raw=True)))]
        direct = M.contains(a.value, "$U.with_path('/', ...)")
        if (roots and any(norm.raw(r.targets[0]) == norm.raw(a.value) for r in roots)) or direct:
            chk.ok("C14.absform.root", a, "BaseRequest.__init__: the relative URL of an absolute-form target with an empty path gets the path `/`")
        else:
            chk.violation("C14.absform.root", a, K.short(a), "if not rel_url.raw_path: rel_url = rel_url.with_path('/', ...)",
                          "`GET http://example.com HTTP/1.1` (and `http://example.com?x=1`) reaches the router with the path `` instead of `/` (RFC 9110 4.2.3): the route for `/` does not match and the request gets 404 where the origin-form `GET /` gets 200")
    # ---- C14.static.rooturl: URLs are built from a prefix whose `/` is stored as `` -----------------------------------------------------------------
    nb = 0
    for cname, c in mod.classes.items():
        if not any(x.name == "PrefixResource" for x in repo.mro(c)):
            continue
        for mname, m in c.methods.items():
            for call in [x for x in prog.calls_in(m.node) if norm.raw(x.func) == "URL.build"]:
                pk = next((k.value for k in call.keywords if k.arg == "path"), None)
                if pk is None or "self._prefix" not in norm.raw(pk):
                    continue
                nb += 1
                if norm.raw(pk) == "self._prefix":
                    chk.violation("C14.static.rooturl", call, K.short(call), "URL.build(path=self._prefix or '/', encoded=True)",
                                  f"{cname}.{mname}() builds a URL from the bare prefix, which is `` for a resource mounted at `/` (the trailing slash is not stored): the URL becomes the relative `file.txt` instead of `/file.txt` and resolves against whatever page embeds it")
                else:
                    chk.ok("C14.static.rooturl", call, f"{cname}.{mname}(): `{K.short(pk, 40)}` cannot be the empty path")
    chk.expect_count("C14.static.rooturl", nb, 1, "URL.build(path=<prefix>) calls in PrefixResource subclasses")


def folder_meth_all(repo) -> set[str]:
    """The method names in hdrs.METH_ALL, read from aiohttp/hdrs.py."""
    hd = repo.module("aiohttp/hdrs.py")
    vals = {}
    for st in hd.tree.body:
        if isinstance(st, (ast.Assign, ast.AnnAssign)):
            t = st.targets[0] if isinstance(st, ast.Assign) else st.target
            v = st.value
            if isinstance(t, ast.Name) and isinstance(v, ast.Constant) and isinstance(v.value, str):
                vals[t.id] = v.value
            if isinstance(t, ast.Name) and t.id == "METH_ALL" and isinstance(v, (ast.Set, ast.Tuple, ast.List)):
                return {vals.get(e.id, e.id) for e in v.elts if isinstance(e, ast.Name)}
    raise AnalysisError("C14.routedef: hdrs.METH_ALL not found")
