"""C04 Outbound messages: field contents cannot inject structure; framing is truthful (DESIGN 5/C04)."""
from __future__ import annotations

import ast

from sa import linform as L, match as M, norm, pc as PC, prog, regexlang as R, rulekit as K
from sa.cfg import EXPLICIT, cfg_of
from sa.consteval import Folder, NotConst, RegexConst
from sa.loader import AnalysisError

HW = "aiohttp/http_writer.py"
PL = "aiohttp/payload.py"
FD = "aiohttp/formdata.py"
WRESP = "aiohttp/web_response.py"
WEXC = "aiohttp/web_exceptions.py"
REQ = "aiohttp/client_reqrep.py"
FR = "aiohttp/web_fileresponse.py"
WSW = "aiohttp/_websocket/writer.py"
CTL = set(range(0, 9)) | set(range(10, 32)) | {127}
TCHARS = set(b"!#$%&'*+-.^_`|~0123456789abcdefghijklmnopqrstuvwxyzABCDEFGHIJKLMNOPQRSTUVWXYZ")


def _leaves(e, fn, depth=0):
    """(node, safe) leaves of a str-building expression."""
    if depth > 6:
        return [(e, False)]
    if isinstance(e, ast.Constant):
        return []
    if isinstance(e, ast.BinOp) and isinstance(e.op, ast.Add):
        return _leaves(e.left, fn, depth) + _leaves(e.right, fn, depth)
    if isinstance(e, ast.Call):
        f = e.func
        if isinstance(f, ast.Name) and f.id == "_safe_header" and len(e.args) == 1:
            return [(e, True)]
        if isinstance(f, ast.Attribute) and f.attr == "encode":
            return _leaves(f.value, fn, depth)
        if isinstance(f, ast.Attribute) and f.attr == "join" and len(e.args) == 1:
            return _leaves(f.value, fn, depth) + _leaves(e.args[0], fn, depth)
    if isinstance(e, (ast.GeneratorExp, ast.ListComp)):
        return _leaves(e.elt, fn, depth)
    if isinstance(e, ast.JoinedStr):
        out = []
        for v in e.values:
            if isinstance(v, ast.FormattedValue):
                out += _leaves(v.value, fn, depth)
        return out
    if isinstance(e, (ast.List, ast.Tuple)):
        out = []
        for x in e.elts:
            out += [(x, False)] if isinstance(x, ast.Starred) else _leaves(x, fn, depth)
        return out
    if isinstance(e, ast.Name):
        ds = norm.fn_defs(fn.node).defs.get(e.id, [])
        vals = [v for _d, v in ds if v is not None]
        if len(ds) == 1 and vals:
            if isinstance(vals[0], (ast.List, ast.ListComp)):
                # a list accumulator: what is joined is what it started with plus everything that was ever put into it
                return _leaves(vals[0], fn, depth + 1) + _accumulated(e, ds[0][0], fn, depth + 1)
            return _leaves(vals[0], fn, depth + 1)
        # a parameter / loop variable: safe if a statement `_safe_header(name)` lies on every path from each of its bindings to the use
        return [(e, _checked_on_every_path(fn, e))]
    return [(e, False)]


def _accumulated(use, def_stmt, fn, depth):
    """Leaves of everything put into the list local `use.id` (defined once, by def_stmt): `.append(x)`, `.extend(xs)`, `.insert(i, x)`, `+= xs`.
    Any other occurrence of the name that could change the list (passed to a call, stored into, aliased) is an unchecked leaf."""
    out = []
    for n in ast.walk(fn.node):
        if not (isinstance(n, ast.Name) and n.id == use.id) or n is use:
            continue
        par = getattr(n, "parent", None)
        if par is def_stmt:
            continue
        call = getattr(par, "parent", None)
        if isinstance(par, ast.Attribute) and par.value is n and isinstance(call, ast.Call) and call.func is par and not call.keywords:
            if par.attr in ("append", "extend") and len(call.args) == 1 and not isinstance(call.args[0], ast.Starred):
                out += _leaves(call.args[0], fn, depth)
                continue
            if par.attr == "insert" and len(call.args) == 2 and not any(isinstance(a, ast.Starred) for a in call.args):
                out += _leaves(call.args[1], fn, depth)
                continue
        if isinstance(par, ast.AugAssign) and par.target is n and isinstance(par.op, ast.Add):
            out += _leaves(par.value, fn, depth)
            continue
        if isinstance(par, ast.Call) and n in par.args and isinstance(par.func, ast.Attribute) and par.func.attr == "join" and len(par.args) == 1:
            continue  # another read of the same kind as `use`: it changes nothing
        out.append((n, False))
    return out


def _checked_on_every_path(fn, e) -> bool:
    """No path from a binding of the name e.id (entry for a parameter, the loop head for a loop variable, the assignment otherwise) to the
    statement that uses it avoids a statement `_safe_header(<name>)`: what is written is the value that was checked."""
    g = cfg_of(fn.node)
    uses = g.nodes_of(e)
    pat = M.compile_pat(f"_safe_header({e.id})")
    safe = [n for n in g.nodes if n.kind == "stmt" and isinstance(n.ast, ast.Expr) and M.match(pat, n.ast.value) is not None]
    if not uses or not safe:
        return False
    starts = []
    for d, _v in norm.fn_defs(fn.node).defs.get(e.id, []):
        if isinstance(d, ast.arg):
            starts.append(g.entry)
        elif isinstance(d, ast.comprehension):
            return False  # bound inside an expression: no statement can stand between the binding and the use
        else:
            dn = g.nodes_of(d)
            if not dn:
                return False
            starts += dn
    if not starts or any(s in uses for s in starts):
        return False
    return g.find_path(starts, lambda n: n in uses, lambda n: n in safe, EXPLICIT) is None


def sanitise_block(chk, repo, folder, fn, rule, what):
    """Every non-literal component of the header block built by fn passes _safe_header."""
    encs = [c for c, _b in K.exprs(fn, "$S.encode(...)") if isinstance(K.stmt_of(c), (ast.Return, ast.Assign))]
    if not encs:
        raise AnalysisError(f"{rule}: header block `.encode()` not found in {fn.where}")
    n = 0
    for c in encs:
        # the codec cannot turn a character that passed the check into a control byte: an ASCII-compatible encoding, and an error handler
        # that yields bytes >= 0x80 only (surrogateescape: U+DC80..U+DCFF, the obs-text bytes the parsers decoded) or none at all
        enc_ = c.args[0].value if c.args and isinstance(c.args[0], ast.Constant) else next((k.value.value for k in c.keywords if k.arg == "encoding" and isinstance(k.value, ast.Constant)), "utf-8" if not c.args else None)
        err_ = c.args[1].value if len(c.args) > 1 and isinstance(c.args[1], ast.Constant) else next((k.value.value for k in c.keywords if k.arg == "errors" and isinstance(k.value, ast.Constant)), "strict" if len(c.args) < 2 else None)
        if str(enc_).lower().replace("_", "-") in ("utf-8", "utf8", "ascii", "latin-1", "latin1", "iso-8859-1") and err_ in ("strict", "surrogateescape"):
            chk.ok(rule, c, f"{what}: the block is encoded with {enc_}/{err_} (no character that passed the check can become CR, LF or NUL)")
        else:
            chk.violation(rule, c, K.short(c, 60), ".encode('utf-8') / .encode('utf-8', 'surrogateescape')", f"{what}: the header block is encoded with {enc_!r}/{err_!r}: the control-character check is made on the text, this codec / error handler can produce bytes it has not seen")
        for node, safe in _leaves(c, fn):
            n += 1
            if safe:
                chk.ok(rule, node, f"{what}: component `{K.short(node, 40)}` passes _safe_header")
            else:
                chk.violation(rule, node, K.short(node), "_safe_header(...)", f"{what}: `{K.short(node, 40)}` is written into the header block without the control-character check: CR/LF in it adds a header line or a second message")
    return n


def run(chk):
    repo = chk.repo
    folder = Folder(repo)
    chk.explanation = (
        "Decided structurally: every non-literal component of a serialised header block (start line, names, values; part headers) is _safe_header(x) or "
        "was passed to it by a dominating statement; _safe_header raises on exactly the RFC 9110 5.5 forbidden set {00-08,0A-1F,7F}, decided by set "
        "algebra over all code points; the writer's header buffer is only ever the output of the serialiser; FormData field name / filename / content "
        "type are sanitised before being stored; reason phrases are stored only past a CR/LF test; the request method's refused set is the complement "
        "of tchar; transport writes have a closed set of owners; every data-dependent chunk header is emitted for a non-empty chunk and carries len() "
        "of the element that follows it; terminators are emitted only on EOF paths; length accounting precedes emission; chunked header <=> chunked "
        "writer and headers flushed once (shared with C02); multipart declared size == bytes written (shared with C19)."
    )
    chk.not_decided = "that a payload's size equals what its write() produces for file / iterable payloads; under-run of a declared length by the application."
    chk.explanation += " Also decided: every write_with_length implementation truncates to the remaining declared length; body data reaches the payload writer only when the response may have a body (HEAD/1xx/204/304 get none). After the defect hunt: the stream compressor is not enabled on body-less responses; TextIOPayload declares a size only under the codec it writes with."
    chk.explanation += " Round 4 / second hunt: write_eof() obeys the declared length and counts bytes like write(); a handler-supplied Transfer-Encoding: chunked selects chunked framing; a reported size of 0 is not `unknown`; multipart size/write act on the encodings recorded at append time."
    mod = repo.module(HW)
    ser = repo.func(HW, "_py_serialize_headers")
    n = sanitise_block(chk, repo, folder, ser, "C04.san.block", "HTTP header block")
    n += sanitise_block(chk, repo, folder, repo.func(PL, "Payload._binary_headers"), "C04.san.block", "multipart part header block")
    chk.expect_count("C04.san.block", n, 5, "header block components")
    # ---- san.fn --------------------------------------------------------------------------------------------------
    sh = repo.func(HW, "_safe_header")
    rej = K.find_rejection(chk, "C04.san.fn", sh, [("$R.search(string) is None", False, "forbidden character present")], {"ValueError"}, "control characters are refused", strict_extra=True, allowed_extra=[])
    if rej is not None:
        b = PC.has_lit(PC.pc(rej), "$R.search(string) is None", False)
        rx = folder.eval(mod, b["R"])
        got = R.single_char_set(R.lang(rx.pattern, rx.flags, "search"))
        if got == CTL:
            chk.ok("C04.san.fn", rej, "forbidden set == {00-08, 0A-1F, 7F}: contains CR, LF, NUL; not HTAB (every code point of the universe classified)")
            chk.exhaustive_domains.append("C04.san.fn: every code point 0..0x2FF + representatives beyond")
        else:
            chk.violation("C04.san.fn", rej, rx.pattern, f"extra={sorted(got - CTL)[:6]} missing={sorted(CTL - got)[:6]}", "the sanitiser's character set differs from RFC 9110 5.5: some control character passes into the header block")
    rets = [r for r in ast.walk(sh.node) if isinstance(r, ast.Return)]
    if rets and all(norm.raw(r.value) == "string" for r in rets):
        chk.ok("C04.san.fn", rets[0], "_safe_header returns its argument unchanged (what was checked is what is written)")
    else:
        chk.violation("C04.san.fn", sh, "return string", "", "_safe_header returns something other than the checked string")
    # ---- san.buf ---------------------------------------------------------------------------------------------------------
    for fn, hits in prog.writers(repo, [HW], "_headers_buf").items():
        for node, kind in hits:
            st = K.stmt_of(node)
            val = st.value if isinstance(st, (ast.Assign, ast.AnnAssign)) else None
            vt = norm.text(val, st) if val is not None else ""
            if val is not None and (isinstance(val, ast.Constant) and val.value is None or vt == "_serialize_headers(status_line, headers)"):
                chk.ok("C04.san.buf", st, f"{fn.qualname}: _headers_buf = {'None' if 'None' in norm.raw(val) else 'the serialiser output'}")
            else:
                chk.violation("C04.san.buf", st, K.short(st), "None | _serialize_headers(status_line, headers)", "bytes that did not come from the sanitising serialiser are sent as the header block")
    bind = mod.consts.get("_serialize_headers")
    if bind is not None and norm.raw(bind) in ("_py_serialize_headers", "_c_serialize_headers"):
        chk.ok("C04.san.buf", (f"{HW}:<module>", bind.lineno), "_serialize_headers is bound to the Python serialiser (the C one only when extensions are built)")
    else:
        chk.violation("C04.san.buf", (f"{HW}:<module>", 0), "_serialize_headers = _py_serialize_headers", "", "the serialiser binding changed")
    # ---- san.form ------------------------------------------------------------------------------------------------------------
    af = repo.func(FD, "FormData.add_field")
    g = cfg_of(af.node)
    apps = K.nodes_matching(af, "self._fields.append($T)")
    for var, cond in (("name", None), ("filename", "filename is None"), ("content_type", "content_type is None")):
        safe = K.nodes_matching(af, f"_safe_header({var})")
        if not safe:
            chk.violation("C04.san.form", af, f"_safe_header({var})", "", f"FormData.add_field: `{var}` is stored in a part header without the control-character check")
            continue
        # every path to the append on which var is used (not None) passes the check
        uses = [n for n in g.nodes if n.in_finally_copy is None and any(K.node_has(n, p) for p in (f"type_options['{var}'] = {var}", f"headers[hdrs.CONTENT_TYPE] = {var}", f"MultiDict({{'name': {var}}})"))]
        p = g.find_path([g.entry], lambda n: n in uses, lambda n: n in safe, EXPLICIT) if uses else None
        if uses and p is None:
            chk.ok("C04.san.form", safe[0].ast, f"FormData.add_field: `{var}` passes _safe_header before it is put into the part headers")
        else:
            chk.violation("C04.san.form", af, f"_safe_header({var})", "before use", f"FormData.add_field: `{var}` reaches the part headers unchecked", path=g.fmt_path(p) if p else "use site not found")
    # ---- reason ------------------------------------------------------------------------------------------------------------------
    for rel, q, attr in ((WRESP, "StreamResponse._set_status", "_reason"), (WEXC, "HTTPException.__init__", "_reason")):
        f = repo.func(rel, q)
        rj = [n for n, c in K.raises_in(f.node) if c == "ValueError" and any({str(l) for l in cl} == {"('\\r' in reason)", "('\\n' in reason)"} for cl in PC.pc(n, raw=True))]
        if rj and PC.has_lit(PC.pc(rj[0], raw=True), "reason is None", False) is not None:
            chk.ok("C04.reason", rj[0], f"{q}: a caller-supplied reason containing CR or LF is refused")
        else:
            chk.violation("C04.reason", f, "elif '\\r' in reason or '\\n' in reason: raise ValueError", "", f"{q}: CR/LF in the reason phrase is accepted (status line injection; only the serialiser would stop it)")
    w = {f.qualname for f in prog.writers(repo, [WRESP], "_reason") if f.qualname.split(".")[0] in ("StreamResponse", "Response")}
    if w <= {"StreamResponse._set_status", "StreamResponse.__init__"}:
        chk.ok("C04.reason", repo.func(WRESP, "StreamResponse._set_status"), f"StreamResponse._reason is written only by {sorted(w)}")
    else:
        chk.violation("C04.reason", repo.func(WRESP, "StreamResponse._set_status"), "_reason", f"writers {sorted(w)}", "the reason phrase can be set without the CR/LF check")
    # ---- method -------------------------------------------------------------------------------------------------------------------
    ci = repo.func(REQ, "ClientRequestBase.__init__")
    mr = [n for n, c in K.raises_in(ci.node) if c == "ValueError" and PC.has_lit(PC.pc(n), "$R.search(method)", True) is not None]
    if mr:
        b = PC.has_lit(PC.pc(mr[0]), "$R.search(method)", True)
        rx = folder.eval(repo.module(REQ), b["R"])
        lang = R.lang(rx.pattern, rx.flags, "search")
        uni = set(R.universe([lang]))
        refused = R.single_char_set(lang)
        if uni - refused == TCHARS:
            chk.ok("C04.method", mr[0], "request method: the refused character set is exactly the complement of tchar (space, CTLs, separators, non-ASCII all refused)")
        else:
            chk.violation("C04.method", mr[0], rx.pattern, f"accepted non-tchars: {sorted(chr(c) for c in (uni - refused) - TCHARS)[:8]}", "a method with a non-token character (space, CR, LF) is accepted: request line injection")
        sm = [s for s in ast.walk(ci.node) if isinstance(s, ast.Assign) and norm.raw(s.targets[0]) == "self.method"]
        if sm and mr[0].lineno < sm[0].lineno:
            chk.ok("C04.method", sm[0], "the check precedes the store of self.method")
    else:
        chk.violation("C04.method", ci, "if _CONTAINS_CONTROL_CHAR_RE.search(method): raise ValueError", "", "the request method is not validated")
    # ---- owner --------------------------------------------------------------------------------------------------------------------
    allowed = {(HW, "StreamWriter._write"), (HW, "StreamWriter._writelines"), (WSW, "WebSocketWriter._write_websocket_frame")}
    nown = 0
    for m in repo.all_modules():
        if m.rel.endswith(("test_utils.py", "pytest_plugin.py")):
            continue
        for fn in m.functions.values():
            for c in prog.calls_in(fn.node):
                if isinstance(c.func, ast.Attribute) and c.func.attr in ("write", "writelines") and norm.raw(c.func.value).endswith("transport"):
                    nown += 1
                    if (m.rel, fn.qualname) in allowed:
                        chk.ok("C04.owner", c, f"{fn.qualname} is an owner of transport writes")
                    else:
                        chk.violation("C04.owner", c, K.short(c), f"writer {m.rel}:{fn.qualname}", "bytes are written to the transport outside the framing writers (they bypass chunk framing, length accounting and header sanitising)")
    chk.expect_count("C04.owner", nown, 7, "transport.write/writelines call sites")
    sf = [(m.rel, fn.qualname, c) for m in repo.all_modules() for fn in m.functions.values() for c in prog.calls_in(fn.node) if isinstance(c.func, ast.Attribute) and c.func.attr == "sendfile"]
    if sf and all(r == FR and q == "FileResponse._sendfile" for r, q, _c in sf):
        chk.ok("C04.owner", sf[0][2], "sendfile is used only by FileResponse._sendfile")
    else:
        for r, q, c in sf:
            if not (r == FR and q == "FileResponse._sendfile"):
                chk.violation("C04.owner", c, K.short(c), f"{r}:{q}", "sendfile used outside FileResponse._sendfile")
    # ---- chunk ---------------------------------------------------------------------------------------------------------------------
    sw = repo.cls(HW, "StreamWriter")
    nhex = 0
    for name, m in sw.methods.items():
        for js in [j for j in ast.walk(m.node) if isinstance(j, ast.JoinedStr)]:
            fv = [v for v in js.values if isinstance(v, ast.FormattedValue) and isinstance(v.format_spec, ast.JoinedStr) and norm.raw(v.format_spec) == "f'x'"]
            if not fv:
                continue
            nhex += 1
            val = fv[0].value
            tup = next((t for t in prog.enclosing(js, (ast.Tuple,))), None)
            pre_name = None
            st = K.stmt_of(js)
            if isinstance(st, ast.Assign) and isinstance(st.targets[0], ast.Name):
                pre_name = st.targets[0].id
            if isinstance(val, ast.Call) and norm.raw(val.func) == "len":
                x = norm.raw(val.args[0])
                nonempty = PC.has_lit(PC.pc(js, raw=True), x, True) is not None or name == "_write_chunked_payload"
                # the element following the prefix in the emitted tuple is x
                follows = False
                if tup is not None:
                    el = [norm.raw(e) for e in tup.elts]
                    idx = next((i for i, e in enumerate(tup.elts) if js in ast.walk(e)), None)
                    follows = idx is not None and idx + 1 < len(el) and el[idx + 1] == x
                elif pre_name:
                    for t in [t for t in ast.walk(m.node) if isinstance(t, ast.Tuple)]:
                        el = [norm.raw(e) for e in t.elts]
                        if pre_name in el and el.index(pre_name) + 1 < len(el) and el[el.index(pre_name) + 1] == x:
                            follows = True
                if name == "_write_chunked_payload":
                    # non-emptiness is established at every call site
                    sites = prog.call_sites(repo, m, [HW])
                    nonempty = bool(sites) and all(PC.has_lit(PC.pc(s, raw=True), norm.raw(s.args[0]), True) is not None for s in sites)
                if nonempty and follows:
                    chk.ok("C04.chunk", js, f"{name}: chunk header `{norm.raw(js)[:30]}` is emitted only for a non-empty `{x}` and `{x}` follows it")
                else:
                    chk.violation("C04.chunk", js, norm.raw(js)[:60], f"({x}) non-empty={nonempty}; followed by {x}={follows}",
                                  f"{name}: a zero-length chunk header is the body terminator: emitting it for empty data ends the message early / the length does not describe the bytes that follow")
            else:
                # summed prefix (compressed EOF path)
                v = norm.raw(val)
                asserts = [a for a in ast.walk(m.node) if isinstance(a, ast.Assert) and norm.raw(a.test) == v and a.lineno < js.lineno]
                adds = [a for a in ast.walk(m.node) if isinstance(a, (ast.Assign, ast.AugAssign)) and norm.raw(a.targets[0] if isinstance(a, ast.Assign) else a.target) == v]
                srcs = sorted(norm.raw(a.value) for a in adds)
                apps = sorted(norm.raw(c.args[0]) for c in ast.walk(m.node) if isinstance(c, ast.Call) and norm.raw(c.func) == "chunks.append")
                lens = sorted(s[4:-1] for s in srcs if s.startswith("len("))
                if asserts and lens == apps:
                    chk.ok("C04.chunk", js, f"{name}: summed chunk header `{v}` = sum of len() of exactly the appended elements {apps}, asserted non-zero")
                else:
                    chk.violation("C04.chunk", js, norm.raw(js)[:60], f"sum of {lens} vs appended {apps}; assert={bool(asserts)}", f"{name}: the chunk header does not equal the bytes spliced after it")
    chk.expect_count("C04.chunk", nhex, 5, "data-dependent chunk headers")
    # terminators
    nterm = 0
    for name, m in sw.methods.items():
        for c in [c for c in ast.walk(m.node) if isinstance(c, ast.Constant) and isinstance(c.value, bytes) and c.value.endswith(b"0\r\n\r\n")]:
            nterm += 1
            if name in ("write_eof", "set_eof"):
                chk.ok("C04.chunk.term", c, f"{name}: terminator emitted on an end-of-message path")
            elif name == "_send_headers_with_payload" and PC.has_lit(PC.pc(c, raw=True), "is_eof", True) is not None:
                chk.ok("C04.chunk.term", c, f"{name}: terminator only under is_eof")
            else:
                chk.violation("C04.chunk.term", c, repr(c.value), f"in {name}", "the chunked terminator is emitted on a path that does not end the message")
    chk.expect_count("C04.chunk.term", nterm, 7, "terminator literals")
    sp = sw.methods["_send_headers_with_payload"]
    for s in prog.call_sites(repo, sp, [HW]):
        arg = norm.raw(s.args[1]) if len(s.args) > 1 else ""
        if arg == "True" and s.fn.name != "write_eof":
            chk.violation("C04.chunk.term", s, K.short(s), "is_eof=True only from write_eof", "a non-final write emits the terminator")
        else:
            chk.ok("C04.chunk.term", s, f"{s.fn.name}: is_eof={arg}")
    # after EOF nothing is written: write_eof/set_eof latch
    for q in ("write_eof", "set_eof"):
        f = sw.methods[q]
        first = [s for s in f.node.body if not (isinstance(s, ast.Expr) and isinstance(s.value, ast.Constant))][0]
        if isinstance(first, ast.If) and norm.raw(first.test) == "self._eof" and isinstance(first.body[0], ast.Return):
            chk.ok("C04.chunk.term", first, f"{q}(): a second call is a no-op (terminator written once)")
        else:
            chk.violation("C04.chunk.term", f, "if self._eof: return", "first statement", f"{q}(): the terminator can be written twice")
    # ---- length -----------------------------------------------------------------------------------------------------------------------
    wr = sw.methods["write"]
    gw = cfg_of(wr.node)
    emits = [n for n in gw.nodes if any(K.node_has(n, p) for p in ("self._write($C)", "self._write_chunked_payload($C)", "self._send_headers_with_payload($C, $E)"))]
    lt = [n for n in gw.nodes if n.kind == "test" and norm.raw(n.ast) == "self.length is not None"]
    if emits and lt and gw.find_path([gw.entry], lambda n: n in emits, lambda n: n in lt, EXPLICIT) is None:
        chk.ok("C04.length", lt[0].ast, f"write(): all {len(emits)} emission sites are reached only through the declared-length accounting (truncation to Content-Length)")
    else:
        chk.violation("C04.length", wr, "if self.length is not None: ...", "before every emission", "body bytes can be emitted without being charged against the declared length (more bytes than Content-Length)")
    tr = [s for s in ast.walk(wr.node) if isinstance(s, ast.Assign) and norm.raw(s) == "chunk = chunk[:self.length]"]
    # the cut is made exactly when the chunk is longer than what is left: `self.length < len(chunk)` in either operand order (`>=` / `<=` reach the
    # path condition as the negated strict comparison), the length taken from the chunk directly or through a local (resolved to its definition)
    if tr and PC.has_lit(PC.pc(tr[0]), [("self.length < $N", True), ("$N > self.length", True)], True, {"N": ast.parse("len(chunk)", mode="eval").body}) is not None:
        chk.ok("C04.length", tr[0], "a chunk longer than the remaining declared length is truncated to it")
    else:
        chk.violation("C04.length", wr, "chunk = chunk[:self.length]", "when length < len(chunk)", "excess body bytes are not truncated")
    # the payload side of the same promise: write_with_length(writer, n) never hands more than n bytes to the writer (on the client the
    # StreamWriter has no declared length of its own, so this slice is the only thing that keeps the body within Content-Length)
    plm = repo.module(PL)
    n_cap = 0
    for cls in plm.classes.values():
        fn = cls.methods.get("write_with_length")
        if fn is None:
            continue
        args = [a.arg for a in fn.node.args.args]
        if len(args) < 3:
            continue
        wname, lname = args[1], args[2]
        aliases = {lname} | {k for k, ds in norm.fn_defs(fn.node).defs.items() if any(v is not None and norm.raw(v) == lname for _d, v in ds)}
        writes = [c for c in prog.calls_in(fn.node) if norm.raw(c.func) == f"{wname}.write"]
        if not writes:
            if cls.name == "Payload" and K.exprs(fn, f"self.write({wname})"):
                chk.ok("C04.length", fn, "Payload.write_with_length: base-class default for subclasses that do not override it (delegates to write(); documented as unconstrained)")
            continue
        for c in writes:
            n_cap += 1
            unlimited = PC.has_lit(PC.pc(c), [(f"{a} is None", True) for a in sorted(aliases)], True) is not None
            x = c.args[0] if c.args else None
            capped = isinstance(x, ast.Subscript) and isinstance(x.slice, ast.Slice) and x.slice.lower is None and x.slice.upper is not None and norm.raw(x.slice.upper) in aliases
            if unlimited or capped:
                chk.ok("C04.length", c, f"{cls.name}.write_with_length: `{K.short(c, 50)}` " + ("only when no length was declared" if unlimited else "truncated to the remaining declared length"))
            else:
                chk.violation("C04.length", c, K.short(c), f"{wname}.write(<data>[:{sorted(aliases)[0]}]) | under `{lname} is None`",
                              f"{cls.name}.write_with_length hands a chunk to the writer without truncating it to the remaining declared length: a read that returns more bytes than asked for (text-mode files count characters; the first read is uncapped when the remainder is 0) puts surplus bytes on the connection after the declared body")
    chk.expect_count("C04.length", n_cap, 7, "writer.write calls in write_with_length implementations")
    bodiless(chk, repo)
    ioloop(chk, repo)
    hunt2_rules(chk, repo)
    hunt3_rules(chk, repo)
    hunt4_rules(chk, repo)
    hunt5_rules(chk, repo)
    round7_rules(chk, repo)
    from rules import C19 as _C19

    _C19.textsize(chk, repo, "C04.length")
    # ---- shared ------------------------------------------------------------------------------------------------------------------------
    from rules import C02, C19

    chk.include(C02.run, ("C02.chunkpair", "C02.flushonce", "C02.file.chunked"), ("C02.", "C04."))
    chk.include(C19.run, ("C19.size",), ("C19.", "C04.multipart."))


def bodiless(chk, repo, rule="C04.bodiless"):
    """A response that must not have a body (HEAD, 1xx, 204, 304: StreamResponse._must_be_empty_body) gets no framing at all: neither
    chunking nor a usable length.  Every byte handed to the payload writer for such a response lands raw between this response's head
    and the next response.  So every call that hands *data* to the payload writer from the response classes is gated by the flag."""
    n = 0
    for rel, cname in ((WRESP, "StreamResponse"), (WRESP, "Response")):
        cls = repo.cls(rel, cname)
        for m in cls.methods.values():
            for c in prog.calls_in(m.node):
                f = norm.raw(c.func)
                # (round 7) the body may be held in a local: `body = self._body ... await body.write(self._payload_writer)`
                if isinstance(c.func, ast.Attribute) and isinstance(c.func.value, ast.Name) and c.func.attr == "write" and any(
                        v is not None and norm.raw(v) == "self._body" for _d, v in norm.fn_defs(m.node).defs.get(c.func.value.id, [])):
                    f = "self._body.write"
                if f not in ("self._payload_writer.write", "self._payload_writer.write_eof", "self._body.write", "super().write_eof"):
                    continue
                data = [a for a in c.args if not (isinstance(a, ast.Constant) and not a.value)]
                if f == "self._body.write":
                    data = [c]
                if not data:
                    continue  # write_eof() without data only finishes the message
                n += 1
                gated = PC.has_lit(PC.pc(c), "self._must_be_empty_body", False) is not None
                # data known to be empty on this path (`if self._must_be_empty_body: data = b""`)
                if not gated and isinstance(data[0], ast.Name):
                    g = cfg_of(m.node)
                    node = next((x for x in g.nodes if x.in_finally_copy is None and any(y is c for y in K.node_calls(x))), None)
                    tests = [x for x in g.nodes if x.kind == "test" and "_must_be_empty_body" in norm.raw(x.ast)]
                    clears = [x for x in g.nodes if x.kind == "stmt" and isinstance(x.ast, ast.Assign) and norm.raw(x.ast.targets[0]) == data[0].id and isinstance(x.ast.value, ast.Constant) and not x.ast.value.value]
                    if node is not None and tests and clears and g.find_path(None, lambda x: x is node, lambda x: x in clears, EXPLICIT, [(t, "T") for t in tests]) is None:
                        gated = True
                if gated:
                    chk.ok(rule, c, f"{cname}.{m.name}(): `{K.short(c, 50)}` hands body data to the writer only when the response may have a body")
                else:
                    chk.violation(rule, c, K.short(c), "!(self._must_be_empty_body)",
                                  f"{cname}.{m.name}() hands body data to the payload writer of a response that must not have a body (HEAD, 1xx, 204, 304): the bytes are written raw after the header block and are read by the peer as the start of the next response")
    chk.expect_count(rule, n, 4, "calls handing body data to the payload writer in the response classes")
    # the writer's own compressor emits a header and a trailer block at write_eof() even if no data was written: it must not be switched on for
    # a response that may not have a body
    sr = repo.cls(WRESP, "StreamResponse")
    for m in sr.methods.values():
        for c in prog.calls_in(m.node):
            if norm.raw(c.func) == "self._payload_writer.enable_compression":
                if PC.has_lit(PC.pc(c), "self._must_be_empty_body", False) is not None:
                    chk.ok(rule, c, f"StreamResponse.{m.name}(): the writer's compressor is enabled only when the response may have a body")
                else:
                    chk.violation(rule, c, K.short(c, 60), "!(self._must_be_empty_body)",
                                  f"StreamResponse.{m.name}() enables the stream compressor on HEAD / 204 / 304 responses: write_eof() flushes it and 8 (deflate) or 20 (gzip) unframed bytes follow the header block, in front of the next response on the connection")


def ioloop(chk, repo, rule="C04.ioloop"):
    """A file-like body is streamed until read() returns nothing: the only earlier exits are `the known size was written` and `the declared
    length is used up`.  (io.RawIOBase.read(n) may return fewer than n bytes long before EOF - pipes, sockets, unbuffered files - so the
    length of one read says nothing about the end.)"""
    plm = repo.module(PL)
    n = 0
    for cls in plm.classes.values():
        fn = cls.methods.get("write_with_length")
        if fn is None:
            continue
        loops = [w for w in ast.walk(fn.node) if isinstance(w, ast.While) and isinstance(w.test, ast.Name)
                 and any(isinstance(c, ast.Call) and "_read" in norm.raw(c) for c in ast.walk(w))]
        for w in loops:
            data = w.test.id
            largs = [a.arg for a in fn.node.args.args]
            lname = largs[2] if len(largs) > 2 else "content_length"
            size_names = {lname, "available_len"} | {k for k, ds in norm.fn_defs(fn.node).defs.items() if any(v is not None and norm.raw(v) == lname for _d, v in ds)}
            exits = [x for x in ast.walk(w) if isinstance(x, (ast.Return, ast.Break)) and next(iter(K.loop_ancestors(x)), None) in (w, None) or (isinstance(x, ast.Return) and x is not w and any(l is w for l in K.loop_ancestors(x)))]
            for x in exits:
                n += 1
                atoms = []
                for clause in PC.pc(x, stop=w, raw=True):
                    for lit in clause:
                        if lit.text != data:  # the loop test itself
                            atoms.append(lit.text)
                bad = []
                for a in atoms:
                    call = None
                    try:
                        call = ast.parse(a, mode="eval").body
                    except SyntaxError:
                        pass
                    if isinstance(call, ast.Call) and isinstance(call.func, ast.Attribute) and norm.raw(call.func.value) == "self" and call.func.attr in cls.methods:
                        h = cls.methods[call.func.attr]
                        params = [p.arg for p in h.node.args.args][1:]
                        ok_params = {p for p, arg in zip(params, call.args) if norm.raw(arg) in size_names}
                        rets = [r for r in ast.walk(h.node) if isinstance(r, ast.Return) and r.value is not None]
                        for r in rets:
                            for clause in norm.cnf_raw(r.value, True):
                                for lit in clause:
                                    names = {nn.id for nn in ast.walk(ast.parse(lit.text, mode="eval")) if isinstance(nn, ast.Name)}
                                    if not (names & ok_params):
                                        bad.append(f"{h.qualname}: {lit.text}")
                    else:
                        try:
                            names = {nn.id for nn in ast.walk(ast.parse(a, mode="eval")) if isinstance(nn, ast.Name)}
                        except SyntaxError:
                            names = set()
                        if not (names & size_names):
                            bad.append(a)
                if bad:
                    chk.violation(rule, x, K.short(x), "stop only on: empty read | known size written | declared length used up",
                                  f"{cls.name}.write_with_length leaves the read loop on `{bad[0]}`, which is neither the end of the file-like object (an empty read) nor an exhausted known/declared length: "
                                  "read(n) on a pipe, socket or unbuffered file returns short blocks long before EOF, so the body is silently truncated and the message still ends cleanly (last chunk / Content-Length mismatch)")
                else:
                    chk.ok(rule, x, f"{cls.name}.write_with_length: the read loop is left early only when the known size was written or the declared length is used up ({'; '.join(atoms)[:120]})")
    chk.expect_count(rule, n, 1, "early exits of file read loops in write_with_length implementations")


def round7_rules(chk, repo):
    """Rule written after seeding round 7 (seed C04-7): the decision that only the head goes out is taken on the body that would be sent.
    Response._do_start_compression() codes the whole body into self._compressed_body and stamps Content-Encoding and the length of the coded
    body; an empty (b"", "") body codes to 8 or 20 bytes.  A shortcut of write_eof() that looks at the uncoded body sends a head that promises
    bytes which never follow - the client hangs or takes the first bytes of the next response for them."""
    we = repo.func(WRESP, "Response.write_eof")
    g = cfg_of(we.node)
    heads = [n for n in g.nodes if n.in_finally_copy is None and n.kind == "stmt" and isinstance(getattr(n, "ast", None), ast.AST) and any(
        norm.raw(c.func) == "super().write_eof" and not c.args for c in K.node_calls(n))]
    dsc = repo.func(WRESP, "Response._do_start_compression")
    codes = any(isinstance(a, ast.Assign) and norm.raw(a.targets[0]) == "self._compressed_body" for a in ast.walk(dsc.node))
    if not codes:
        chk.ok("C04.coded.sent", we, "Response does not keep a whole-body coding")
        return
    if not heads:
        chk.analysis_error("C04.coded.sent: no head-only `await super().write_eof()` found in Response.write_eof")
        return
    defs = norm.fn_defs(we.node)
    # head-only: nothing of the body was handed to the writer on the way (the write_eof() behind a payload write only finishes the message)
    wrote = [n for n in g.nodes if n.kind == "stmt" and isinstance(getattr(n, "ast", None), ast.AST) and any(isinstance(c.func, ast.Attribute) and c.func.attr == "write" and c.args and "_payload_writer" in norm.raw(c.args[0]) for c in K.node_calls(n))]
    heads = [h for h in heads if g.find_path([g.entry], lambda n, h=h: n is h, lambda n: n in wrote, EXPLICIT) is not None]
    bad = None
    for h in heads:
        lits = [l for cl_ in PC.pc(h.ast, raw=True) for l in cl_]
        at = h.ast.lineno

        def vals(nm):
            # definitions in front of the shortcut (what the tested name can hold there)
            return [v for d, v in defs.defs.get(nm, []) if v is not None and getattr(d, "lineno", 0) < at]
        # literals that speak about the body: the tested value has to be the coded body whenever there is one
        for l in lits:
            names = set()
            try:
                names = {x.id for x in ast.walk(ast.parse(l.text, mode="eval")) if isinstance(x, ast.Name)}
            except SyntaxError:
                pass
            about_body = "self._body" in l.text or any(any("_body" in norm.raw(v) for v in vals(nm)) for nm in names)
            if not about_body or "_must_be_empty_body" in l.text:
                continue
            sees_coded = "self._compressed_body" in l.text or any(any("_compressed_body" in norm.raw(v) for v in vals(nm)) for nm in names)
            if not sees_coded:
                bad = (h, l)
    if bad is None:
        chk.ok("C04.coded.sent", heads[0].ast, "Response.write_eof(): whether only the head goes out is decided on the coded body when there is one (it is never empty)")
    else:
        chk.violation("C04.coded.sent", bad[0].ast, K.short(bad[0].ast), "body = self._compressed_body if it is not None else self._body  before the head-only test",
                      f"the head-only shortcut is taken under `{bad[1].text}`, a test of the uncoded body: `web.Response(body=b'')` (or text='') with enable_compression() and an Accept-Encoding that selects deflate is sent with `Content-Encoding: deflate`, `Content-Length: 8` and no body bytes - on a keep-alive connection the client reads the first 8 bytes of the next response (`HTTP/1.1`) as this body")


def hunt5_rules(chk, repo):
    """Rules written after the fifth defect hunt (F313-F315)."""
    from sa.dtable import Evaluator
    HW, MP = "aiohttp/http_writer.py", "aiohttp/multipart.py"
    # ---- C04.copy: what the HTTP writer leaves with the transport is not a buffer the caller can still change ------------------------------------------------
    # asyncio's selector transport keeps a memoryview of what it could not send at once: a handler that streams through one refilled bytearray
    # (`await resp.write(buf)`) to a slow reader sends blocks with the content of later blocks, under a correct Content-Length.
    sw = repo.cls(HW, "StreamWriter")
    n = 0
    def immutable(e, fn, depth=2):
        if isinstance(e, ast.Constant) and isinstance(e.value, bytes):
            return True
        if isinstance(e, ast.Call) and (norm.raw(e.func) == "bytes" or (isinstance(e.func, ast.Attribute) and e.func.attr == "join" and isinstance(e.func.value, ast.Constant))):
            return True
        if isinstance(e, ast.Call) and norm.raw(e.func) in ("tuple", "list") and e.args and isinstance(e.args[0], (ast.GeneratorExp, ast.ListComp)):
            return immutable(e.args[0].elt, fn, depth)
        if isinstance(e, ast.IfExp):
            t = norm.raw(e.test)
            return ("type(" in t and "is bytes" in t and immutable(e.orelse, fn, depth)) or ("is not bytes" in t and immutable(e.body, fn, depth)) or (immutable(e.body, fn, depth) and immutable(e.orelse, fn, depth))
        if isinstance(e, ast.BinOp) and isinstance(e.op, ast.Add):
            return True  # a concatenation is a new object
        if isinstance(e, ast.Name) and depth:
            vals = [v for _d, v in norm.fn_defs(fn.node).defs.get(e.id, []) if v is not None]
            return bool(vals) and all(immutable(v, fn, depth - 1) for v in vals)
        return False
    for name, fn in sw.methods.items():
        for c in prog.calls_in(fn.node):
            if norm.raw(c.func) in ("transport.write", "transport.writelines", "self.transport.write", "self._protocol.transport.write") and c.args:
                n += 1
                if immutable(c.args[0], fn):
                    chk.ok("C04.copy", c, f"StreamWriter.{name}(): `{K.short(c.args[0], 50)}` is a new bytes object (or exactly bytes)")
                else:
                    chk.violation("C04.copy", c, K.short(c), "transport.write(chunk if type(chunk) is bytes else bytes(chunk))",
                                  f"StreamWriter.{name}() hands the caller's own object to the transport, which keeps a reference to whatever it could not send at once: a handler that declares a Content-Length and streams through one refilled bytearray to a slow client sends the right number of bytes, but 40 of 64 blocks carry the content of a later block (the WebSocket writer copies for the same reason)")
    chk.expect_count("C04.copy", n, 3, "transport writes of StreamWriter")
    # ---- C04.coding.empty: an announced content coding is finished even when the body is empty -------------------------------------------------------------------
    # set_eof() ends a message without a body and does not flush the compressor; write_eof() does.  The client takes the shortcut when
    # _should_write() says there is nothing to write - which must not be the case for a request with `compress=`.
    swr = repo.func(REQ, "ClientRequest._should_write")
    rets = [r for r in ast.walk(swr.node) if isinstance(r, ast.Return) and r.value is not None]
    try:
        vals = [bool(Evaluator({"self.body.size": 0, "self._continue": None, "protocol.writing_paused": False, "self.compress": "deflate", "self._body.size": 0}).ev(r.value)) for r in rets]
    except Exception as e:
        vals = None
        chk.analysis_error(f"C04.coding.empty: cannot evaluate ClientRequest._should_write(): {e}")
    if vals is not None:
        if rets and all(vals):
            chk.ok("C04.coding.empty", rets[0], "_should_write(): a request with compress= always goes through write_eof(), which finishes the coding (an empty body is 8 bytes of deflate)")
        else:
            chk.violation("C04.coding.empty", rets[0] if rets else swr, K.short(rets[0]) if rets else "_should_write", "... or bool(self.compress) ...",
                          "`post(data=io.BytesIO(b''), compress='deflate')` goes out as `Content-Encoding: deflate`, chunked, with zero body bytes: the nothing-to-write shortcut ends the message with set_eof(), which never flushes the compressor - zlib on the other side reports an incomplete stream; the same request with expect100=True carries the correct 8-byte stream")
    # ---- C04.san.first: no part is written before the headers of every part were found sendable --------------------------------------------------------------------
    mw = repo.func(MP, "MultipartWriter.write")
    g = cfg_of(mw.node)
    outs = [x for x in g.nodes if x.in_finally_copy is None and isinstance(getattr(x, "ast", None), ast.AST) and x.kind in ("stmt", "test") and any(
        isinstance(a, ast.Await) and isinstance(a.value, ast.Call) and norm.raw(a.value.func).split(".")[-1] in ("write", "write_with_length") for a in ast.walk(x.ast))]
    chks = [x for x in g.nodes if x.kind == "stmt" and isinstance(getattr(x, "ast", None), ast.AST) and any(isinstance(c.func, ast.Attribute) and c.func.attr == "_check_part_headers" for c in K.node_calls(x))]
    if not outs:
        chk.analysis_error("C04.san.first: no write found in MultipartWriter.write")
    else:
        p_ = g.find_path([g.entry], lambda x: x in outs, lambda x: x in chks, EXPLICIT)
        helper = repo.func_opt(MP, "MultipartWriter._check_part_headers")
        covers = helper is not None and any(isinstance(a, ast.Attribute) and a.attr == "_binary_headers" for a in ast.walk(helper.node)) and any(isinstance(l, ast.For) and "self._parts" in norm.raw(l.iter) for l in ast.walk(helper.node))
        if p_ is None and covers:
            chk.ok("C04.san.first", chks[0].ast, "MultipartWriter.write(): the header block of every part (nested writers included) is serialised - which is the check - before the first byte is written")
        else:
            chk.violation("C04.san.first", outs[0].ast, K.short(outs[0].ast), "self._check_part_headers()  at the top of write()",
                          "a forbidden character in a header of a later part is refused only when that part is reached: with a streamed (unknown-size) first part, 309 bytes - the request head and the first part - are on the wire before the write fails; the caller gets ClientConnectionError instead of the up-front ValueError, a server response is a truncated 200", path=g.fmt_path(p_) if p_ else None)


def hunt4_rules(chk, repo):
    """Rules written after the fourth defect hunt (F251-F253)."""
    # ---- C04.textenc: a text file is encoded as one stream and its end ends the body -----------------------------------------------------------------
    tp = repo.cls(PL, "TextIOPayload")
    nread = 0
    for mname in ("_read", "_read_and_available_len"):
        m = tp.methods.get(mname)
        if m is None:
            continue
        for r in [r for r in ast.walk(m.node) if isinstance(r, ast.Return) and r.value is not None]:
            encs = [c for c in ast.walk(r.value) if isinstance(c, ast.Call) and isinstance(c.func, ast.Attribute) and c.func.attr == "encode"]
            if not encs:
                continue
            nread += 1
            per_block = [c for c in encs if not norm.raw(c.func.value).startswith("self.")]  # `chunk.encode(...)`: a fresh codec state (and BOM) per block
            guarded = [c for c in encs if any(isinstance(p_, ast.IfExp) and c in list(ast.walk(p_.body)) and isinstance(p_.orelse, ast.Constant) and p_.orelse.value == b"" for p_ in ast.walk(r.value))]
            if not per_block and len(guarded) == len(encs):
                chk.ok("C04.textenc", r, f"TextIOPayload.{mname}(): blocks go through the payload's own incremental encoder, and an empty text read gives b'' (the write loop ends)")
            else:
                chk.violation("C04.textenc", r, K.short(r, 70), "self._encoder.encode(chunk) if chunk else b''",
                              f"TextIOPayload.{mname}() encodes every block on its own with str.encode(): with utf-16 / utf-32 / utf-8-sig each block starts with a byte-order mark and `''.encode('utf-16')` is a BOM, not b'' - `while chunk:` in write_with_length() never sees the end of the file (an endless chunked body), and with a known size the extra BOMs push the tail of the text past Content-Length")
    chk.expect_count("C04.textenc", nread, 2, "encoding returns of TextIOPayload read helpers")
    mk = [a for m in tp.methods.values() for a in ast.walk(m.node) if isinstance(a, ast.Assign) and norm.raw(a.targets[0]) == "self._encoder"]
    if mk and all(fn_.qualname.endswith("_read_and_available_len") for fn_ in [tp.methods[n_] for n_ in tp.methods if any(a in list(ast.walk(tp.methods[n_].node)) for a in mk)]):
        chk.ok("C04.textenc", mk[0], "one incremental encoder per write: it is created where a write starts (_read_and_available_len), not per block")
    elif nread:
        chk.violation("C04.textenc", tp, "self._encoder = codecs.getincrementalencoder(...)()", "in _read_and_available_len()", "the encoder state does not span the blocks of one write")
    # ---- C04.compress.order: concurrent writers of a compressed stream reach the wire in the order they were compressed ------------------------------------
    sw = repo.cls(HW, "StreamWriter")
    nc = 0
    for mname, m in sw.methods.items():
        g = None
        for a in [a for a in prog.awaits_in(m.node) if isinstance(a.value, ast.Call) and norm.raw(a.value.func) == "self._compress.compress"]:
            nc += 1
            locks = [w for w in prog.enclosing(a, (ast.AsyncWith,)) if any("lock" in norm.raw(it.context_expr).lower() for it in w.items)]
            if not locks:
                chk.violation("C04.compress.order", a, K.short(a, 60), "async with self._compress_lock:",
                              f"StreamWriter.{mname}() awaits the compressor (the executor, above 4 KiB) with nothing serialising writers: a small write() issued meanwhile is compressed and written first - deflate blocks on the wire out of order, the peer's inflater fails with `incorrect header check`")
                continue
            g = g or cfg_of(m.node)
            after = [n for n in g.nodes if n.kind in ("stmt", "test") and getattr(n.ast, "lineno", 0) > getattr(locks[-1], "end_lineno", 0)]
            wr = [n for n in after if any(isinstance(c, ast.Call) and norm.raw(c.func) in ("self._write", "self._send_headers_with_payload", "self._writelines") for c in ast.walk(n.ast))]
            aw = [n for n in after if any(isinstance(x, ast.Await) for x in ast.walk(n.ast)) and n not in wr]
            first = [n for n in g.nodes if n.kind in ("stmt", "test") and getattr(n.ast, "lineno", 0) == min((getattr(x.ast, "lineno", 10**9) for x in after), default=0)]
            p = g.find_path(first, lambda n: n in wr, lambda n: False, EXPLICIT) if first and wr else None
            bad = [n for n in (p or []) if n in aw] + [n for n in first if n in aw]
            if wr and not bad:
                chk.ok("C04.compress.order", a, f"StreamWriter.{mname}(): compress() under the writer's lock, and nothing is awaited between leaving the lock and the transport write")
            else:
                chk.violation("C04.compress.order", a, K.short(a, 60), "no await between the end of `async with self._compress_lock` and self._write(...)",
                              f"StreamWriter.{mname}() suspends between compressing a block and writing it: another writer's block can overtake it")
    chk.expect_count("C04.compress.order", nc, 2, "awaits of the stream compressor in StreamWriter")
    # ---- C04.length.shortserver: a response that ends short of its declared Content-Length is the last one on its connection (known, F272) --------------
    # (client sibling: C06.shortbody.)  The repair - force_close() when the writer still has declared bytes left at write_eof() - makes the baseline
    # test tests/test_client_functional.py::test_timeout_on_reading_data fail, which relies on the connection staying open; recorded as a known finding.
    we = repo.func(WRESP, "StreamResponse.write_eof")
    closes = [c for c in prog.calls_in(we.node) if norm.raw(c.func) in ("self.force_close", "self._req.protocol.force_close")] + \
             [a for a in ast.walk(we.node) if isinstance(a, ast.Assign) and norm.raw(a.targets[0]) == "self._keep_alive" and norm.raw(a.value) == "False"]
    if any(any("length" in l.text for c_ in PC.pc(K.stmt_of(x) if isinstance(x, ast.Call) else x, raw=True) for l in c_) for x in closes):
        chk.ok("C04.length.shortserver", we, "write_eof(): declared bytes still outstanding close the connection after this response")
    else:
        chk.violation("C04.length.shortserver", we, "await self._payload_writer.write_eof(data)", "if self._payload_writer.length: self.force_close()",
                      "a handler that sets content_length = 100 and writes 24 bytes leaves the response unfinished on a connection that stays alive: the head of the next pipelined response lands inside the 100 declared bytes of this one; a client reading it blocks until its own timeout")
    # ---- C04.te.client10: the client never frames an HTTP/1.0 request with chunked (sibling of the server's refusal) ------------------------------------------
    ute = repo.func(REQ, "ClientRequest._update_transfer_encoding")
    refs = [r for r, _c in K.raises_in(ute) if PC.has_lit(PC.pc(r), "self.chunked", True) is not None and any("HttpVersion1" in l.text and "self.version" in l.text for l in PC.units(PC.pc(r)))]
    if refs:
        chk.ok("C04.te.client10", refs[0], "_update_transfer_encoding(): chunked framing on a request below HTTP/1.1 is refused before anything is sent")
    else:
        chk.violation("C04.te.client10", ute, "self.headers[hdrs.TRANSFER_ENCODING] = 'chunked'", "if self.chunked and self.version < HttpVersion11: raise ValueError(...)",
                      "ClientSession(version=HttpVersion10) with a body of unknown size, compress= or chunked=True sends `Transfer-Encoding: chunked` to a recipient that does not know the framing: an HTTP/1.0 server answers after reading 0 body bytes and the upload is silently lost (the server side refuses the same combination for responses)")


def hunt3_rules(chk, repo):
    """Rules written after the third defect hunt (F171, F172)."""
    from sa.dtable import Evaluator
    # ---- C04.freshwriter: a response never starts on a writer that carries the framing of an unsent one --------------------------------------
    # _prepare_headers() configures the request's writer (enable_chunking / enable_compression / length) before anything is written; a hook or
    # write_headers() that raises, or a prepared Response that is dropped, leaves that on the writer.  _start() is the single entry of every
    # response, so it is where the writer has to be replaced while nothing went out.
    stt = repo.func("aiohttp/web_response.py", "StreamResponse._start")
    fresh = [a for a in ast.walk(stt.node) if isinstance(a, ast.Assign) and any(norm.raw(t) == "request._payload_writer" for t in a.targets)
             and isinstance(a.value, ast.Call) and norm.raw(a.value.func) == "StreamWriter"]
    hold = None
    for a in fresh:
        par = getattr(a, "parent", None)
        if not isinstance(par, ast.If) or a not in par.body:
            continue
        w = "writer"
        rows = []
        try:
            for chunked, length, comp in ((True, None, None), (False, 5, None), (False, 0, None), (False, None, "zlibobj")):
                env = {f"isinstance({w}, StreamWriter)": True, f"{w}.output_size": 0, f"{w}.chunked": chunked, f"{w}.length": length, f"{w}._compress": comp}
                rows.append(bool(Evaluator(env).ev(norm.subst(par.test, par))))
            sent = bool(Evaluator({f"isinstance({w}, StreamWriter)": True, f"{w}.output_size": 17, f"{w}.chunked": True, f"{w}.length": None, f"{w}._compress": None}).ev(norm.subst(par.test, par)))
        except AnalysisError:
            continue
        if all(rows) and not sent:
            hold = par
    pre = K.nodes_matching(stt, "self._prepare_headers()")
    if hold is not None and pre and hold.lineno < pre[0].ast.lineno:
        chk.ok("C04.freshwriter", hold, "_start(): an unsent writer that is chunked / has a length / has a compressor is replaced by a fresh StreamWriter before _prepare_headers(); one that has sent bytes is kept")
    else:
        chk.violation("C04.freshwriter", stt, "writer = request._payload_writer", "if writer.output_size == 0 and (writer.chunked or writer.length is not None or writer._compress is not None): request._payload_writer = StreamWriter(...)",
                      "a response prepared but not sent (failing on_response_prepare hook, dropped web.Response) leaves chunking / length / compression on the request's writer: the next response goes out with a Content-Length head and a chunk-framed or truncated body")
    # ---- C04.size.realfile: a file size is the body size only for a real file ---------------------------------------------------------------
    n = 0
    for m in repo.all_modules():
        for fn in m.functions.values():
            for r in ast.walk(fn.node):
                if isinstance(r, ast.Return) and r.value is not None and M.contains(r.value, "os.fstat($F).st_size") and fn.qualname.endswith(".size"):
                    n += 1
                    if PC.has_lit(PC.pc(r), "isinstance($X, io.FileIO)", True) is not None:
                        chk.ok("C04.size.realfile", r, f"{fn.qualname}: fstat() gives the size only when the (unwrapped) object is an io.FileIO")
                    else:
                        chk.violation("C04.size.realfile", r, K.short(r), "if not isinstance(<unwrapped value>, io.FileIO): return None",
                                      f"{fn.qualname} takes fstat(fileno()).st_size for the body size of any object with a fileno(): for gzip.open()/bz2.open()/lzma.open() read() returns the decompressed stream, so Content-Length is the compressed size and the body is cut at it")
    chk.expect_count("C04.size.realfile", n, 1, "payload size properties that use fstat()")


def hunt2_rules(chk, repo):
    """Rules written after the second defect hunt (F125-F129)."""
    from rules import C11
    sw = repo.cls(HW, "StreamWriter")
    # ---- C04.bytelen: both body entry points of the writer count bytes (shared helper with C11) --------------------------------------------
    for m in ("write", "write_eof"):
        C11.bytelen(chk, repo, sw.methods[m], "chunk", "C04.bytelen")
    # ---- C04.length: write_eof(data) is bound by the declared length like write(data) ---------------------------------------------------------
    we = sw.methods["write_eof"]
    cut = [a for a in ast.walk(we.node) if isinstance(a, ast.Assign) and norm.raw(a.targets[0]) == "chunk" and isinstance(a.value, ast.Subscript) and "self.length" in norm.raw(a.value.slice)]
    dec = [a for a in ast.walk(we.node) if (isinstance(a, ast.AugAssign) and norm.raw(a.target) == "self.length" and isinstance(a.op, ast.Sub))
           or (isinstance(a, ast.Assign) and norm.raw(a.targets[0]) == "self.length" and isinstance(a.value, ast.BinOp) and isinstance(a.value.op, ast.Sub) and norm.raw(a.value.left) == "self.length")]
    if cut and dec:
        chk.ok("C04.length", cut[0], "write_eof(data): the final chunk is truncated to the remaining declared length and accounted for")
    else:
        chk.violation("C04.length", we, "write_eof(chunk)", "chunk = chunk[: self.length]; self.length -= len(chunk)",
                      "write_eof(data) ignores the declared length that write(data) enforces: with content_length = 10, write_eof(<50 bytes>) - or web.Response(body=<bytes>, headers={'Content-Length': '10'}), e.g. an inflated body forwarded with the upstream's headers - puts 40 surplus bytes on a keep-alive connection, which the peer reads as the next response")
    # ---- C04.te.server: a handler-supplied `Transfer-Encoding: chunked` selects chunked framing (sibling of the client rule C02.chunkpair) -----
    ph = repo.func(WRESP, "StreamResponse._prepare_headers")
    sets = [a for a in ast.walk(ph.node) if isinstance(a, ast.Assign) and norm.raw(a) == "self._chunked = True" and any("TRANSFER_ENCODING" in l.text for c in PC.pc(a, raw=True) for l in c)]
    if sets and any("CONTENT_LENGTH" in norm.raw(x) and ("pop" in norm.raw(x) or isinstance(x, ast.Delete)) for x in (PC._block_of(sets[0]) or [])):
        chk.ok("C04.te.server", sets[0], "a handler-supplied `Transfer-Encoding: chunked` header switches the response to chunked framing and removes Content-Length")
    else:
        chk.violation("C04.te.server", ph, "headers[hdrs.TRANSFER_ENCODING]", "if 'chunked' in headers.get(TRANSFER_ENCODING): self._chunked = True; drop Content-Length",
                      "web.Response(body=b'hello', headers={'Transfer-Encoding': 'chunked'}) - a proxy handler forwarding upstream headers - emits `Transfer-Encoding: chunked` plus an aiohttp-added `Content-Length: 5` and the raw body: aiohttp's own client rejects the message, others disagree about its end")
    # ---- C04.zerosize: a known size of 0 is not `unknown` -----------------------------------------------------------------------------------------
    nz = 0
    for cname in ("IOBasePayload", "TextIOPayload"):
        m = repo.cls(PL, cname).methods.get("_read_and_available_len")
        if m is None:
            continue
        nz += 1
        falsy = [b for b in ast.walk(m.node) if isinstance(b, ast.BoolOp) and isinstance(b.op, ast.Or) and isinstance(b.values[0], ast.Name) and b.values[0].id == "size"]
        if falsy:
            chk.violation("C04.zerosize", falsy[0], norm.raw(falsy[0]), "DEFAULT_CHUNK_SIZE if size is None else size",
                          f"{cname}._read_and_available_len treats a reported size of 0 like an unknown size and reads a full block: a file whose fstat size is 0 but that has content (procfs, some devices) is written in full under `Content-Length: 0` / a multipart size that counts 0 bytes for it")
        else:
            chk.ok("C04.zerosize", m, f"{cname}: the first read is capped by the reported size, 0 included")
    chk.expect_count("C04.zerosize", nz, 2, "first-read helpers of file payloads")
