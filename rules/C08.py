"""C08 Stream reader: exact ordered delivery with back-pressure (DESIGN 5/C08)."""
from __future__ import annotations

import ast

from sa import match as M, norm, pc as PC, prog, rulekit as K
from sa.cfg import EXPLICIT, cfg_of
from sa.loader import AnalysisError

MOD = "aiohttp/streams.py"
WS = "aiohttp/_websocket/reader_py.py"
SR = "StreamReader"

OWN = {
    "_buffer": ["__init__", "feed_data", "unread_data", "_unread_data", "_read_nowait_chunk"],
    "_buffer_offset": ["__init__", "unread_data", "_unread_data", "_read_nowait_chunk"],
    "_size": ["__init__", "feed_data", "unread_data", "_unread_data", "_read_nowait_chunk"],
    "_cursor": ["__init__", "unread_data", "_unread_data", "_read_nowait_chunk"],
    "_http_chunk_splits": ["__init__", "begin_http_chunk_receiving", "end_http_chunk_receiving", "readchunk", "_read_nowait_chunk"],
    "_eof": ["__init__", "feed_eof"],
    "_exception": ["__init__", "set_exception"],
    "total_bytes": ["__init__", "feed_data"],
}
REASON = {
    "__init__": "initial state", "feed_data": "the producer", "unread_data": "deprecated push-back", "_unread_data": "push-back primitive (public unread_data(); bytes taken by a line/exact read that was interrupted while waiting)", "_read_nowait_chunk": "the single consumption primitive",
    "begin_http_chunk_receiving": "chunk bookkeeping (producer)", "end_http_chunk_receiving": "chunk bookkeeping (producer)", "readchunk": "consumes chunk marks",
    "feed_eof": "end of stream", "set_exception": "error",
}


def run(chk):
    repo = chk.repo
    chk.explanation = (
        "Decided on aiohttp/streams.py: the buffer, its offset, the size and cursor counters and the chunk-split queue are written only by "
        "the producer entry points and by the single consumption primitive _read_nowait_chunk (so every read API removes bytes through it); "
        "each update of size/cursor/total uses the length of exactly the bytes appended/removed in the same function; every producer state "
        "change (data, EOF, error, chunk end) evaluates the waiter wake-up on every path; every wait for data sits in a loop that re-tests "
        "emptiness/EOF (a wake-up may carry no bytes); the waiter is cleared in a finally; pause sites are tied to the high-water marks and "
        "the resume site follows the accounting under the low-water marks; the same wake discipline holds for DataQueue / WebSocketDataQueue."
    )
    chk.not_decided = "conservation of bytes as an equation over all operation sequences; that the low-water test is true whenever the buffer is empty (arithmetic on configured limits)."
    chk.explanation += " Also decided: every function that inspects the front buffer also reads its consumed-prefix offset. After the defect hunt: interrupted line/exact reads push their bytes back; multi-byte separators are searched across block boundaries; the last chunk boundary is kept by the producer; an empty buffer always satisfies the resume test; the shared EMPTY_PAYLOAD keeps no state (known finding F63)."
    chk.explanation += " Round 4 / second hunt: every accumulating read loop pushes its bytes back when interrupted; the body-less stream answers the whole consumer API; iter_chunks() stops only on the end-of-stream value."
    sr = repo.cls(MOD, SR)
    # ---- owners ---------------------------------------------------------------------------------------
    for attr, fns in OWN.items():
        K.owners(chk, "C08.owners", repo, [MOD], attr, {f"{SR}.{f}": REASON[f] for f in fns} | {"EmptyStreamReader.__init__": "empty stream"},
                 "stream state has a closed set of writers", classes=(SR, "EmptyStreamReader"))
    # ---- balance ----------------------------------------------------------------------------------------
    fd = repo.func(MOD, f"{SR}.feed_data")
    _balance(chk, fd, "data", [("self._size", "+"), ("self.total_bytes", "+")], "self._buffer.append(data)")
    un = repo.cls(MOD, SR).methods.get("_unread_data") or repo.func(MOD, f"{SR}.unread_data")
    _balance(chk, un, "data", [("self._size", "+"), ("self._cursor", "-")], "self._buffer.appendleft(data)")
    rc = repo.func(MOD, f"{SR}._read_nowait_chunk")
    rets = [n for n in ast.walk(rc.node) if isinstance(n, ast.Return)]
    if len(rets) == 1 and isinstance(rets[0].value, ast.Name):
        _balance(chk, rc, rets[0].value.id, [("self._size", "-"), ("self._cursor", "+")], None)
        # every definition of the returned value removes exactly those bytes from the buffer front
        ds = norm.fn_defs(rc.node).defs.get(rets[0].value.id, [])
        kinds = sorted(norm.raw(v) for _d, v in ds if v is not None)
        if len(ds) == 3 and any("popleft()" in k for k in kinds) and any("offset:offset + n" in k.replace(" ", "") or "[offset:offset + n]" in k for k in kinds):
            chk.ok("C08.balance", rc, f"_read_nowait_chunk: returned bytes are a front slice / the popped front buffer ({'; '.join(kinds)})")
        else:
            chk.violation("C08.balance", rc, "data = ...", f"definitions {kinds}", "the consumption primitive no longer returns exactly the bytes it removes from the buffer front")
    else:
        chk.violation("C08.balance", rc, "_read_nowait_chunk", "single `return data`", "the consumption primitive has several exits: accounting cannot be paired with the returned bytes")
    # partial read advances the offset by n, full read resets it
    off = [s for s, _b in K.stmts(rc, "self._buffer_offset += n")]
    if off and PC.has_lit(PC.pc(off[0]), [("len($F) - $O > n", True), ("len($F) > n + $O", True), ("len($F) > $O + n", True), ("n < len($F) - $O", True), ("len($F) - $O <= n", False)], True) is not None:
        chk.ok("C08.balance", off[0], "a partial read of the front buffer advances the offset by exactly n")
    else:
        chk.violation("C08.balance", rc, "self._buffer_offset += n", "(len(first_buffer) - offset > n)", "partial reads do not advance the front-buffer offset consistently")

    # ---- headoffset: the front buffer is partly consumed; its bytes are only meaningful together with _buffer_offset ----
    nh = 0
    for name, m in sr.methods.items():
        heads = [n for n in ast.walk(m.node) if isinstance(n, ast.Subscript) and isinstance(n.slice, ast.Constant) and n.slice.value == 0 and isinstance(n.ctx, ast.Load)
                 and (norm.raw(n.value) == "self._buffer" or (isinstance(n.value, ast.Name) and any(v is not None and norm.raw(v) == "self._buffer" for _d, v in norm.fn_defs(m.node).defs.get(n.value.id, []))))]
        if not heads:
            continue
        nh += 1
        if any(isinstance(n, ast.Attribute) and n.attr == "_buffer_offset" for n in ast.walk(m.node)):
            chk.ok("C08.headoffset", heads[0], f"{name}(): reads the front buffer together with _buffer_offset")
        else:
            chk.violation("C08.headoffset", heads[0], K.short(heads[0]), "self._buffer_offset",
                          f"{name}(): inspects the front buffer without its consumed-prefix offset: after a partial read the remainder is shorter than len(buffer[0]), so a size decision (e.g. `the head alone covers n bytes`) is wrong and a read stops short of a chunk boundary")
    chk.expect_count("C08.headoffset", nh, 3, "functions reading the front buffer")
    # ---- singleton: EMPTY_PAYLOAD is one process-wide EmptyStreamReader used for every message without a body --------------------------------
    # any state a method stores on it leaks from one message to the next
    es = repo.cls(MOD, "EmptyStreamReader")
    leaks = [(m, a) for m in es.methods.values() if m.name != "__init__" for a in ast.walk(m.node)
             if isinstance(a, (ast.Assign, ast.AugAssign)) and any(isinstance(t, ast.Attribute) and norm.raw(t.value) == "self" for t in (a.targets if isinstance(a, ast.Assign) else [a.target]))]
    if not leaks:
        chk.ok("C08.singleton", es.node, "no method of EmptyStreamReader stores state on the shared EMPTY_PAYLOAD instance")
    for m, a in leaks:
        chk.violation("C08.singleton", a, K.short(a), f"no attribute store in EmptyStreamReader.{m.name}()",
                      f"EmptyStreamReader.{m.name}() stores state on the instance, but EMPTY_PAYLOAD is a singleton shared by every body-less message: readchunk() returns the end-of-stream marker (b'', False) only on its first call ever; for the second body-less request of the process `async for ... in request.content.iter_chunks()` never ends and spins the event loop")
    # ---- emptyapi: the body-less stream answers the whole consumer API (it never ran StreamReader.__init__) -----------------------------------
    em = repo.cls(MOD, "EmptyStreamReader")
    if em is not None:
        einit = em.methods.get("__init__")
        have = {t.attr for st in ast.walk(einit.node) if isinstance(st, (ast.Assign, ast.AnnAssign)) for t in ast.walk(st) if isinstance(t, ast.Attribute) and isinstance(t.ctx, ast.Store)} if einit else set()
        PRODUCER = {"begin_http_chunk_receiving": "producer side: only a parser that feeds a body calls it", "end_http_chunk_receiving": "producer side",
                    "get_read_buffer_limits": "producer side: the parser asks the stream it is about to feed", "set_read_chunk_size": "producer side", "unread_data": "deprecated push-back"}
        napi = 0
        for name, m in sr.methods.items():
            if name.startswith("_") or name in em.methods or name in PRODUCER:
                continue
            used = {a.attr for a in ast.walk(m.node) if isinstance(a, ast.Attribute) and isinstance(a.value, ast.Name) and a.value.id == "self"}
            miss = sorted(used - have - set(sr.methods) - set(em.methods) - {"__slots__", "__class__"})
            napi += 1
            if miss:
                chk.violation("C08.emptyapi", m, f"EmptyStreamReader inherits {name}()", f"an override in EmptyStreamReader (or `{miss[0]}` set in its __init__)",
                              f"StreamReader.{name}() reads self.{miss[0]}, which the shared body-less stream EMPTY_PAYLOAD never sets (EmptyStreamReader.__init__ does not run StreamReader.__init__): `request.content.{name}` on a plain GET / `resp.content.{name}` on a 204 raises AttributeError where the same call on an empty chunked body works")
            else:
                chk.ok("C08.emptyapi", m, f"EmptyStreamReader can inherit {name}(): it touches nothing the empty stream lacks")
        chk.expect_count("C08.emptyapi", napi, 3, "public StreamReader methods the empty stream inherits")
    # ---- cancelsafe: a read that has taken bytes out of the buffer and is interrupted while waiting for more puts them back ---------------
    ncs = 0
    for name, m in sr.methods.items():
        for lp in [l for l in ast.walk(m.node) if isinstance(l, (ast.While, ast.For))]:
            waits = [a for a in prog.awaits_in(lp) if next(iter(K.loop_ancestors(a)), None) is lp]
            if not waits:
                continue
            # locals that collect bytes over the iterations: X.append(..) / X += .. / X = X + ..
            accs = set()
            for st in ast.walk(lp):
                if isinstance(st, ast.Call) and isinstance(st.func, ast.Attribute) and st.func.attr in ("append", "extend") and isinstance(st.func.value, ast.Name):
                    accs.add(st.func.value.id)
                elif isinstance(st, ast.AugAssign) and isinstance(st.target, ast.Name) and isinstance(st.op, ast.Add) and not isinstance(st.value, ast.Constant):
                    accs.add(st.target.id)
            # only accumulators of bytes taken from this stream (fed from a self-read), not counters
            accs = {x for x in accs if any(isinstance(c, ast.Call) and norm.raw(c.func).startswith(("self._read_nowait", "self.read")) for c in ast.walk(lp))
                    and not any(isinstance(st, ast.AugAssign) and isinstance(st.target, ast.Name) and st.target.id == x and isinstance(st.value, ast.Call) and norm.raw(st.value.func) == "len" for st in ast.walk(lp))}
            accs -= {"offset", "n", "chunk_size", "i"}
            if not accs:
                continue
            for a in waits:
                ncs += 1
                hs = [h for _t, h in K.enclosing_try_handlers(a) if h.type is None or {"BaseException", "asyncio.CancelledError"} & set(PC.handler_types(h))]
                if any(any(isinstance(c, ast.Call) and norm.raw(c.func) in ("self._unread_data", "self.unread_data") and any(x in norm.text(c, c) for x in accs) for c in ast.walk(h)) and isinstance(h.body[-1], ast.Raise) for h in hs):
                    chk.ok("C08.cancelsafe", a, f"{name}(): bytes already moved into `{'/'.join(sorted(accs))}` are pushed back when the wait is interrupted")
                else:
                    acc = sorted(accs)[0]
                    chk.violation("C08.cancelsafe", a, K.short(a, 50), f"except BaseException: self._unread_data({acc}...); raise",
                                  f"{name}() moves buffered bytes into the local `{acc}` and then waits for more; if that wait is cancelled (asyncio.wait_for timing out) the bytes are dropped: `event: par` + timeout + `tial\\n` makes the next read return `tial\\n`, the bytes received before are never returned and no error is set")
    chk.expect_count("C08.cancelsafe", ncs, 3, "waits inside accumulating read loops of StreamReader")
    # ---- cancelsafe.consumer: the same obligation for the byte-returning readers built on a stream ------------------------------------------
    # A `read*()` coroutine outside StreamReader that collects awaited stream reads into a local and returns bytes can be called again after it
    # was interrupted; what its earlier iterations took out of the stream has to survive the interruption (pushed back, or kept on self).
    # Not in scope: readers of structured items (MultipartReader.next / _read_headers, BaseRequest.post) - their parse state is not resumable.
    READS = ("read", "readany", "readline", "readchunk", "read_chunk", "readexactly", "readuntil")
    ncon = 0
    for m_ in repo.all_modules():
        if m_.rel.endswith(("test_utils.py", "pytest_plugin.py")):
            continue
        for fn in m_.functions.values():
            last = fn.qualname.split(".")[-1]
            if not isinstance(fn.node, ast.AsyncFunctionDef) or fn.qualname.startswith("StreamReader.") or not last.lstrip("_").startswith("read") or "header" in last:
                continue
            for lp in [l for l in ast.walk(fn.node) if isinstance(l, ast.While)]:
                waits = [a for a in prog.awaits_in(lp) if next(iter(K.loop_ancestors(a)), None) is lp and isinstance(a.value, ast.Call)
                         and isinstance(a.value.func, ast.Attribute) and a.value.func.attr in READS]
                accs = set()
                for st in ast.walk(lp):
                    if isinstance(st, ast.Call) and isinstance(st.func, ast.Attribute) and st.func.attr in ("append", "extend") and isinstance(st.func.value, ast.Name):
                        accs.add(st.func.value.id)
                    elif isinstance(st, ast.AugAssign) and isinstance(st.target, ast.Name) and isinstance(st.op, ast.Add) and any(isinstance(x, ast.Await) for x in ast.walk(st.value)):
                        accs.add(st.target.id)
                if not waits or not accs:
                    continue
                for a in waits:
                    ncon += 1
                    hs = [h for _t, h in K.enclosing_try_handlers(a) if h.type is None or {"BaseException", "asyncio.CancelledError"} & set(PC.handler_types(h))]
                    keeps = [h for h in hs if isinstance(h.body[-1], ast.Raise) and any(
                        (isinstance(c, ast.Call) and any(isinstance(x, ast.Name) and x.id in accs for arg in c.args for x in ast.walk(arg)))
                        or (isinstance(c, ast.Assign) and isinstance(c.targets[0], ast.Attribute) and any(isinstance(x, ast.Name) and x.id in accs for x in ast.walk(c.value)))
                        for c in ast.walk(h))]
                    if keeps:
                        chk.ok("C08.cancelsafe.consumer", a, f"{fn.qualname}(): what was collected in `{'/'.join(sorted(accs))}` is pushed back or kept when the wait is interrupted")
                    else:
                        chk.violation("C08.cancelsafe.consumer", a, K.short(a, 60), f"except BaseException: <stream>._unread_data({sorted(accs)[0]}) / self.<attr> = {sorted(accs)[0]}; raise",
                                      f"{fn.qualname}() takes bytes out of the stream into the local `{sorted(accs)[0]}` and waits for more; when that wait is interrupted (asyncio.wait_for timing out, a cancelled handler that is retried) the bytes are gone: the next read continues after them, nothing reports the gap")
    chk.expect_count("C08.cancelsafe.consumer", ncon, 3, "waits inside accumulating loops of byte-returning read*() coroutines outside StreamReader")
    # ---- sepsplit: a multi-byte separator that straddles two buffered blocks is found -----------------------------------------------------
    ru = sr.methods.get("readuntil")
    if ru is not None:
        finds = [c for c in prog.calls_in(ru.node) if isinstance(c.func, ast.Attribute) and c.func.attr == "find" and c.args and norm.raw(c.args[0]) == "separator"]
        across = [c for c in finds if isinstance(c.func.value, ast.BinOp) or any(isinstance(x, ast.BinOp) and isinstance(x.op, ast.Add) for x in ast.walk(norm.subst(c.func.value, c)))]
        if across:
            chk.ok("C08.sepsplit", across[0], "readuntil(): besides each block, the junction of the bytes already taken and the next block is searched for the separator")
        else:
            chk.violation("C08.sepsplit", finds[0] if finds else ru, "self._buffer[0].find(separator, offset)", "a search across the block boundary when len(separator) > 1",
                          "readuntil() searches each buffered block on its own: a multi-byte separator split across two feed_data() blocks (`...\\r` | `\\n...`) is never found and the line runs on to the next separator or to LineTooLong")
    # ---- wake ----------------------------------------------------------------------------------------------
    n = 0
    n += K.wakes_waiter(chk, "C08.wake", repo, fd, ["self._buffer.append($D)"], "data arrival")
    n += K.wakes_waiter(chk, "C08.wake", repo, repo.func(MOD, f"{SR}.feed_eof"), ["self._eof = True"], "end of stream")
    n += K.wakes_waiter(chk, "C08.wake", repo, repo.func(MOD, f"{SR}.set_exception"), ["self._exception = exc"], "error")
    n += K.wakes_waiter(chk, "C08.wake", repo, repo.func(MOD, f"{SR}.end_http_chunk_receiving"), ["self._http_chunk_splits.append($P)"], "chunk end")
    chk.expect_count("C08.wake", n, 4, "producer state changes in StreamReader")
    # ---- wake.exception: a reader does not go (back) to sleep on a stream that already failed -----------------------------------------------------
    # set_exception() wakes the registered waiter; a reader that was woken without data (end of an http chunk) and has not run yet has none, so the
    # error recorded in between is seen only if the reader looks at it before it waits again.
    nwx = 0
    for name, m in sr.methods.items():
        for mk in [c for c, _b in K.exprs(m, "self._loop.create_future()")]:
            nwx += 1
            st_ = K.stmt_of(mk)
            if PC.has_lit(PC.pc(st_), "self._exception is None", True) is not None or PC.has_lit(PC.pc(st_), "self._exception is not None", False) is not None:
                chk.ok("C08.wake.exception", mk, f"{name}() raises the recorded exception instead of registering a new waiter")
                continue
            # a private wait primitive may leave the test to every loop around it
            callers = [(cn, lp) for cn, cm in sr.methods.items() for lp in ast.walk(cm.node) if isinstance(lp, ast.While) and any(M.contains(a, f"self.{name}($F)") for a in prog.awaits_in(lp))]
            if name.startswith("_") and callers and all("self._exception" in norm.raw(lp.test) for _cn, lp in callers):
                chk.ok("C08.wake.exception", mk, f"every loop around {name}() tests self._exception before it waits again")
                continue
            where = f"{callers[0][0]}() goes back to waiting" if callers else f"{name}() waits"
            chk.violation("C08.wake.exception", mk, K.short(st_, 70), "if self._exception is not None: raise self._exception  (before the waiter is created)",
                          f"{where} without looking at an exception recorded meanwhile: set_exception() wakes the waiter that is registered at that moment and nobody else - "
                          "a truncated gzip body in intact chunked framing hangs resp.read() when the last chunk and the terminator arrive in one TCP read; wait_eof() on a stream that already failed never returns")
    chk.expect_count("C08.wake.exception", nwx, 2, "waiter futures created by StreamReader")
    for q, rel in ((MOD, "DataQueue"), (WS, "WebSocketDataQueue")):
        m = 0
        c = repo.cls(q, rel)
        put = "self._buffer.append($D)" if rel == "DataQueue" else "self._put_buffer($D)"
        m += K.wakes_waiter(chk, "C08.wake.queue", repo, c.methods["feed_data"], [put], f"{rel}: message arrival")
        m += K.wakes_waiter(chk, "C08.wake.queue", repo, c.methods["feed_eof"], ["self._eof = True"], f"{rel}: end of stream")
        m += K.wakes_waiter(chk, "C08.wake.queue", repo, c.methods["set_exception"], ["self._exception = exc"], f"{rel}: error")
        chk.expect_count("C08.wake.queue", m, 3, f"producer state changes in {rel}")
        rd = c.methods["read"]
        aw = [a for a in prog.awaits_in(rd.node) if "self._waiter" in norm.raw(a)]
        if aw and any(M.contains(h, "self._waiter = None", ) or any(norm.raw(s) == "self._waiter = None" for s in h.body) for _t, h in K.enclosing_try_handlers(aw[0])):
            chk.ok("C08.wake.queue", aw[0], f"{rel}.read(): a cancelled/timed-out wait clears the waiter")
        else:
            chk.violation("C08.wake.queue", rd, "await self._waiter", "except (CancelledError, TimeoutError): self._waiter = None", f"{rel}.read(): a cancelled wait leaves a stale waiter (next read asserts / never wakes)")
    # ---- waiter hygiene --------------------------------------------------------------------------------------
    wt = repo.func(MOD, f"{SR}._wait")
    fins = [s for s, _b in K.stmts(wt, "self._waiter = None") if K.in_finally(s) is not None]
    aw = prog.awaits_in(wt.node)
    if fins and aw and prog.in_body_of(aw[0], K.in_finally(fins[0]), "body"):
        chk.ok("C08.waiter", fins[0], "_wait(): the waiter is reset in the finally of the try that awaits it")
    else:
        chk.violation("C08.waiter", wt, "finally: self._waiter = None", "finally", "_wait(): a cancelled or timed-out read leaves its waiter behind")
    K.find_rejection(chk, "C08.waiter", wt, [("self._waiter is None", False, "another coroutine is already waiting")], {"RuntimeError"}, "one reader at a time", strict_extra=False)
    # every wait for data re-tests its condition in a loop (a wake-up may carry no bytes: chunk end, error)
    nw = 0
    for name, m in sr.methods.items():
        for call, _b in K.exprs(m, "self._wait($N)"):
            nw += 1
            loops = K.loop_ancestors(call)
            if loops:
                chk.ok("C08.waitloop", call, f"{name}(): the wait is inside a loop that re-evaluates `{K.short(loops[0].test if isinstance(loops[0], ast.While) else loops[0].iter, 50)}`")
            else:
                chk.violation("C08.waitloop", call, K.short(call), "enclosing `while <no data and not eof>` loop",
                              f"{name}(): after a wake-up that carries no bytes (end of an HTTP chunk whose data was already read) the method returns b'' - the end-of-stream value - although the stream is not at EOF")
    chk.expect_count("C08.waitloop", nw, 4, "`await self._wait(...)` sites")
    # empty result only at EOF: read()/readany() loops exit on buffer or eof
    for name in ("read", "readany"):
        m = sr.methods[name]
        for call, _b in K.exprs(m, "self._wait($N)"):
            loops = K.loop_ancestors(call)
            if loops and isinstance(loops[0], ast.While):
                cn = norm.cnf_raw(loops[0].test, True)
                lits = {str(next(iter(c))) for c in cn if len(c) == 1}
                if lits == {"!(self._buffer)", "!(self._eof)"}:
                    chk.ok("C08.waitloop", loops[0], f"{name}(): waits exactly while `not self._buffer and not self._eof`")
                else:
                    chk.violation("C08.waitloop", loops[0], K.short(loops[0].test), "not self._buffer and not self._eof", f"{name}(): wait condition changed: may return b'' before EOF or block with data buffered")
    # ---- flow control ---------------------------------------------------------------------------------------------
    np_ = 0
    # a pause site is the call of pause_reading() or, when that sits unconditionally in a private helper of the class (`_pause_reading()`),
    # each call of the helper (round 6: the condition belongs to the caller then)
    def pause_sites(pattern, depth=0):
        out = []
        for name, m in sr.methods.items():
            for call, _b in K.exprs(m, pattern):
                cl = PC.pc(call)
                if not cl and depth < 2 and name.startswith("_") and not name.startswith("__"):
                    inner = pause_sites(f"self.{name}()", depth + 1)
                    if inner:
                        out += inner
                        continue
                out.append((name, call, cl))
        return out
    for name, call, cl in pause_sites("self._protocol.pause_reading()"):
        if True:
            np_ += 1
            if PC.has_lit(cl, "self._size > self._high_water", True) is not None or PC.has_lit(cl, "self._size < self._high_water", False) is not None:
                chk.ok("C08.flow", call, f"{name}(): transport paused when buffered bytes exceed the high-water mark")
            elif PC.has_lit(cl, "len(self._http_chunk_splits) > self._high_water_chunks", True) is not None or PC.has_lit(cl, "len(self._http_chunk_splits) < self._high_water_chunks", False) is not None:
                chk.ok("C08.flow", call, f"{name}(): transport paused when pending chunk marks exceed their high-water mark")
            else:
                chk.violation("C08.flow", call, K.short(call), "(self._size > self._high_water) | (len(self._http_chunk_splits) > self._high_water_chunks)",
                              f"{name}(): pause_reading() is not tied to a high-water mark", path_condition=norm.fmt_cnf(cl))
    chk.expect_count("C08.flow", np_, 2, "pause_reading() sites in StreamReader")
    # the pause test follows the append in feed_data
    g = cfg_of(fd.node)
    apps = K.nodes_matching(fd, "self._buffer.append($D)")
    pz = [n for n in g.nodes if n.kind == "test" and K.node_has(n, "self._size > self._high_water")] + [n for n in g.nodes if n.kind == "test" and K.node_has(n, "self._size >= self._high_water")]
    if apps and pz:
        K.must_pass(chk, "C08.flow", fd, apps, lambda n: n in pz, "every data arrival evaluates the high-water test", construct="self._buffer.append(data)", missing="if self._size > self._high_water")
    else:
        chk.violation("C08.flow", fd, "if self._size > self._high_water: pause", "high-water test after append", "feed_data() does not test the high-water mark")
    res = K.exprs(rc, "self._protocol.resume_reading()")
    if not res:
        chk.violation("C08.flow", rc, "self._protocol.resume_reading()", "resume in the consumption primitive", "consuming data never resumes the transport: a drained reader stays paused forever")
    else:
        cl = PC.pc(res[0][0])
        # `size < low_water`, possibly widened by `not size` (an empty buffer always resumes, also with a limit of 0)
        ok_size = PC.has_lit(cl, "self._size < self._low_water", True) is not None or PC.has_lit(cl, "self._size > self._low_water", False) is not None \
            or any({str(l) for l in c} == {"!(self._size)", "(self._size < self._low_water)"} for c in cl)
        ok_chunks = any(any("self._http_chunk_splits is None" in l.text and l.pos for l in c) and any("len(self._http_chunk_splits)" in l.text and "_low_water_chunks" in l.text for l in c) for c in cl)
        # `not self._eof`: a finished stream does not resume on behalf of a later message's stream (C09.resume)
        extra = [c for c in cl if not all("self._size" in l.text for l in c) and not (any("_http_chunk_splits" in l.text for l in c)) and {str(l) for l in c} != {"!(self._eof)"}]
        empty_resumes = any({str(l) for l in c} == {"!(self._size)", "(self._size < self._low_water)"} for c in cl) or PC.has_lit(cl, "self._size <= self._low_water", True) is not None
        if ok_size and ok_chunks and not extra and not empty_resumes:
            chk.violation("C08.flow", res[0][0], K.short(res[0][0]), "(!(self._size) | (self._size < self._low_water))",
                          "the resume test is `size < low_water` alone: with a limit (read_bufsize) of 0 the low-water mark is 0, the test is never true, and a reader blocked on an empty buffer is left with the transport paused for good",
                          path_condition=norm.fmt_cnf(cl))
        elif ok_size and ok_chunks and not extra:
            chk.ok("C08.flow", res[0][0], "resume_reading() under `(buffer empty or size < low_water) and (no chunk marks or marks < low_water_chunks)`, nothing else")
        else:
            chk.violation("C08.flow", res[0][0], K.short(res[0][0]), "(self._size < self._low_water) & (splits is None | len(splits) < low_water_chunks) only",
                          "the resume condition changed: a reader below the low-water mark may stay paused", path_condition=norm.fmt_cnf(cl))
        # resume follows the accounting
        gr = cfg_of(rc.node)
        acc = [n for n in gr.nodes if K.node_has(n, "self._size -= $L", "exec")]
        rn = gr.nodes_of(res[0][0])
        tn = [n for n in gr.nodes if n.kind == "test" and K.node_has(n, "self._size < self._low_water")]
        if acc and tn and gr.find_path([gr.entry], lambda n: n in tn, lambda n: n in acc, EXPLICIT) is None:
            chk.ok("C08.flow", res[0][0], "the low-water test is evaluated after the size accounting on every path")
        else:
            chk.violation("C08.flow", rc, "if self._size < self._low_water", "after `self._size -= data_len`", "the low-water test uses a stale size")
    fe = repo.func(MOD, f"{SR}.feed_eof")
    rr = K.exprs(fe, "self._protocol.resume_reading(resume_parser=False)")
    if rr and not PC.pc(rr[0][0]):
        chk.ok("C08.flow", rr[0][0], "feed_eof() resumes the transport unconditionally (without re-entering the parser)")
    else:
        chk.violation("C08.flow", fe, "self._protocol.resume_reading(resume_parser=False)", "unconditional", "EOF leaves the transport paused")
    sc = repo.func(MOD, f"{SR}.set_read_chunk_size")
    for s, _b in K.stmts(sc, "self._low_water = $N") + K.stmts(sc, "self._high_water = $N"):
        K.require_lits(chk, "C08.flow", s, [("n > self._low_water", True, "marks only grow")], "set_read_chunk_size() only raises the water marks")
    # ---- chunk boundaries ---------------------------------------------------------------------------------------------
    ec = repo.func(MOD, f"{SR}.end_http_chunk_receiving")
    ap = K.exprs(ec, "self._http_chunk_splits.append(self.total_bytes)")
    if ap and PC.has_lit(PC.pc(ap[0][0]), "self.total_bytes == $P", False) is not None:
        chk.ok("C08.chunks", ap[0][0], "a chunk boundary is recorded at the producer's byte count, and only for non-empty chunks")
    else:
        chk.violation("C08.chunks", ec, "self._http_chunk_splits.append(self.total_bytes)", "!(self.total_bytes == pos)", "chunk boundaries are not recorded at the sender's positions")
    # "empty" is judged against the last recorded boundary, which must not be read back from the queue the consumer drains
    bnd = PC.has_lit(PC.pc(ap[0][0]), "self.total_bytes == $P", False) if ap else None
    prev = norm.text(bnd["P"], ap[0][0]) if bnd else ""
    if prev and "_http_chunk_splits[-1]" not in prev and "_http_chunk_splits" not in prev:
        chk.ok("C08.chunks", ap[0][0], f"the previous boundary (`{prev}`) is kept by the producer itself (not taken from the split queue, which readchunk() empties)")
    else:
        chk.violation("C08.chunks", ap[0][0] if ap else ec, "pos = self._http_chunk_splits[-1] if self._http_chunk_splits else 0", "a producer-side record of the last boundary",
                      "the previous chunk boundary is read from the split queue: once the reader has drained the queue it looks like `no boundary yet` (0), so an empty HTTP chunk (e.g. a gzip trailer chunk) is recorded as a duplicate boundary or not depending on whether the reader was faster - readchunk() returns a spurious (b'', True)")
    rk = repo.func(MOD, f"{SR}.readchunk")
    if K.exprs(rk, "self._read_nowait(pos - self._cursor)") and K.exprs(rk, "self._http_chunk_splits.popleft()"):
        chk.ok("C08.chunks", rk, "readchunk() reads up to the next recorded boundary relative to the consumer cursor")
    else:
        chk.violation("C08.chunks", rk, "self._read_nowait(pos - self._cursor)", "boundary-relative read", "readchunk() does not stop at the recorded chunk boundary")
    # the chunk iterator ends exactly at readchunk()'s end-of-stream value: (b"", True) is a chunk boundary with data still to come
    ci = repo.func(MOD, "ChunkTupleAsyncStreamIterator.__anext__")
    eofs = [r for r in ast.walk(rk.node) if isinstance(r, ast.Return) and r.value is not None and norm.raw(r.value).replace(" ", "") in ("(b'',False)", 'b"",False')]
    stops = [r for r, _c in K.raises_in(ci, ("StopAsyncIteration",))]
    if not stops or not eofs:
        chk.violation("C08.iterend", ci, "if rv == (b'', False): raise StopAsyncIteration", "", "iter_chunks() has no end-of-stream test (or readchunk() no end-of-stream value)")
    for r in stops:
        cl = PC.pc(r)
        whole = PC.has_lit(cl, [("$R == (b'', False)", True), ("(b'', False) == $R", True), ("$R != (b'', False)", False)], True) is not None
        parts = (PC.has_lit(cl, [("$R[1]", False), ("$R[1] is False", True), ("$R[1] == False", True)], True) is not None
                 and PC.has_lit(cl, [("$R[0] == b''", True), ("$R[0]", False), ("not $R[0]", True)], True) is not None)
        if whole or parts:
            chk.ok("C08.iterend", r, "iter_chunks() stops only on readchunk()'s end-of-stream value (b'', False)")
        else:
            chk.violation("C08.iterend", r, K.short(r), "(rv == (b'', False))",
                          "iter_chunks() ends on something other than readchunk()'s end-of-stream value: readchunk() also returns (b'', True) - a chunk boundary with nothing buffered before it - while data is still to come, so the iteration reports end-of-stream early and the rest of the body is dropped",
                          path_condition=norm.fmt_cnf(cl))
    # at_eof / is_eof
    ae = repo.func(MOD, f"{SR}.at_eof")
    r = [n for n in ast.walk(ae.node) if isinstance(n, ast.Return)]
    if r and {str(next(iter(c))) for c in norm.cnf_raw(r[0].value, True) if len(c) == 1} == {"(self._eof)", "!(self._buffer)"}:
        chk.ok("C08.eof", r[0], "at_eof() = eof fed and buffer empty (end-of-stream only after all data)")
    else:
        chk.violation("C08.eof", ae, "return self._eof and not self._buffer", "", "at_eof() reports end of stream while data is still buffered")
    hunt5_rules(chk, repo)
    eof_resume_rule(chk, repo)


def eof_resume_rule(chk, repo, rule="C08.flow.eof"):
    """Rule written after seeding round 7 (seeds C08-7 and C05-7, the same change from two writers): end of stream hands every pause back.
    After EOF _read_nowait_chunk() no longer resumes (by design: a later message's stream may have paused), so feed_eof() is the last chance
    for this stream's pause to be lifted - and a pause is not the same as `size > high-water now`: the stream may have drained into the band
    between the marks, or have paused on the number of buffered chunk ends.  The call is unconditional."""
    fe = repo.func(MOD, f"{SR}.feed_eof")
    res = [c for c in prog.calls_in(fe.node) if isinstance(c.func, ast.Attribute) and c.func.attr == "resume_reading"]
    if not res:
        chk.violation(rule, fe, "feed_eof()", "self._protocol.resume_reading(resume_parser=False)", "end of stream does not resume reading: a stream that was paused when its last byte arrived leaves the transport paused for the next message")
        return
    for c in res:
        lits = [l.text for cl_ in PC.pc(K.stmt_of(c), raw=True) for l in cl_]
        if not lits:
            chk.ok(rule, c, "feed_eof() resumes reading unconditionally: whatever paused this stream (bytes over the high-water mark, now or before a partial drain, or too many buffered chunk ends) is handed back")
        else:
            chk.violation(rule, c, K.short(c), "unconditional self._protocol.resume_reading(resume_parser=False)",
                          f"feed_eof() resumes reading only under `{' and '.join(lits)}`: a stream that paused on the number of buffered chunk ends (five 1-byte chunks with read_bufsize=64, 16385 chunks by default), or that was drained into the band between the water marks, is still paused at EOF and nothing resumes it afterwards - the next request on the connection is never read (server) / the next response never arrives (client), the reader blocks on an empty buffer with the transport paused")


def hunt5_rules(chk, repo):
    """Rules written after the fifth defect hunt (F301-F303): a reader of a body stream is told when its connection goes away - and only then."""
    CP, WP, WQ = "aiohttp/client_proto.py", "aiohttp/web_protocol.py", "aiohttp/web_request.py"
    # ---- C08.lost.client: whoever lets go of an unfinished response body wakes its reader -----------------------------------------------------------------
    # connection_lost() fails the payload it still knows.  close() and abort() (connector / session close) forget it first, so connection_lost()
    # finds nothing: a task waiting in resp.content.read() would stay blocked for ever (total=None) although the connection is gone.
    rh = repo.cls(CP, "ResponseHandler")
    n = 0
    for name, fn in rh.methods.items():
        if name in ("__init__", "connection_lost"):
            continue
        drops = [a for a in ast.walk(fn.node) if isinstance(a, ast.Assign) and norm.raw(a.targets[0]) == "self._payload" and isinstance(a.value, ast.Constant) and a.value.value is None]
        gone = [c for c in prog.calls_in(fn.node) if norm.raw(c.func) in ("transport.close", "transport.abort", "self.transport.close", "self.transport.abort")]
        if not drops or not gone:
            continue
        g = cfg_of(fn.node)
        dn = [x for x in g.nodes if x.in_finally_copy is None and any(x.ast is d for d in drops)]
        gn = [x for x in g.nodes if x.in_finally_copy is None and isinstance(getattr(x, "ast", None), ast.AST) and any(c in gone for c in K.node_calls(x))]
        # the payload is dropped on a path on which the transport was closed
        dn = [d for d in dn if g.find_path(gn, lambda x, d=d: x is d, lambda x: False, EXPLICIT) is not None]
        if not dn:
            continue
        n += 1
        def wakes(x):
            if x.kind != "stmt" or not isinstance(getattr(x, "ast", None), ast.AST):
                return False
            for c in K.node_calls(x):
                f = norm.raw(c.func)
                if f in ("set_exception", "set_result") and c.args and "_payload" in norm.raw(c.args[0]):
                    return True
                if f.startswith("self.") and f[5:] in rh.methods and any("_waiter" in norm.raw(y) or "set_exception" in norm.raw(y) for y in ast.walk(rh.methods[f[5:]].node) if isinstance(y, (ast.Attribute, ast.Name))) and "_payload" in norm.raw(rh.methods[f[5:]].node):
                    return True
            return False
        p_ = g.find_path([g.entry], lambda x: x in dn, wakes, EXPLICIT)
        if p_ is None:
            chk.ok("C08.lost.client", drops[0], f"ResponseHandler.{name}(): the reader of an unfinished body is woken (it then finds the connection closed) before the payload is forgotten")
        else:
            chk.violation("C08.lost.client", drops[0], K.short(drops[0]), "self._wake_payload_reader()  (or set_exception(self._payload, ...)) before self._payload = None",
                          f"ResponseHandler.{name}() closes the transport and forgets the response body without telling its reader: a task waiting in resp.content.read() with 10 of 100 declared bytes received stays blocked after another task ran session.close() - for ever with total=None - because connection_lost() has no stream left to fail", path=g.fmt_path(p_))
    chk.expect_count("C08.lost.client", n, 2, "methods of ResponseHandler that close the transport and drop the payload")
    # ---- C08.lost.server: the request stays registered with the protocol for as long as its body may be read -------------------------------------------------
    # connection_lost() and shutdown() fail the body of self._current_request.  Writing the response may still read it (a response built on
    # request.content, an on_response_prepare signal): the registration covers finish_response() as well, i.e. it is cleared where
    # _request_in_progress is.
    hr = repo.func(WP, "RequestHandler._handle_request")
    clr = [a for a in ast.walk(hr.node) if isinstance(a, ast.Assign) and norm.raw(a.targets[0]) == "self._current_request" and isinstance(a.value, ast.Constant) and a.value.value is None]
    fins = [c for c in prog.calls_in(hr.node) if norm.raw(c.func) == "self.finish_response"]
    if not clr or not fins:
        chk.analysis_error("C08.lost.server: `self._current_request = None` / finish_response() not found in RequestHandler._handle_request")
    else:
        early = [a for a in clr if any(a.lineno < c.lineno for c in fins)]
        outer = [a for a in clr if K.in_finally(a) is not None and all(K.in_finally(a).lineno <= c.lineno for c in fins)]
        if not early and outer:
            chk.ok("C08.lost.server", outer[0], "_handle_request(): the request is unregistered in the finally that covers the handler and every finish_response()")
        else:
            chk.violation("C08.lost.server", (early or clr)[0], K.short((early or clr)[0]), "self._current_request = None in the outer finally, next to self._request_in_progress = False",
                          "the request is unregistered as soon as the handler returned, before finish_response() runs: with `return web.Response(body=request.content)` (or an on_response_prepare signal that reads the body) a client that aborts its upload leaves StreamReader.readany() waiting for ever - connection_lost() fails the body only through _current_request - and with handler_cancellation off the task, the request and its buffers leak until shutdown")
    # ---- C08.lost.complete: a body that was received completely stays readable -------------------------------------------------------------------------------
    cn = repo.func(WQ, "BaseRequest._cancel")
    se = [c for c in prog.calls_in(cn.node) if norm.raw(c.func) == "set_exception" and c.args and "_payload" in norm.raw(c.args[0])]
    if not se:
        chk.analysis_error("C08.lost.complete: set_exception(self._payload, ...) not found in BaseRequest._cancel")
    elif all(any(not l.pos and l.text.endswith(".is_eof()") for l in PC.units(PC.pc(K.stmt_of(c), raw=True))) for c in se):
        chk.ok("C08.lost.complete", se[0], "BaseRequest._cancel(): only a body that is still incomplete is failed (the client protocol does the same)")
    else:
        chk.violation("C08.lost.complete", se[0], K.short(se[0]), "if not self._payload.is_eof(): set_exception(...)",
                      "a lost connection fails the request body whatever its state: a POST whose 1000 declared bytes have all arrived becomes unreadable when the client closes - the running handler's `await request.read()` raises ConnectionResetError although request.content.is_eof() is True and every byte is buffered (the bytes received are not the bytes returned)")


def _balance(chk, fn, subject: str, updates, store_pat):
    """Every counter update in fn uses len(subject) (directly or through a local defined as len(subject))."""
    for target, sign in updates:
        hits = [n for n in ast.walk(fn.node) if isinstance(n, ast.AugAssign) and norm.raw(n.target) == target]
        if len(hits) != 1:
            chk.violation("C08.balance", fn, f"{target} {sign}= len({subject})", f"{len(hits)} updates", f"{fn.name}(): {target} is not updated exactly once")
            continue
        h = hits[0]
        want_op = ast.Add if sign == "+" else ast.Sub
        val = norm.text(h.value, h)
        if isinstance(h.op, want_op) and val == f"len({subject})":
            chk.ok("C08.balance", h, f"{fn.name}(): `{norm.raw(h)}` uses the length of exactly the bytes moved (`{subject}`)")
        else:
            chk.violation("C08.balance", h, norm.raw(h), f"{target} {sign}= len({subject})", f"{fn.name}(): counter update does not match the bytes moved")
    if store_pat:
        if K.exprs(fn, store_pat):
            chk.ok("C08.balance", fn, f"{fn.name}(): `{store_pat}` stores the same object")
        else:
            chk.violation("C08.balance", fn, store_pat, "store", f"{fn.name}(): the accounted bytes are not the bytes stored")
