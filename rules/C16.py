"""C16 Cookies are sent only where RFC 6265 scoping allows (DESIGN 5/C16): local guards and table consistency."""
from __future__ import annotations

import ast
import re

from sa import match as M, norm, pc as PC, prog, rulekit as K
from sa.cfg import EXPLICIT, cfg_of
from sa.loader import AnalysisError

MOD = "aiohttp/cookiejar.py"
CJ = "CookieJar"
TABLES = ("_cookies", "_morsel_cache", "_host_only_cookies", "_expirations")


def clause_has(clauses, wanted: set[str]) -> bool:
    """A clause whose literal set equals `wanted` (strings like '(x)' / '!(x)'); unit or disjunctive."""
    return any({str(l) for l in c} == wanted for c in clauses)


def run(chk):
    repo = chk.repo
    chk.explanation = (
        "Decided on aiohttp/cookiejar.py: a cookie is stored only if the response host domain-matches the cookie domain and (unless unsafe) the host is "
        "not an IP; _is_domain_match has its four tests; both ways a cookie enters the result of filter_cookies are behind the host-only, path-length and "
        "secure filters; on every path to the store the host-only flag and the expiry deadline of that key have been set or cleared (replacement resets "
        "all attributes, RFC 6265 5.3 step 11) and the built-morsel cache entry is dropped with the store; every deletion touches all four tables; "
        "expiry runs before selection and deletes only entries whose recorded deadline is the one that fired; save() and load() agree on their keys."
    )
    chk.not_decided = "equality with an RFC 6265 reference store over histories; date parsing; path-match beyond the length/prefix structure."
    chk.explanation += " After the defect hunt: side tables are keyed by the full cookie identity; parsed dates are compared with None; the Max-Age arithmetic cannot overflow."
    chk.explanation += " Second hunt: only a failed match or a missing cookie pair ends the Set-Cookie parse; the Expires value runs to the next `;`; the Domain attribute is lower-cased where it is read; path-match and default-path use the encoded path."
    uc = repo.func(MOD, f"{CJ}.update_cookies")
    fc = repo.func(MOD, f"{CJ}.filter_cookies")
    # ---- accept -------------------------------------------------------------------------------------------
    stores = [s for s, _b in K.stmts(uc, "self._cookies[$K][$N] = $C")]
    if len(stores) != 1:
        raise AnalysisError(f"C16.accept: {len(stores)} cookie stores in update_cookies (1 confirmed)")
    st = stores[0]
    cl = PC.pc(st, raw=True)
    if clause_has(cl, {"!(hostname)", "(self._is_domain_match(domain, hostname))"}):
        chk.ok("C16.accept", st, "a cookie is stored only if the response host domain-matches its domain (or no response URL is involved)")
    else:
        chk.violation("C16.accept", st, K.short(st), "!(hostname and not self._is_domain_match(domain, hostname))",
                      "a response can set a cookie for a domain it does not belong to (one site replaces another site's cookies)", path_condition=norm.fmt_cnf(cl)[:500])
    if clause_has(cl, {"(self._unsafe)", "!(is_ip_address(hostname))"}):
        chk.ok("C16.accept", st, "cookies from IP-address hosts are refused unless the jar is unsafe")
    else:
        chk.violation("C16.accept", st, K.short(st), "!(not self._unsafe and is_ip_address(hostname))", "cookies from IP hosts are accepted by a safe jar")
    hn = norm.fn_defs(uc.node).defs.get("hostname", [])
    # every definition of the tested host derives from the response URL's host (itself, or a normalisation of it: lower-casing)
    def _from_host(v):
        t = norm.raw(v)
        return t == "response_url.raw_host" or t in ("hostname.lower()", "response_url.raw_host.lower()", "(response_url.raw_host or '').lower()")
    if hn and all(v is not None and _from_host(v) for _d, v in hn) and any(norm.raw(v).startswith("response_url.raw_host") or "response_url.raw_host" in norm.raw(v) for _d, v in hn):
        chk.ok("C16.accept", hn[0][0], "the tested host is the response URL's host")
        lowered = any(".lower()" in norm.raw(v) for _d, v in hn)
        fh = norm.fn_defs(fc.node).defs.get("hostname", [])
        lowered_f = any(v is not None and ".lower()" in norm.raw(v) for _d, v in fh)
        if lowered and lowered_f:
            chk.ok("C16.match", hn[0][0], "both the storing and the filtering side lower-case the URL host (yarl keeps the case of a URL built with encoded=True)")
        else:
            chk.violation("C16.match", hn[0][0], K.short(hn[0][0]), "hostname = hostname.lower()  (update_cookies and filter_cookies)",
                          "the jar compares host names case-sensitively: for `http://LOCALHOST:port/me` (a redirect target taken verbatim with requote_redirect_url=False) no cookie of `localhost` is sent, a Domain cookie from that URL is refused and host-only cookies are stored under a key the lower-case host never reads")
    else:
        chk.violation("C16.accept", uc, "hostname = response_url.raw_host", "", "the host used for acceptance is not the response host")
    # domain normalisation precedes the match test
    dm = K.exprs(uc, "self._is_domain_match(domain, hostname)")
    strip = [s for s in ast.walk(uc.node) if isinstance(s, ast.Assign) and norm.raw(s.targets[0]) == "domain" and norm.raw(s.value) == "domain[1:]"]
    if dm and strip and strip[0].lineno < dm[0][0].lineno and PC.has_lit(PC.pc(strip[0], raw=True), "domain[0] == '.'", True) is not None:
        chk.ok("C16.accept", strip[0], "a leading dot is removed from the domain before matching")
    else:
        chk.violation("C16.accept", uc, "if domain and domain[0] == '.': domain = domain[1:]", "before the domain match", "domain normalisation changed")
    # ---- match ------------------------------------------------------------------------------------------------
    im = repo.func(MOD, f"{CJ}._is_domain_match")
    # the part of the host in front of the domain suffix, written in place or through the local `non_matching`
    rets = [(r, norm.raw(r.value), {str(l).replace("hostname[:-len(domain)]", "non_matching") for l in PC.units(PC.pc(r, raw=True))}) for r in ast.walk(im.node) if isinstance(r, ast.Return)]
    want = [("True", {"(hostname == domain)"}), ("False", {"!(hostname == domain)", "!(hostname.endswith(domain))"}),
            ("False", {"!(hostname == domain)", "(hostname.endswith(domain))", "!(non_matching.endswith('.'))"}),
            ("not is_ip_address(hostname)", {"!(hostname == domain)", "(hostname.endswith(domain))", "(non_matching.endswith('.'))"})]
    okm = all(any(v == wv and u == wu for _r, v, u in rets) for wv, wu in want)
    nm = norm.fn_defs(im.node).defs.get("non_matching", [])
    if okm and ((len(nm) == 1 and norm.raw(nm[0][1]) == "hostname[:-len(domain)]") or (not nm and "hostname[:-len(domain)]" in norm.raw(im.node))):
        chk.ok("C16.match", im, "domain-match: equal, or suffix preceded by a dot and host not an IP address")
    else:
        chk.violation("C16.match", im, "_is_domain_match", "equality / suffix / preceding dot / not-an-IP", "RFC 6265 5.1.3 domain matching changed (suffix look-alikes like `evilexample.com` or IPs may match)",
                      returns=[(v, sorted(u)) for _r, v, u in rets])
    # ---- filter ---------------------------------------------------------------------------------------------------
    pair_loop = [f for f in ast.walk(fc.node) if isinstance(f, ast.For) and norm.raw(f.iter) == "pairs"]
    if not pair_loop:
        raise AnalysisError("C16.filter: (domain, path) pair loop not found")
    adds = [s for s in ast.walk(pair_loop[0]) if isinstance(s, ast.Assign) and isinstance(s.targets[0], ast.Subscript) and norm.raw(s.targets[0].value) == "filtered"]
    chk.expect_count("C16.filter", len(adds), 2, "ways a scoped cookie enters the result")
    for a in adds:
        cl = PC.pc(a, stop=pair_loop[0], raw=True)
        need = [({"!((domain, name) in self._host_only_cookies)", "(domain == hostname)"}, "host-only cookies go only to the exact host"),
                ("PATHPREFIX", "the request path starts with the cookie's whole Path (the lookup key is the Path without its trailing slashes)"),
                ({"!(is_not_secure)", "!(cookie['secure'])"}, "Secure cookies only over secure requests")]
        for w, why in need:
            host_only = "host-only" in why and any(len(c) == 2 and {str(l) for l in c} & {"(domain == hostname)"} and any((not l.pos) and l.text.endswith(" in self._host_only_cookies") for l in c) for c in cl)
            if w == "PATHPREFIX":
                # raw_path.startswith(cookie['path']) on the raw request path; a comparison of lengths is not enough (`/a/` vs `/ab`)
                okp = any(len(c) == 1 and l.pos and M.match_text("$P.startswith(cookie['path'])", l.text) is not None and "raw_path" in l.text for c in cl for l in c)
                if okp:
                    chk.ok("C16.filter", a, f"`{K.short(a, 40)}` is behind: {why}")
                else:
                    chk.violation("C16.filter", a, K.short(a), "if not raw_path.startswith(cookie['path']): continue",
                                  "the (domain, path) key under which a cookie is found is its Path without trailing slashes; comparing only the lengths afterwards sends a cookie with `Path=/a/` to `/ab` (same length, different path) and with `Path=/docs//` to `/docs/x`: RFC 6265 5.1.4 wants the cookie-path to be a prefix of the request-path",
                                  path_condition=norm.fmt_cnf(cl)[:500])
                continue
            if clause_has(cl, w) or host_only:  # the key expression of the host-only table is decided by C16.identity
                chk.ok("C16.filter", a, f"`{K.short(a, 40)}` is behind: {why}")
            else:
                chk.violation("C16.filter", a, K.short(a), " | ".join(sorted(w)), f"a cookie can be attached without the filter: {why}", path_condition=norm.fmt_cnf(cl)[:500])
    ipret = [r for r in ast.walk(fc.node) if isinstance(r, ast.Return) and PC.has_lit(PC.pc(r, raw=True), "is_ip_address(hostname)", True) is not None and PC.has_lit(PC.pc(r, raw=True), "self._unsafe", False) is not None]
    if ipret and ipret[0].lineno < pair_loop[0].lineno:
        chk.ok("C16.filter", ipret[0], "requests to IP hosts get no scoped cookies from a safe jar")
    else:
        chk.violation("C16.filter", fc, "if is_ip_address(hostname): if not self._unsafe: return filtered", "", "scoped cookies are sent to IP hosts")
    # domains / paths enumerated from the request URL
    if "reversed(hostname.split('.'))" in norm.raw(fc.node) and ".split('/')" in norm.raw(fc.node) and "itertools.product(" in norm.raw(fc.node):
        chk.ok("C16.filter", fc, "candidates are the suffixes of the request host x the prefixes of the request path")
    else:
        chk.violation("C16.filter", fc, "domains = accumulate(reversed(hostname.split('.'))) ; paths = accumulate(path.split('/'))", "", "candidate (domain, path) enumeration changed")
    # RFC 6265 5.1.4: path-match works on the uri-path as sent.  yarl's `.path` is percent-decoded (`%2F` becomes `/`, `%20` a blank), so it
    # neither equals what the server wrote into Path= nor keeps segment boundaries
    jar = repo.cls(MOD, "CookieJar")
    dec = [a for m_ in jar.methods.values() for a in ast.walk(m_.node) if isinstance(a, ast.Attribute) and a.attr == "path" and isinstance(a.value, ast.Name) and a.value.id.endswith("_url")]
    if dec:
        for a in dec:
            chk.violation("C16.filter", a, norm.raw(a), f"{norm.raw(a.value)}.raw_path",
                          "cookie path scoping uses the percent-decoded URL.path against the raw Path attribute: `Path=/my%20app` set by /my%20app/login is never sent to /my%20app/home, `Path=/admin` is sent to the single-segment target /admin%2Fx, and the default-path of /a%2Fb becomes /a")
    else:
        chk.ok("C16.filter", fc, "path-match and default-path use the encoded request path (raw_path)")
    # ---- delete ----------------------------------------------------------------------------------------------------
    removers = {}
    for t in TABLES:
        for fn, hits in prog.writers(repo, [MOD], t).items():
            if fn.qualname.split(".")[0] != CJ:
                continue
            for n, k in hits:
                if k in ("del", "call:pop", "call:discard", "call:remove", "call:clear", "call:popitem"):
                    removers.setdefault(fn.qualname, set()).add(t)
    for q, ts in sorted(removers.items()):
        if q.endswith(("update_cookies", "filter_cookies")):
            continue  # per-key resets on overwrite (checked below) / cache fill
        if ts == set(TABLES):
            chk.ok("C16.delete", repo.func(MOD, q), f"{q} removes from all four tables ({', '.join(sorted(ts))})")
        else:
            chk.violation("C16.delete", repo.func(MOD, q), q, f"missing {sorted(set(TABLES) - ts)}", "a deletion leaves side-table entries behind (stale host-only flag / deadline / cached morsel applies to a later cookie of the same name)")
    if not {"CookieJar._delete_cookies", "CookieJar.clear"} <= set(removers):
        chk.analysis_error("C16.delete: _delete_cookies / clear not seen as removers")
    # ---- overwrite ----------------------------------------------------------------------------------------------------
    g = cfg_of(uc.node)
    loop = [f for f in ast.walk(uc.node) if isinstance(f, ast.For) and norm.raw(f.iter) == "cookies"]
    heads = [n for n in g.nodes if n.kind == "for" and loop and n.ast is loop[0]]
    store_nodes = g.nodes_of(st)
    for attr, pats, why in (("_host_only_cookies", ("self._host_only_cookies.add($K)", "self._host_only_cookies.discard($K)"), "host-only flag"),
                            ("_expirations", ("self._expire_cookie($W, domain, path, name)", "self._expirations.pop((domain, path, name), None)"), "expiry deadline")):
        def via(n, pats=pats):
            return any(K.node_has(n, p) for p in pats)
        K.must_pass(chk, "C16.overwrite", uc, None, via, f"on every path to the store the {why} of this cookie key is set or cleared", start_edges=[(h, "T") for h in heads],
                    targets=lambda n: n in store_nodes, construct=K.short(st), missing=" | ".join(pats))
    # the store test itself must not guard the side-table updates
    stif = st.parent if isinstance(st.parent, ast.If) else None
    if stif is not None:
        inside = [n for n in ast.walk(stif) if isinstance(n, ast.Call) and norm.raw(n.func) in ("self._host_only_cookies.add", "self._host_only_cookies.discard", "self._expire_cookie")]
        if inside:
            chk.violation("C16.overwrite", inside[0], K.short(inside[0]), "outside `if self._cookies[key].get(name) != cookie`",
                          "scope attributes are updated only when the stored morsel changes; a host-only cookie and a Domain cookie with equal value compare equal, so the flag keeps its old state")
        if any(M.contains(s, "self._morsel_cache[key].pop(name, None)") for s in stif.body):
            chk.ok("C16.overwrite", stif, "the cached built morsel is dropped together with the store")
        else:
            chk.violation("C16.overwrite", stif, K.short(st), "self._morsel_cache[key].pop(name, None)", "a replaced cookie keeps being sent with its old cached value")
    # a re-issued cookie replaces the stored one unless it is the same cookie in *every* attribute: the store may be skipped only on a
    # whole-Morsel comparison (Morsel.__eq__ covers value, coded value and all attributes), never on a comparison of selected fields
    lp_ = next(iter(K.loop_ancestors(st)), None)
    glits = [l for c in PC.pc(st, stop=lp_, raw=True) for l in c] if lp_ is not None else []
    fieldwise = [l for l in glits if re.search(r"\b(cookie|stored)\.(value|coded_value|key)\b", l.text) or re.search(r"\bcookie\[", l.text)]
    whole = [l for l in glits if re.search(r"(!=|==) cookie\b|\bcookie (!=|==)", l.text)]
    if fieldwise:
        chk.violation("C16.overwrite", st, K.short(st), "if self._cookies[key].get(name) != cookie",
                      f"the stored cookie is kept when `{fieldwise[0].text}` says it is `the same`: a cookie re-issued with the same value but other attributes (`sid=abc; Path=/` then `sid=abc; Path=/; Secure`) is treated as a no-op, the old, looser attributes stay in the jar and the cookie keeps going out over plain http")
    elif whole or not [l for l in glits if "cookie" in l.text]:
        chk.ok("C16.overwrite", st, "the stored morsel is replaced unless the new one equals it as a whole (value and every attribute)")
    # host-only flag is decided after the acceptance test (a refused response cannot change it)
    ho = [n for n in ast.walk(uc.node) if isinstance(n, ast.Call) and norm.raw(n.func) in ("self._host_only_cookies.add", "self._host_only_cookies.discard")]
    dmn = dm[0][0].lineno if dm else 0
    if ho and all(n.lineno > dmn for n in ho):
        chk.ok("C16.overwrite", ho[0], "the host-only flag is changed only after the domain-match acceptance test")
    else:
        chk.violation("C16.overwrite", uc, "self._host_only_cookies.add/discard", "after the domain-match test", "a response that is not allowed to set the cookie can still change its host-only flag")
    # ---- expire ---------------------------------------------------------------------------------------------------------
    de = K.exprs(fc, "self._do_expiration()")
    if de and de[0][0].lineno < pair_loop[0].lineno:
        chk.ok("C16.expire", de[0][0], "filter_cookies() expires cookies before selecting")
    else:
        chk.violation("C16.expire", fc, "self._do_expiration()", "before selection", "expired cookies are sent")
    dx = repo.func(MOD, f"{CJ}._do_expiration")
    ap = K.exprs(dx, "to_del.append(cookie_key)")
    if ap and PC.has_lit(PC.pc(ap[0][0], raw=True), "self._expirations.get(cookie_key) == when", True) is not None and PC.has_lit(PC.pc(ap[0][0], raw=True), "when > now", False) is not None:
        chk.ok("C16.expire", ap[0][0], "a cookie is deleted only when the deadline that fired is its current recorded deadline")
    else:
        chk.violation("C16.expire", dx, "to_del.append(cookie_key)", "(self._expirations.get(cookie_key) == when) & !(when > now)", "a stale heap entry deletes a cookie that was re-set with a later deadline")
    # ---- persist -----------------------------------------------------------------------------------------------------------
    sv = repo.func(MOD, f"{CJ}.save")
    ld = repo.func(MOD, f"{CJ}._load_json_data")
    written = set()
    for n in ast.walk(sv.node):
        if isinstance(n, ast.Dict) and all(isinstance(k, ast.Constant) for k in n.keys) and n.keys:
            written |= {k.value for k in n.keys}
        if isinstance(n, ast.Assign) and isinstance(n.targets[0], ast.Subscript) and norm.raw(n.targets[0].value) == "morsel_data" and isinstance(n.targets[0].slice, ast.Constant):
            written.add(n.targets[0].slice.value)
    read = set()
    for n in ast.walk(ld.node):
        if isinstance(n, ast.Subscript) and norm.raw(n.value) == "morsel_data" and isinstance(n.slice, ast.Constant):
            read.add(n.slice.value)
        if isinstance(n, ast.Call) and norm.raw(n.func) == "morsel_data.get" and n.args and isinstance(n.args[0], ast.Constant):
            read.add(n.args[0].value)
    want = {"key", "value", "coded_value", "host_only", "expires_timestamp"}
    if written == want and read == want:
        chk.ok("C16.persist", sv, f"save() writes and load() reads the same keys {sorted(want)} (host-only flag and absolute deadline survive a save/load cycle)")
    else:
        chk.violation("C16.persist", sv, "save / _load_json_data", f"written={sorted(written)} read={sorted(read)}", "save and load disagree: a reloaded cookie loses its host-only flag or deadline (leaks to sub-domains / never expires)")
    if PC.has_lit(PC.pc(next(iter([s for s, _b in K.stmts(ld, "morsel['domain'] = ''")]), ld.node), raw=True), "morsel_data.get('host_only')", True) is not None \
            and K.exprs(ld, "self.update_cookies({name: morsel}, $U)") and K.exprs(ld, "self._expire_cookie(float(exp), domain, path, name)"):
        chk.ok("C16.persist", ld, "loaded cookies pass through update_cookies() (acceptance rules) and get their host-only flag and deadline back")
    else:
        chk.violation("C16.persist", ld, "_load_json_data", "host_only -> domain='' ; update_cookies ; _expire_cookie", "loading bypasses the acceptance rules or drops scope attributes")
    # (round 6, seed C16-6) what only the jar knows is written for every cookie the jar knows it about: after load() the deadline and the
    # host-only flag live in self._expirations / self._host_only_cookies alone (load() strips Max-Age/Expires from the morsel), so whether
    # save() writes them may depend on those tables only - not on attributes the morsel happens to carry
    for keyname, table in (("expires_timestamp", "self._expirations"), ("host_only", "self._host_only_cookies")):
        sts = [n for n in ast.walk(sv.node) if isinstance(n, ast.Assign) and isinstance(n.targets[0], ast.Subscript) and norm.raw(n.targets[0].value) == "morsel_data"
               and isinstance(n.targets[0].slice, ast.Constant) and n.targets[0].slice.value == keyname]
        if not sts:
            continue  # reported by C16.persist above
        for st in sts:
            loops = [l for l in K.loop_ancestors(st)]
            inner = loops[0] if loops else None
            defs = norm.fn_defs(sv.node)
            def about_table(text):
                if table in text:
                    return True
                try:
                    names = {n.id for n in ast.walk(ast.parse(text, mode="eval")) if isinstance(n, ast.Name)}
                except SyntaxError:
                    return False
                def src(d):
                    return d.iter if isinstance(d, (ast.For, ast.AsyncFor)) else d.value if isinstance(d, (ast.Assign, ast.AnnAssign, ast.NamedExpr)) and d.value is not None else None
                return any(any(src(d) is not None and table in norm.raw(src(d)) for d in defs.def_nodes(nm)) for nm in names)
            lits = [l for cl_ in PC.pc(st, stop=inner, raw=True) for l in cl_] if inner is not None else []
            foreign = [l.text for l in lits if not about_table(l.text)]
            if inner is None or "morsel" in norm.raw(inner.iter).split(".")[0] or foreign:
                chk.violation("C16.persist.own", st, K.short(st), f"if <{table} has the cookie>: morsel_data[{keyname!r}] = ...  directly in the per-cookie loop",
                              f"save() writes {keyname!r} only " + (f"under `{' and '.join(foreign)}`" if foreign else f"inside `for {norm.raw(inner.target)} in {norm.raw(inner.iter)}`" if inner is not None else "outside the cookie loop")
                              + f": a cookie that came out of load() keeps this fact in {table} alone (load() removes Max-Age/Expires from the morsel), so the second save() of a restored jar drops it - the cookie comes back as a session cookie that never expires (or as a domain cookie)")
            else:
                chk.ok("C16.persist.own", st, f"save() writes {keyname!r} whenever {table} has the cookie, independent of the morsel's attributes")
    identity_rules(chk, repo)
    setcookie_rules(chk, repo)
    hunt3_rules(chk, repo)
    hunt4_rules(chk, repo)
    hunt5_rules(chk, repo)
    round7_rules(chk, repo)


def identity_rules(chk, repo):
    """Rules found by reading the jar with the property in hand (defect hunt, DESIGN 12):
    C16.identity  every per-cookie side table is keyed by the cookie's full identity (domain, path, name) - a table keyed by less lets
                  one cookie change the scope attributes of another (a host-only cookie of one path made a Domain cookie by a cookie of another).
    C16.epoch     an expiry time of 0 (the Unix epoch, the usual 'delete this cookie' date) is a time, not 'no date': results of the date
                  parser are compared with None, never tested for truthiness.
    C16.maxage    no exception other than the handled ones can leave update_cookies() because of a Set-Cookie attribute value: the Max-Age
                  arithmetic is clamped or guarded against OverflowError (a 400-digit Max-Age passes int())."""
    cj = repo.cls(MOD, "CookieJar")
    # ---- identity ----
    arities = {}
    for m in cj.methods.values():
        for n in ast.walk(m.node):
            key = None
            tbl = None
            if isinstance(n, ast.Call) and isinstance(n.func, ast.Attribute) and n.func.attr in ("add", "discard", "remove", "pop", "get") and norm.raw(n.func.value) in ("self._host_only_cookies", "self._expirations") and n.args:
                tbl, key = norm.raw(n.func.value), n.args[0]
            elif isinstance(n, ast.Compare) and len(n.ops) == 1 and isinstance(n.ops[0], (ast.In, ast.NotIn)) and norm.raw(n.comparators[0]) in ("self._host_only_cookies", "self._expirations"):
                tbl, key = norm.raw(n.comparators[0]), n.left
            elif isinstance(n, ast.Subscript) and norm.raw(n.value) == "self._expirations":
                tbl, key = "self._expirations", n.slice
            if tbl and isinstance(key, ast.Tuple):
                arities.setdefault(tbl, []).append((len(key.elts), n, m))
    hk = arities.get("self._host_only_cookies", [])
    if not hk:
        chk.analysis_error("C16.identity: no keyed access to _host_only_cookies found (anchor vanished)")
    for ar, n, m in hk:
        names = [norm.raw(e) for e in (n.args[0] if isinstance(n, ast.Call) else n.left).elts]
        # `p[1]`: the path component of a (domain, path) candidate pair
        if ar == 3 and (any("path" in x for x in names) or names[1].endswith("[1]")):
            chk.ok("C16.identity", n, f"{m.name}(): host-only flag keyed by the full cookie identity ({', '.join(names)})")
        else:
            chk.violation("C16.identity", n, K.short(n, 70), "key (domain, path, name)",
                          f"{m.name}(): the host-only flag is keyed by ({', '.join(names)}) while a cookie's identity is (domain, path, name): a same-name cookie on another path (set, overwritten, expired or deleted) adds or removes the flag of this one - a host-only cookie starts going to sub-domains, or a Domain cookie stops")
    # ---- epoch ----
    uc = cj.methods["update_cookies"]
    n_e = 0
    for c in prog.calls_in(uc.node):
        if norm.raw(c.func) not in ("self._parse_date", "cls._parse_date"):
            continue
        n_e += 1
        par = c.parent
        tested_truthy = False
        if isinstance(par, ast.NamedExpr) and isinstance(par.parent, (ast.If, ast.While)) and par.parent.test is par:
            tested_truthy = True
        elif isinstance(par, (ast.If, ast.While)) and par.test is c:
            tested_truthy = True
        elif isinstance(par, ast.Assign) and isinstance(par.targets[0], ast.Name):
            nm = par.targets[0].id
            tested_truthy = any(isinstance(i, ast.If) and isinstance(i.test, ast.Name) and i.test.id == nm for i in ast.walk(uc.node))
        if tested_truthy:
            chk.violation("C16.epoch", c, K.short(K.stmt_of(c), 70), "comparison with None",
                          "the parsed Expires time is tested for truthiness: `Expires=Thu, 01 Jan 1970 00:00:00 GMT` parses to 0, is taken for an invalid date, and the cookie that the server asked to delete is stored as a session cookie and sent for ever")
        else:
            chk.ok("C16.epoch", c, "the parsed Expires time is compared with None (0 is a valid time)")
    chk.expect_count("C16.epoch", n_e, 1, "uses of the date parser in update_cookies")
    # ---- maxage ----
    n_m = 0
    for c in prog.calls_in(uc.node):
        if not (isinstance(c.func, ast.Name) and c.func.id == "int" and c.args and "max_age" in norm.raw(c.args[0]).replace("-", "_")):
            continue
        n_m += 1
        hs = {t for _t, h in K.enclosing_try_handlers(c) for t in PC.handler_types(h)}
        if "OverflowError" in hs or "ArithmeticError" in hs or "Exception" in hs:
            chk.ok("C16.maxage", c, "an over-long Max-Age is handled like an invalid one (OverflowError caught)")
            continue
        st = K.stmt_of(c)
        tgt = st.targets[0].id if isinstance(st, ast.Assign) and isinstance(st.targets[0], ast.Name) else None
        floats = [b for b in ast.walk(uc.node) if isinstance(b, ast.BinOp) and isinstance(b.op, ast.Add) and tgt and any(isinstance(x, ast.Name) and x.id == tgt for x in ast.walk(b)) and "time.time()" in norm.raw(b)]
        clamped = tgt and any(isinstance(a, ast.Assign) and isinstance(a.targets[0], ast.Name) and a.targets[0].id == tgt and norm.raw(a.value).startswith(("min(", "max(")) for a in ast.walk(uc.node))
        if floats and not clamped:
            chk.violation("C16.maxage", floats[0], K.short(floats[0], 60), "except (ValueError, OverflowError) | clamp before the float addition",
                          "`Max-Age=<400 digits>` passes int() and `time.time() + delta` raises OverflowError out of update_cookies(): the response that carried it fails with a bare OverflowError, its remaining cookies are dropped, and side tables already updated for this cookie stay changed")
        else:
            chk.ok("C16.maxage", c, "the Max-Age value is bounded before it meets float arithmetic")
    chk.expect_count("C16.maxage", n_m, 1, "Max-Age conversions")


def round7_rules(chk, repo):
    """Rule written after seeding round 7 (seed C16-7): the expiry heap is a heap whenever it is read.
    _do_expiration() pops entries from the top while they are due and stops at the first that is not: an entry with an earlier deadline that
    sits below a later one is never reached, its cookie is still attached after it expired.  So the list is changed only through heapq, or a
    rebuild is followed by heapq.heapify() before the function is left."""
    cj = repo.cls(MOD, CJ)
    n = 0
    for name, fn in cj.methods.items():
        g = None
        for a in ast.walk(fn.node):
            tgt = None
            if isinstance(a, ast.Assign) and any(norm.raw(t) == "self._expire_heap" for t in a.targets):
                if name == "__init__" or (isinstance(a.value, ast.List) and not a.value.elts):
                    continue
                tgt = a
            elif isinstance(a, ast.Call) and isinstance(a.func, ast.Attribute) and norm.raw(a.func.value) == "self._expire_heap" and a.func.attr in ("append", "remove", "insert", "pop", "sort", "extend", "reverse"):
                tgt = K.stmt_of(a)
            elif isinstance(a, ast.Delete) and any("self._expire_heap" in norm.raw(t) for t in a.targets):
                tgt = a
            if tgt is None:
                continue
            n += 1
            g = g or cfg_of(fn.node)
            tn = [x for x in g.nodes if x.in_finally_copy is None and x.ast is tgt]
            heapify = [x for x in g.nodes if x.kind == "stmt" and isinstance(getattr(x, "ast", None), ast.AST) and K.node_has(x, "heapq.heapify(self._expire_heap)")]
            p_ = g.find_path(tn, lambda x: x.kind == "exit" or (x.kind == "stmt" and isinstance(x.ast, ast.Return)), lambda x: x in heapify, EXPLICIT) if tn else None
            if tn and p_ is None:
                chk.ok("C16.heap", tgt, f"{CJ}.{name}(): the rebuilt expiry list is heapified before the function is left")
            else:
                chk.violation("C16.heap", tgt, K.short(tgt), "heapq.heapify(self._expire_heap) after the rebuild (or heapq.heappush / heappop only)",
                              f"{CJ}.{name}() changes the expiry list without restoring the heap order: filtering a heap array can leave a later deadline above an earlier one, _do_expiration() stops at the first entry that is not due, and the cookie below it is still sent after it expired (clear_domain() of a short-lived cookie, then a request after the medium deadline)")
    chk.expect_count("C16.heap", n, 1, "places that rebuild or edit the expiry list without heapq")


def hunt5_rules(chk, repo):
    """Rules written after the fifth defect hunt (F294-F296)."""
    CL = "aiohttp/client.py"
    DG = "aiohttp/client_middleware_digest_auth.py"
    # ---- C16.store.every: the Set-Cookie of every response received reaches the jar --------------------------------------------------------------------
    # A client middleware may consume a response and send the request again (the 401 of a digest challenge commonly opens the session).  The jar
    # is fed where a response is received - the innermost handler the middleware chain wraps - not where the chain's result comes back.
    inner = repo.func_opt(CL, "_connect_and_send_request")
    if inner is None:
        chk.analysis_error("C16.store.every: the innermost request handler `_connect_and_send_request` was not found in client.py")
    else:
        ups = [c for c in prog.calls_in(inner.node) if isinstance(c.func, ast.Attribute) and c.func.attr in ("update_cookies_from_headers", "update_cookies")]
        foreign = [norm.raw(i.test) for c in ups for i in prog.enclosing(c, (ast.If,)) if "cookie" not in norm.raw(i.test).lower()]
        if ups and not foreign:
            chk.ok("C16.store.every", ups[0], "the response handler below the middleware chain stores the Set-Cookie headers of every response it receives")
        else:
            chk.violation("C16.store.every", inner, "return resp", "req._session._cookie_jar.update_cookies_from_headers(resp._raw_cookie_headers, resp.url) in _connect_and_send_request()",
                          "the jar is updated from the response the middleware chain returns only: a `Set-Cookie: JSESSIONID=...` sent together with a 401 Digest challenge is consumed with that response by DigestAuthMiddleware, never reaches the jar, and no later request of the session carries it - without the middleware the same 401 stores the cookie")
    call = repo.func(DG, "DigestAuthMiddleware.__call__")
    g = cfg_of(call.node)
    sends = [n for n in g.nodes if n.in_finally_copy is None and n.kind == "stmt" and K.node_has(n, "await handler(request)") and list(prog.enclosing(n.ast, (ast.For, ast.While)))]
    fresh = [n for n in g.nodes if n.kind == "stmt" and any(isinstance(c.func, ast.Attribute) and c.func.attr in ("_update_cookies", "update_cookies") and norm.raw(c.func.value) == "request" for c in K.node_calls(n))]
    rels = [n for n in g.nodes if n.kind == "stmt" and K.node_has(n, "response.release()")]
    if sends and rels:
        p_ = g.find_path(rels, lambda n: n in sends, lambda n: n in fresh, EXPLICIT)
        if p_ is None and fresh:
            chk.ok("C16.store.every", fresh[0].ast, "DigestAuthMiddleware: the retry of the challenged request carries the cookies the challenge response has just set")
        else:
            chk.violation("C16.store.every", sends[0].ast, K.short(sends[0].ast), "request._update_cookies(<what the jar now attaches to request.url>) before the retry",
                          "the authenticated retry is the same request object with its old Cookie header: the session cookie the 401 has just set is not sent with it (the server sees an authenticated request without its session)", path=g.fmt_path(p_) if p_ else None)
    # ---- C16.identity.path: two cookies whose Path differs are two cookies (RFC 6265 5.3 step 11) -------------------------------------------------------
    uc = repo.func(MOD, f"{CJ}.update_cookies")
    merges = [a for a in ast.walk(uc.node) if isinstance(a, ast.Assign) and norm.raw(a.targets[0]) == "path" and isinstance(a.value, ast.Call) and isinstance(a.value.func, ast.Attribute)
              and a.value.func.attr in ("rstrip", "strip") and norm.raw(a.value.func.value) == "path"]
    kdefs = norm.fn_defs(uc.node)
    keyed = [a for a in ast.walk(uc.node) if isinstance(a, (ast.Subscript,)) and norm.raw(a.value) == "self._cookies" and (
        "path" in norm.raw(a.slice) or (isinstance(a.slice, ast.Name) and any(v is not None and "path" in norm.raw(v) for _d, v in kdefs.defs.get(a.slice.id, []))))]
    if not keyed:
        chk.analysis_error("C16.identity.path: `self._cookies[(domain, path)]` not found in CookieJar.update_cookies")
    elif merges:
        chk.violation("C16.identity.path", merges[0], K.short(merges[0]), "if path == '/': path = ''   (the store is keyed by the exact Path)",
                      "the store, the expiry table and the host-only table are keyed by `path.rstrip('/')`: `sid=B; Path=/app/` overwrites `sid=A; Path=/app` (a request for /app then gets no cookie at all), `sid=; Path=/app/; Max-Age=0` deletes the /app session cookie, and `Path=/app//` displaces it too - a reference store keeps them apart")
    else:
        chk.ok("C16.identity.path", keyed[0], "update_cookies(): the store key is the cookie's Path as it stands (only the root is filed as '')")
    # ---- C16.match.arg: a domain taken from the application is brought into the stored form before it is matched -----------------------------------------
    cd = repo.func(MOD, f"{CJ}.clear_domain")
    par = cd.node.args.args[1].arg
    dvals = [v for _d, v in norm.fn_defs(cd.node).defs.get(par, []) if v is not None]
    if any(".lower()" in norm.raw(v) for v in dvals) or any(".lower()" in norm.raw(c) for c in prog.calls_in(cd.node) if "_is_domain_match" in norm.raw(c.func)):
        chk.ok("C16.match.arg", cd, "clear_domain(): the argument is lower-cased (stored domains are) before it is matched")
    else:
        chk.violation("C16.match.arg", cd, K.short(cd.node.body[-1]), f"{par} = {par}.lower().removeprefix('.')",
                      "clear_domain() hands its argument to the domain match as it was written: stored domains are lower-case and carry no leading dot, so clear_domain('Example.com'), ('EXAMPLE.COM') and ('.example.com') silently clear nothing and the cookies are still attached afterwards")


def hunt4_rules(chk, repo):
    """Rules written after the fourth defect hunt (F243-F246)."""
    from sa.cfg import EXPLICIT, cfg_of
    uc = repo.func(MOD, f"{CJ}.update_cookies")
    # ---- C16.identity.copy: what the jar writes for a response (host, default path) goes into its own object ---------------------------------------
    g = cfg_of(uc.node)
    lp = next((l for l in ast.walk(uc.node) if isinstance(l, ast.For) and isinstance(l.target, ast.Tuple) and any(isinstance(e, ast.Name) and e.id == "cookie" for e in l.target.elts)), None)
    writes = [n for n in g.nodes if n.kind == "stmt" and isinstance(n.ast, ast.Assign) and any(isinstance(t, ast.Subscript) and norm.raw(t.value) == "cookie" for t in n.ast.targets)]
    fresh = [n for n in g.nodes if n.kind == "stmt" and isinstance(n.ast, ast.Assign) and any(isinstance(t, ast.Name) and t.id == "cookie" for t in n.ast.targets)]
    heads = [n for n in g.nodes if lp is not None and n.ast is lp and n.kind == "for"]
    if lp is None or not writes or not heads:
        chk.analysis_error("C16.identity.copy: the cookie loop / attribute writes of update_cookies were not found")
    else:
        # a path on which `response_url` is false writes nothing response-specific into the object (no host, no default path to store)
        p = K.find_path_edges(g, heads, lambda n: n in writes, lambda n: n in fresh,
                              lambda n, t, k: k == "F" and n.kind == "test" and norm.raw(n.ast) == "response_url")
        if p is None:
            chk.ok("C16.identity.copy", writes[0].ast, "update_cookies(): with a response URL, the Domain / Path the jar fills in are written into a new Morsel (parsed, or a copy of the caller's)")
        else:
            chk.violation("C16.identity.copy", writes[0].ast, K.short(writes[0].ast), "elif response_url: cookie = cookie.copy()",
                          "update_cookies() writes the response host and the default path into the caller's Morsel and stores that very object: applying the same SimpleCookie a second time (another URL, another jar) finds a Domain attribute, the host-only flag is dropped and `sid` is sent to sub-domains", path=g.fmt_path(p))
    # ---- C16.accept (single label): a Domain attribute shared by unrelated hosts is not accepted from one of them ------------------------------------
    stores = [s_ for s_, _b in K.stmts(uc, "self._cookies[$K][$N] = $C")]
    cl = PC.pc(stores[0], raw=True) if stores else []
    if any({(l.text, l.pos) for l in c} >= {("hostname", False), ("'.' not in domain", False)} or {(l.text, l.pos) for l in c} >= {("hostname", False), ("'.' in domain", True)} for c in cl):
        chk.ok("C16.accept", stores[0], "a Domain attribute without an embedded dot is accepted only from that very host (RFC 6265 5.3 step 5: no `Domain=com`)")
    else:
        chk.violation("C16.accept", stores[0] if stores else uc, "self._cookies[...][name] = cookie", "if hostname and '.' not in domain and domain != hostname: continue",
                      "`Set-Cookie: sid=x; Domain=com` from evil.com domain-matches (suffix + dot) and is stored: the cookie is then attached to requests for victim.com and bank.com - cross-site cookie planting / session fixation")
    # ---- C16.setcookie ($-names): a `$`-prefixed name never clears or sets a flag attribute -------------------------------------------------------------
    ps = repo.func("aiohttp/_cookie_helpers.py", "parse_set_cookie_headers")
    dl = [i for i in ast.walk(ps.node) if isinstance(i, ast.If) and norm.raw(i.test) in ("key[0] == '$'", 'key[0] == "$"')]
    if not dl:
        chk.analysis_error("C16.setcookie: the `$`-name branch of parse_set_cookie_headers was not found")
    else:
        sets = [a for b_ in dl[0].body for a in ast.walk(b_) if isinstance(a, ast.Assign) and isinstance(a.targets[0], ast.Subscript) and norm.raw(a.targets[0].value) == "current_morsel"]
        bad = [a for a in sets if not any(not l.pos and "_COOKIE_BOOL_ATTRS" in l.text for l in PC.units(PC.pc(a, stop=dl[0], raw=True)))
               and not any(l.pos and "not in _COOKIE_BOOL_ATTRS" in l.text for l in PC.units(PC.pc(a, stop=dl[0], raw=True)))]
        if sets and not bad:
            chk.ok("C16.setcookie", sets[0], "`$`-prefixed names are applied as attributes only when the attribute takes a value ($Path, $Domain): `$Secure` is an unknown attribute")
        else:
            chk.violation("C16.setcookie", bad[0] if bad else dl[0], K.short(bad[0]) if bad else "$-name branch", "and attr_lower_key not in _COOKIE_BOOL_ATTRS",
                          "`sid=secret; Secure; $Secure` stores secure='' (the flag is cleared: the cookie goes over http), and `b=2; $Partitioned=1` raises CookieError out of the client's response handling on Python 3.12")


def hunt3_rules(chk, repo):
    """Rule written after the third defect hunt (F199): the numbers of a cookie date (RFC 6265 5.1.1) are whole digit runs."""
    import re as _re
    from sa.consteval import Folder, NotConst, RegexConst
    mod = repo.module(MOD)
    folder = Folder(repo)
    cls = repo.cls(MOD, CJ)
    pd = cls.methods.get("_parse_date")
    if pd is None:
        chk.analysis_error("C16.persist.date: CookieJar._parse_date not found")
        return
    # token patterns and the way they are applied (`cls.DATE_X_RE.match(token)`)
    WIT = {"DATE_HMS_TIME_RE": (["10:20:30", "1:2:3"], ["10:20:300", "10:20:3000"]), "DATE_DAY_OF_MONTH_RE": (["1", "31", "31st"], ["123", "2024"]),
           "DATE_YEAR_RE": (["99", "1999", "2024x"], ["19999", "202400"])}
    n = 0
    for c in prog.calls_in(pd.node):
        if not (isinstance(c.func, ast.Attribute) and c.func.attr in ("match", "fullmatch", "search") and isinstance(c.func.value, ast.Attribute) and c.func.value.attr in WIT):
            continue
        name, meth = c.func.value.attr, c.func.attr
        src = next((st.value for st in cls.node.body if isinstance(st, ast.Assign) and norm.raw(st.targets[0]) == name), None)
        if src is None:
            chk.analysis_error(f"C16.persist.date: {name} is not a class constant of {CJ}")
            continue
        try:
            rx = folder.eval(mod, src)
        except NotConst as e:
            chk.analysis_error(f"C16.persist.date: cannot fold {name}: {e}")
            continue
        if not isinstance(rx, RegexConst):
            chk.analysis_error(f"C16.persist.date: {name} is not a compiled pattern")
            continue
        n += 1
        cre = _re.compile(rx.pattern, rx.flags)
        good, bad = WIT[name]
        miss = [w for w in good if getattr(cre, meth)(w) is None]
        extra = [w for w in bad if getattr(cre, meth)(w) is not None]
        if not miss and not extra:
            chk.ok("C16.persist.date", c, f"{name}.{meth}(token): a longer digit run is not read as a shorter number ({', '.join(bad)} refused)")
        else:
            chk.violation("C16.persist.date", c, f"{name} = {rx.pattern!r} applied with .{meth}()", "(?!\\d) after the last number (RFC 6265 5.1.1: followed by a non-digit or the end of the token)",
                          f"the cookie-date token pattern takes the first digits of a longer run for the number (accepts {extra!r}{'; refuses ' + repr(miss) if miss else ''}): `Expires=Mon, 01 Jan 20240 00:00:00 GMT` is read as the year 2024 - the cookie expires (or lives) by a date the server never sent")
    chk.expect_count("C16.persist.date", n, 3, "numeric cookie-date token patterns applied in _parse_date")


def setcookie_rules(chk, repo):
    """Set-Cookie parsing (RFC 6265 5.2): an attribute the parser does not use is skipped, it never ends the parse - attributes after it
    (Secure, HttpOnly, Domain, Path, Max-Age) belong to the cookie that was already accepted, and losing them widens its scope."""
    CH = "aiohttp/_cookie_helpers.py"
    fn = repo.func(CH, "parse_set_cookie_headers")
    loops = [l for l in ast.walk(fn.node) if isinstance(l, ast.While)]
    if not loops:
        chk.analysis_error("C16.setcookie: the attribute loop of parse_set_cookie_headers was not found")
        return
    n = 0
    for b in [x for x in ast.walk(loops[0]) if isinstance(x, ast.Break)]:
        n += 1
        cl = PC.pc(b, stop=loops[0], raw=True)
        units = {str(l) for c in cl if len(c) == 1 for l in c}
        # (a piece the tokenising pattern cannot match - `;;`, `; =x` - is an attribute without use like any other: no reason to stop)
        if "!(morsel_seen)" in units:
            chk.ok("C16.setcookie", b, "the parse of a header stops only before the first cookie pair was seen")
        else:
            chk.violation("C16.setcookie", b, "break", "continue (ignore this cookie-av)",
                          "an attribute the parser has no use for ends the parse of the header after the cookie was already accepted: the Secure / HttpOnly / Domain / Path / Max-Age attributes that follow are dropped - `sid=secret; SameParty; Secure; Path=/account` is stored without Secure and with the default path, and is sent over plain http",
                          path_condition=norm.fmt_cnf(cl)[:300])
    chk.expect_count("C16.setcookie", n, 3, "break statements in the Set-Cookie attribute loop")
    # the Expires value runs to the next `;` - the date shapes are judged by the jar's date parser, not by the tokenising pattern
    src = norm.raw(loops[0])
    ex = [i for i in ast.walk(loops[0]) if isinstance(i, ast.If) and "'expires'" in norm.raw(i.test).replace('"', "'") and any(isinstance(c, ast.Call) and isinstance(c.func, ast.Attribute) and c.func.attr in ("find", "index", "partition", "split") and c.args and isinstance(c.args[0], ast.Constant) and c.args[0].value == ";" for c in ast.walk(i))]
    if ex:
        chk.ok("C16.setcookie", ex[0], "the Expires value is delimited by the next `;` (RFC 6265 5.2), whatever the date looks like")
    else:
        chk.violation("C16.setcookie", fn, "expires=<value>", "value = header[start:header.find(';', start)]",
                      "the Expires value is only as long as the tokenising pattern's hard-coded date shapes allow: `Expires=Thu, 01 Jan 1970 00:00:01 UTC` (or no zone, no week-day, one-digit hour) is cut at the first blank, the cookie the server expired survives as a session cookie and the rest of the date ends the parse, dropping Secure and Path")
    # RFC 6265 5.2.3: the Domain attribute is lower-cased before it is compared with the (lower-case) request host and stored
    uc = repo.func(MOD, f"{CJ}.update_cookies")
    dd = [v for v in ((v if v is not None else getattr(d, "value", None)) for d, v in norm.fn_defs(uc.node).defs.get("domain", [])) if v is not None and "cookie['domain']" in norm.raw(v).replace('"', "'")]
    if not dd:
        chk.analysis_error("C16.match: the read of the Domain attribute was not found in CookieJar.update_cookies")
    elif all(".lower()" in norm.raw(v) for v in dd) or any(isinstance(a, ast.Assign) and norm.raw(a.targets[0]).replace('"', "'") == "cookie['domain']" and ".lower()" in norm.raw(a.value)
                                                            and all(a.lineno < getattr(v, "lineno", 10**9) for v in dd) for a in ast.walk(uc.node)):
        chk.ok("C16.match", dd[0], "the Domain attribute is lower-cased where it is read")
    else:
        chk.violation("C16.match", dd[0], K.short(dd[0]), "cookie['domain'].lower()",
                      "the Domain attribute is compared as written: `Domain=Example.COM` from www.example.com is rejected as a foreign domain (cookie lost), and a deletion `sid=; Domain=EXAMPLE.COM; Max-Age=0` is discarded, so the expired cookie keeps being sent")
