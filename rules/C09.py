"""C09 Body decoding is transparent, memory-bounded and always makes progress (DESIGN 5/C09)."""
from __future__ import annotations

import ast

from sa import match as M, norm, pc as PC, prog, rulekit as K
from sa.cfg import EXPLICIT, cfg_of
from sa.loader import AnalysisError

HP = "aiohttp/http_parser.py"
CU = "aiohttp/compression_utils.py"
MP = "aiohttp/multipart.py"
WS = "aiohttp/_websocket/reader_py.py"
WR = "aiohttp/web_request.py"
BP = "aiohttp/base_protocol.py"

DECODE_METHODS = ("decompress", "decompress_sync", "process")
UNLIMITED = ("0", "ZLIB_MAX_LENGTH_UNLIMITED", "ZSTD_MAX_LENGTH_UNLIMITED", "-1", "self._unlimited")
# user-configured limits (a value of 0 / sys.maxsize means the *user* disabled the bound)
CONFIGURED = ("self._max_decompress_size", "self._max_msg_size", "max_length", "budget", "zstd_max_length")


def _bound(call: ast.Call):
    if len(call.args) >= 2:
        return call.args[1]
    for k in call.keywords:
        if k.arg == "max_length":
            return k.value
    return None


def bounded_calls(chk, repo, rule="C09.bounded"):
    n = 0
    for rel in (HP, CU, MP, WS):
        mod = repo.module(rel)
        for fn in mod.functions.values():
            for call in prog.calls_in(fn.node):
                if not isinstance(call.func, ast.Attribute) or call.func.attr not in DECODE_METHODS:
                    continue
                recv = norm.raw(call.func.value)
                if "compressor" in recv.lower() and "decompress" not in recv.lower():
                    continue  # the writer side
                if call.func.attr == "process" and "_obj" not in recv:
                    continue
                if recv in ("asyncio.get_event_loop()", "self._zlib_backend", "zlib"):
                    continue
                n += 1
                b = _bound(call)
                cl = PC.pc(call)
                if b is None:
                    # run_in_executor(self._executor, self.decompress_sync, data, max_length) is handled below
                    if PC.has_lit(cl, "max_length == ZLIB_MAX_LENGTH_UNLIMITED", True) is not None:
                        chk.ok(rule, call, f"{fn.qualname}: unbounded backend call only on the branch where the caller asked for no limit")
                    else:
                        chk.violation(rule, call, K.short(call), "output bound (max_length)", f"{fn.qualname}: decompression call without an output bound: a small compressed input can expand without limit in one call")
                    continue
                bt = norm.text(b, call)
                parts = _value_branches(norm.subst(b, call))
                bad = False
                for cond, val in parts:
                    vt = norm.raw(val)
                    if vt in UNLIMITED or (isinstance(val, ast.Constant) and val.value in (0, -1)):
                        # unlimited value: only under a test of the user-configured limit
                        ok = cond is not None and any(M.match_text(p, cond) is not None for p in
                                                      ("$L >= sys.maxsize", "not self._max_msg_size", "max_length == ZLIB_MAX_LENGTH_UNLIMITED", "max_length == self._unlimited"))
                        if not ok:
                            bad = True
                            chk.violation(rule, call, K.short(call), f"bound `{bt}` can be unlimited ({vt}) under `{cond}`",
                                          f"{fn.qualname}: the output bound is switched off by something other than the user's own 'no limit' setting")
                    elif not any(c in vt for c in CONFIGURED):
                        bad = True
                        chk.violation(rule, call, K.short(call), f"bound `{vt}`", f"{fn.qualname}: the output bound does not derive from the configured limit / the caller's max_length")
                if not bad:
                    chk.ok(rule, call, f"{fn.qualname}: `{K.short(call, 40)}` bounded by `{bt[:70]}`")
    # the executor path forwards the bound too
    dec = repo.func(CU, "DecompressionBaseHandler.decompress")
    ex = K.exprs(dec, "$L.run_in_executor(self._executor, self.decompress_sync, data, max_length)")
    if ex:
        chk.ok(rule, ex[0][0], "DecompressionBaseHandler.decompress: the executor path forwards max_length")
        n += 1
    else:
        chk.violation(rule, dec, "run_in_executor(self._executor, self.decompress_sync, data, max_length)", "max_length forwarded", "large inputs are decompressed in the executor without the output bound")
    chk.expect_count(rule, n, 14, "decoder call sites")
    # the members walk: budget is what is left of max_length
    mem = repo.func(CU, "ConcatDecompressionHandler._decompress_members")
    bd = [d for d in norm.fn_defs(mem.node).def_nodes("budget") if isinstance(d, ast.Assign)]
    if any(norm.raw(d.value) == "max_length - produced" for d in bd) and K.exprs(mem, "produced += len(chunk)") is not None:
        st = [s for s, _b in K.stmts(mem, "self._pending_unused_data = bytes(remaining[pos:])")]
        if st and PC.has_lit(PC.pc(st[0]), "budget > 0", False) is not None:
            chk.ok(rule, st[0], "_decompress_members: stops and parks the remaining input once the output budget is used up")
        else:
            chk.violation(rule, mem, "if budget <= 0: self._pending_unused_data = ...; break", "budget exhaustion exit", "the multi-member walk does not stop at the output budget")
    else:
        chk.violation(rule, mem, "budget = max_length - produced", "budget derivation", "the multi-member walk does not charge produced output against max_length")
    # input is parked for the next call only after a spent decompressor was replaced: it still lists the parked bytes in its unused_data and
    # decompress_sync() would feed them a second time
    gm = cfg_of(mem.node)
    parks = [n_ for n_ in gm.nodes if n_.in_finally_copy is None and K.node_has(n_, "self._pending_unused_data = $X", "exec")]
    swaps = [i for i in ast.walk(mem.node) if isinstance(i, ast.If) and "self._decompressor.eof" in norm.raw(i.test) and any(M.contains(b_, "self._new_decompressor()") for b_ in i.body)]
    heads = [n_ for n_ in gm.nodes if n_.kind == "test" and isinstance(getattr(n_.ast, "parent", None), ast.While) and n_.ast is n_.ast.parent.test]
    swap_tests = [n_ for n_ in gm.nodes if n_.kind == "test" and any(n_.ast is i.test for i in swaps)]
    if not parks or not heads or not swap_tests:
        chk.violation("C09.respawn", mem, "if self._decompressor.eof: self._decompressor = self._new_decompressor()", "before the budget exit", "the members walk no longer replaces a spent decompressor / no longer parks unread input")
    else:
        pth = gm.find_path(None, lambda n_: n_ in parks, lambda n_: n_ in swap_tests, EXPLICIT, [(h, "T") for h in heads])
        if pth is None:
            chk.ok("C09.respawn", parks[0].ast, "within one iteration the spent-decompressor test (and replacement) comes before the budget exit that parks the remaining input")
        else:
            chk.violation("C09.respawn", parks[0].ast, K.short(parks[0].ast), "if self._decompressor.eof: self._decompressor = self._new_decompressor()  (before the budget exit)",
                          "the walk can run out of budget exactly on a member boundary and park the rest while self._decompressor is still the spent one: its unused_data still lists the parked bytes, deflate mode never resets it, and the next decompress_sync() feeds them again - the remaining members are decoded twice (or a valid raw-deflate body raises)",
                          path=gm.fmt_path(pth))


def _value_branches(e):
    """[(condition text or None, value expr)] for a (nested) conditional expression."""
    if isinstance(e, ast.IfExp):
        out = []
        for c, v in _value_branches(e.body):
            out.append((norm.raw(e.test) if c is None else c, v))
        for c, v in _value_branches(e.orelse):
            neg = norm.raw(ast.UnaryOp(op=ast.Not(), operand=e.test)) if not (isinstance(e.test, ast.Name) or isinstance(e.test, ast.Attribute)) else "not " + norm.raw(e.test)
            out.append((neg if c is None else c, v))
        return out
    return [(None, e)]


def run(chk):
    repo = chk.repo
    chk.explanation = (
        "Decided structurally: every decoder call (client layer and wrapper layer, 14+ sites) passes an output bound derived from the "
        "configured limit or forwards its caller's bound, and is unlimited only under a test of the user's own 'no limit' setting; the "
        "multi-member walk charges produced output against the bound and parks the rest; every 'pull more output' loop honours the parser "
        "pause flag before feeding again, and a decoder that parked input reports data_available; pause/resume of the protocol pauses the "
        "parser and re-enters data_received(b''); server-side accumulation loops compare with client_max_size inside the loop; decoder "
        "errors become payload errors; the final flush is asserted empty."
    )
    chk.not_decided = "equality with the reference decoding, progress to EOF in every schedule, the constant factor of the memory bound."
    chk.explanation += " Also decided: the size test inside an accumulating loop is conditional on nothing but the limit and compares a running total. After the defect hunt: a pause request never outlives the feed_data() call that honours it; a stream at EOF does not resume reading; the client protocol must keep a parser that still holds parked input (known finding F65)."
    chk.explanation += " Round 4 / second hunt: a spent decompressor is replaced before the budget exit parks input; a truncated compressed stream is an error for every coding; the zstd window is bounded; the bound handed to the decoder is at least 1; the decoder is selected by the normalised Content-Encoding token."
    bounded_calls(chk, repo)

    # ---- C09.flush ------------------------------------------------------------------------------------------
    fe = repo.func(HP, "DeflateBuffer.feed_eof")
    asserts = [a for a in ast.walk(fe.node) if isinstance(a, ast.Assert)]
    if asserts and norm.text(asserts[0].test, asserts[0]) in ("not self.decompressor.flush()", "not chunk"):
        outf = K.exprs(fe, "self.out.feed_eof()")
        if outf and asserts[0].lineno < outf[0][0].lineno:
            chk.ok("C09.flush", asserts[0], "DeflateBuffer.feed_eof: the final flush() is asserted empty before EOF is signalled (no unbounded tail)")
        else:
            chk.violation("C09.flush", fe, "assert not chunk", "before self.out.feed_eof()", "EOF is signalled before the flush check")
    else:
        chk.violation("C09.flush", fe, "chunk = self.decompressor.flush(); assert not chunk", "assert", "the final flush() output is not checked: all remaining data would be decompressed at once at EOF")

    # ---- C09.complete: a body that ends inside the compressed stream is an error for every coding, not a short body ------------------------
    trunc = [r for r, c_ in K.raises_in(fe) if c_ == "ContentEncodingError"]
    if not trunc:
        chk.violation("C09.complete", fe, "DeflateBuffer.feed_eof", "if self.size > 0 and not self.decompressor.eof: raise ContentEncodingError", "a body whose compressed stream stops early is delivered as a complete (shorter) body")
    for r in trunc:
        lits = [l for c_ in PC.pc(r, raw=True) for l in c_]
        only = [l for l in lits if "self.encoding" in l.text and l.pos]
        if any("decompressor.eof" in l.text and not l.pos for l in lits) and not only:
            chk.ok("C09.complete", r, "feed_eof(): an unfinished compressed stream is a ContentEncodingError whatever the coding")
        else:
            chk.violation("C09.complete", r, K.short(r), "not self.decompressor.eof, for every coding",
                          f"the `stream ended before the compressed data did` test applies only when {only[0].text if only else '?'}: a gzip / br / zstd body cut short inside intact HTTP framing (Content-Length or chunked terminator present) is returned by resp.read() / request.read() as a complete body - 47807 of 95000 bytes for gzip, 0 bytes for zstd with only the last byte missing - and the handler answers 200")
    # every decompressor the buffer can hold answers `eof`
    CUm = repo.module(CU)
    for cname in ("ZLibDecompressor", "BrotliDecompressor", "ZSTDDecompressor"):
        cl_ = CUm.classes.get(cname)
        if cl_ is None:
            continue
        if repo.method(cl_, "eof") is not None:
            chk.ok("C09.complete", cl_.node, f"{cname} reports whether the consumed input ended on a stream / member boundary (eof)")
        else:
            chk.violation("C09.complete", cl_.node, cname, "eof property", f"{cname} cannot tell whether its stream is complete: truncation of that coding goes unnoticed")
    # the member-boundary flag summarises the decompressor that will see the next input: it is decided after the last point of the call at
    # which input is fed to a decompressor (the walk over concatenated members feeds, and may stop inside a member)
    for cname in ("ZLibDecompressor", "ZSTDDecompressor"):
        cl_ = CUm.classes.get(cname)
        dsf = cl_.methods.get("decompress_sync") if cl_ is not None else None
        if dsf is None:
            continue
        feeders = {name for name, m_ in {**{k: v for b_ in [cl_] for k, v in b_.methods.items()}, **(CUm.classes["ConcatDecompressionHandler"].methods if "ConcatDecompressionHandler" in CUm.classes else {})}.items()
                   if name != "decompress_sync" and any(isinstance(c, ast.Call) and isinstance(c.func, ast.Attribute) and c.func.attr == "decompress" and "_decompressor" in norm.raw(c.func.value) for c in ast.walk(m_.node))}
        gd = cfg_of(dsf.node)
        def feeds(n_):
            if not isinstance(n_.ast, ast.AST):
                return False
            for c in K.node_calls(n_):
                if isinstance(c.func, ast.Attribute) and ((c.func.attr == "decompress" and "_decompressor" in norm.raw(c.func.value)) or (norm.raw(c.func.value) == "self" and c.func.attr in feeders)):
                    return True
            return False
        fnodes = [n_ for n_ in gd.nodes if n_.in_finally_copy is None and feeds(n_)]
        decide = {id(i.test) for i in ast.walk(dsf.node) if isinstance(i, ast.If) and any(isinstance(a, ast.Assign) and norm.raw(a.targets[0]) == "self._mid_member" for b_ in i.body + i.orelse for a in ast.walk(b_))}
        if not fnodes or not decide:
            chk.analysis_error(f"C09.complete: {cname}.decompress_sync: feed sites / member-boundary decision not found")
            continue
        for f_ in fnodes:
            K.must_pass(chk, "C09.complete", dsf, [f_], lambda n_: (n_.kind == "test" and id(n_.ast) in decide) or K.node_has(n_, "self._mid_member = $V", "exec"),
                        f"{cname}.decompress_sync: the member-boundary flag is decided after input was last fed to a decompressor",
                        construct=K.short(f_.ast, 60), missing="the `_mid_member` decision after the members walk")
    # the member cap bounds the work of one call (the output budget suspends the walk every few members); counted per stream it would refuse
    # valid bodies - RFC 1952 / 8878 put no limit on the number of members (`cat *.gz`, pigz -i, BGZF, multi-frame zstd)
    mem = repo.func(CU, "ConcatDecompressionHandler._decompress_members")
    capc = [c for c in ast.walk(mem.node) if isinstance(c, ast.Compare) and any("MAX_DECOMPRESS_MEMBERS" in norm.raw(x) for x in [c.left] + c.comparators)]
    if not capc:
        chk.analysis_error("C09.members: the member cap test was not found in _decompress_members")
    for c in capc:
        cnt = c.left if "MAX_DECOMPRESS_MEMBERS" not in norm.raw(c.left) else c.comparators[0]
        inits = [v for _d, v in norm.fn_defs(mem.node).defs.get(cnt.id, [])] if isinstance(cnt, ast.Name) else []
        if isinstance(cnt, ast.Name) and any(isinstance(v, ast.Constant) for v in inits if v is not None):
            chk.ok("C09.members", c, f"the member cap counts the members of one call (`{cnt.id}` starts over with every call)")
        else:
            chk.violation("C09.members", c, norm.raw(c), "a counter local to the call",
                          f"the member cap compares `{norm.raw(cnt)}`, which lives across calls: the cap becomes a limit on the whole stream, and a valid body of more than {1024} concatenated members (each producing output, arriving over several reads) is decoded up to the cap and then refused with a payload error")
    # ---- C09.window: the zstd decoder's window is bounded too (it is memory the output limit never sees) ---------------------------------------
    zs = CUm.classes.get("ZSTDDecompressor")
    if zs is not None:
        ctor = [c for m_ in zs.methods.values() for c in prog.calls_in(m_.node) if norm.raw(c.func) == "ZstdDecompressor"]
        for c in ctor:
            if any("window_log_max" in norm.raw(k.value) for k in c.keywords) or any("window_log_max" in norm.raw(a) for a in c.args):
                chk.ok("C09.window", c, "the zstd decompressor is created with window_log_max set")
            else:
                chk.violation("C09.window", c, K.short(c), "ZstdDecompressor(options={DecompressionParameter.window_log_max: <limit>})",
                              "the zstd decoder accepts the library default of 2**27-byte windows: an 8 kB request body declaring a 128 MiB window makes the decoder hold 128 MiB per connection - memory inside the decoder that the reader's water marks, max_length and client_max_size never see (four connections: +513 MiB RSS)")
    # ---- C09.bounded: the bound handed to the decoder is never the decoders' `unlimited` value 0 by accident -------------------------------------
    dbf = repo.func(HP, "DeflateBuffer.feed_data")
    ml = [v for _d, v in norm.fn_defs(dbf.node).defs.get("max_length", []) if v is not None]
    for v in ml:
        mx = [c for c in ast.walk(v) if isinstance(c, ast.Call) and norm.raw(c.func) == "max"]
        if mx and all(any(isinstance(a, ast.Constant) and isinstance(a.value, int) and a.value >= 1 for a in c.args) for c in mx):
            chk.ok("C09.bounded", v, "the decompression bound is at least 1 unless `no limit` was asked for explicitly")
        else:
            chk.violation("C09.bounded", v, K.short(v, 70), "max(self._max_decompress_size, low_water, 1)",
                          "with read_bufsize=0 the bound is max(0, 0) = 0, which zlib takes for `unlimited`: a 64 MiB gzip bomb is inflated in one call, while read_bufsize=1 holds 3 bytes")
    # ---- C09.pause --------------------------------------------------------------------------------------------
    n = 0
    for q in ("HttpPayloadParser.feed_data", "HttpPayloadParser.feed_eof"):
        f = repo.func(HP, q)
        for call, _b in K.exprs(f, "self.payload.feed_data($X)"):
            loops = [w for w in K.loop_ancestors(call) if isinstance(w, ast.While) and "self._more_data_available" in norm.raw(w.test)]
            if not loops:
                continue
            first_in_loop = norm.raw(_b["X"]) != "b''" and not any("self._paused" in norm.raw(x.test) for x in prog.enclosing(call, (ast.If,)))
            n += 1
            if PC.has_lit(PC.pc(call, stop=loops[0]), "self._paused", False) is not None:
                chk.ok("C09.pause", call, f"{q}: `{K.short(call, 45)}` in a more-data loop is reached only when the parser is not paused")
            else:
                chk.violation("C09.pause", call, K.short(call), "!(self._paused)", f"{q}: the decoder is asked for more output although the reader asked to pause: decoded data piles up beyond the buffer limit")
    chk.expect_count("C09.pause", n, 5, "feeds inside `_more_data_available` loops")
    # the paused exit reports PENDING and resets the flag
    fdp = repo.func(HP, "HttpPayloadParser.feed_data")
    pend = [r for r in ast.walk(fdp.node) if isinstance(r, ast.Return) and "PAYLOAD_HAS_PENDING_INPUT" in norm.raw(r)]
    okp = [r for r in pend if PC.has_lit(PC.pc(r), "self._paused", True) is not None]
    if len(okp) >= 3 and len(okp) == len(pend):
        chk.ok("C09.pause", pend[0], f"{len(pend)} paused exits report PAYLOAD_HAS_PENDING_INPUT (resumed by feed_data(b''))")
    else:
        chk.violation("C09.pause", fdp, "return PayloadState.PAYLOAD_HAS_PENDING_INPUT, b''", f"{len(okp)}/{len(pend)} under (self._paused)", "a paused body parser does not report pending input: decoding never resumes")
    # a pause request never outlives the call that honours it: pause_reading() sets the flag while payload.feed_data() runs; if a call
    # returns "need more input" / "complete" with the flag still set, reading is resumed later with a stale flag and the next data is
    # parked as "pending input" while nothing is paused - nobody resumes the parser, the rest of the body is never delivered
    stale_rule(chk, repo)
    resume_rules(chk, repo)
    hunt4_rules(chk, repo)
    hunt5_rules(chk, repo)
    hp = repo.func(HP, "HttpParser.feed_data")
    st = [s for s, _b in K.stmts(hp, "self._payload_has_more_data = payload_state == PayloadState.PAYLOAD_HAS_PENDING_INPUT")]
    loop = [w for w in ast.walk(hp.node) if isinstance(w, ast.While) and "self._payload_has_more_data" in norm.raw(w.test)]
    if st and loop:
        chk.ok("C09.pause", st[0], "HttpParser.feed_data: pending decoder output keeps the parse loop alive on the empty re-entry")
    else:
        chk.violation("C09.pause", hp, "self._payload_has_more_data", "loop condition + assignment", "pending decoder output is forgotten between calls")
    # decoders that park input report data_available
    for cname in ("ZLibDecompressor", "ZSTDDecompressor"):
        c = repo.cls(CU, cname)
        da = repo.method(c, "data_available")
        r = [x for x in ast.walk(da.node) if isinstance(x, ast.Return)]
        txt = norm.raw(r[0].value) if r else ""
        explicit = "self._pending_unused_data is not None" in txt
        flag = "not self._last_empty" in txt and any(norm.raw(s) == "self._last_empty = result == b''" for s in ast.walk(repo.method(c, "decompress_sync").node) if isinstance(s, ast.Assign))
        if explicit:
            chk.ok("C09.pending", r[0], f"{cname}.data_available is true while input is parked in _pending_unused_data")
        elif flag:
            chk.ok("C09.pending", r[0], f"{cname}.data_available: covered by the last-output-nonempty flag (parking implies output >= max_length > 0)")
        else:
            chk.violation("C09.pending", da, f"{cname}.data_available", "self._pending_unused_data is not None",
                          f"{cname}: input parked by the budget-capped member walk is invisible to data_available: if no further bytes arrive the rest of the body is never decoded (silent truncation)")
    db = repo.func(HP, "DeflateBuffer.feed_data")
    rr = [x for x in ast.walk(db.node) if isinstance(x, ast.Return)]
    if rr and norm.raw(rr[-1].value) == "self.decompressor.data_available":
        chk.ok("C09.pending", rr[-1], "DeflateBuffer.feed_data reports the decoder's data_available to the body parser")
    else:
        chk.violation("C09.pending", db, "return self.decompressor.data_available", "", "the body parser cannot tell that the decoder holds more output")

    # ---- C09.protocol -------------------------------------------------------------------------------------------
    pz = repo.func(BP, "BaseProtocol.pause_reading")
    pp = K.exprs(pz, "self._parser.pause_reading()")
    if pp and {str(l) for l in PC.units(PC.pc(pp[0][0]))} <= {"!(self._upgraded)", "!(self._parser is None)"} and K.exprs(pz, "self.transport.pause_reading()") and K.stmts(pz, "self._reading_paused = True"):
        chk.ok("C09.protocol", pp[0][0], "pause_reading(): parser paused (unless upgraded) and transport paused")
    else:
        chk.violation("C09.protocol", pz, "self._parser.pause_reading()", "unless upgraded", "pausing the protocol does not pause the parser: the decoder keeps producing into a full buffer")
    rz = repo.func(BP, "BaseProtocol.resume_reading")
    re_ = K.exprs(rz, "self.data_received(b'')")
    if re_ and {str(l) for l in PC.units(PC.pc(re_[0][0]))} == {"!(self._upgraded)", "(resume_parser)"}:
        chk.ok("C09.protocol", re_[0][0], "resume_reading(): re-enters data_received(b'') to drain pending decoder output")
    else:
        chk.violation("C09.protocol", rz, "self.data_received(b'')", "(not self._upgraded and resume_parser)", "resuming does not re-enter the parser: pending decoder output is stuck until more bytes arrive")
    tr = K.exprs(rz, "self.transport.resume_reading()")
    if tr and PC.has_lit(PC.pc(tr[0][0]), "self._reading_paused", False) is not None:
        chk.ok("C09.protocol", tr[0][0], "the transport resumes only if the re-entry did not pause again")
    else:
        chk.violation("C09.protocol", rz, "self.transport.resume_reading()", "!(self._reading_paused)", "the transport is resumed although draining paused reading again")

    # ---- C09.limit ----------------------------------------------------------------------------------------------------
    nl = 0
    for rel, q, limit_names in ((WR, "BaseRequest.read", ("self._client_max_size",)), (WR, "BaseRequest.post", ("max_size", "self._client_max_size")), (MP, "BodyPartReader.read", ("self._client_max_size",))):
        f = repo.func(rel, q)
        for loop in [w for w in ast.walk(f.node) if isinstance(w, (ast.While, ast.AsyncFor))]:
            acc = [c for c in ast.walk(loop) if isinstance(c, ast.Call) and isinstance(c.func, ast.Attribute) and c.func.attr in ("extend", "append", "write") and not isinstance(c.func.value, ast.Attribute)]
            acc = [c for c in acc if any(l is loop for l in K.loop_ancestors(c)) and K.loop_ancestors(c)[0] is loop]
            if not acc:
                continue
            nl += 1
            scopes = [loop] + [l for l in K.loop_ancestors(loop)]
            checks = []
            for sc in scopes:
                # the limit test may sit in an enclosing loop when the inner loop only processes one already-bounded chunk
                checks += [r for r, cls in K.raises_in(sc) if any(l is sc for l in K.loop_ancestors(r)) and any(any(nm in lit.text for nm in limit_names) for lit in PC.units(PC.pc(r, stop=sc)))]
            weak = []
            for r in checks:
                sc_ = next((x for x in scopes if any(l is x for l in K.loop_ancestors(r))), loop)
                for cl in PC.pc(r, stop=sc_):
                    for l in cl:
                        t = l.text
                        if any(nm in t for nm in limit_names) or "max_size" in t or t in ("chunk", "field", "multipart.next()") or "read_chunk" in t or "is None" in t or "isinstance(" in t or "filename" in t or "content_type" in t or "_at_eof" in t or "decode" in t or t == "True":
                            continue
                        weak.append((r, l))
            if checks and weak:
                r, l = weak[0]
                chk.violation("C09.limit", r, K.short(r), str(l), f"{q}: the size limit is enforced only under `{l}`: with the limit configured, some bodies (e.g. compressed ones framed by Content-Length) are accumulated without any bound")
            elif checks:
                chk.ok("C09.limit", loop, f"{q}: accumulation `{K.short(acc[0], 40)}` and the size limit test are in the same loop")
                # ... and what is compared with the limit grows with the accumulation (a per-chunk test bounds nothing)
                r = checks[0]
                sc_ = next((x for x in scopes if any(l is x for l in K.loop_ancestors(r))), loop)
                gi = next((i for i in prog.enclosing(r, (ast.If,)) if any(nm in norm.raw(i.test) for nm in limit_names)), None)
                if gi is not None:
                    cum, seen = K.cumulative_in_loop(sc_, gi.test, repo)
                    if cum:
                        chk.ok("C09.limit", gi, f"{q}: the tested quantity is a running total (`{K.short(gi.test, 50)}`)")
                    else:
                        chk.violation("C09.limit", gi, norm.raw(gi.test), "a quantity increased in every iteration", f"{q}: the size test looks at one chunk at a time, not at the accumulated size")
            else:
                # decoded form-data (no compression) is bounded by the raw size already checked
                if q == "BaseRequest.post" and isinstance(loop, ast.AsyncFor) and "decode_iter(raw_data)" in norm.raw(loop.iter):
                    chk.ok("C09.limit", loop, "post(): decode of an already size-checked raw field (form-data carries no compression)")
                else:
                    chk.violation("C09.limit", loop, K.short(acc[0]), "size test against client_max_size inside the loop", f"{q}: data is accumulated in a loop without testing the limit inside it: the whole body is buffered before the limit applies")
    chk.expect_count("C09.limit", nl, 6, "accumulating loops")

    # ---- C09.encase: the decoder is selected by the very token that passed the membership test --------------------------------------
    ph = repo.func(HP, "HttpParser.parse_headers")
    tests_ = [i for i in ast.walk(ph.node) if isinstance(i, ast.If) and any(isinstance(c, ast.Compare) and isinstance(c.ops[0], ast.In) and isinstance(c.comparators[0], ast.Set) and any(isinstance(e, ast.Constant) and e.value == "gzip" for e in c.comparators[0].elts) for c in ast.walk(i.test))]
    if not tests_:
        chk.analysis_error("C09.encase: the Content-Encoding membership test was not found in HttpParser.parse_headers")
    for i in tests_:
        cmp_ = next(c for c in ast.walk(i.test) if isinstance(c, ast.Compare) and isinstance(c.ops[0], ast.In) and isinstance(c.comparators[0], ast.Set))
        tested = norm.raw(cmp_.left)
        sets = [st for st in i.body if isinstance(st, ast.Assign) and norm.raw(st.targets[0]) == "encoding"]
        if sets and all(norm.raw(st.value) == tested for st in sets):
            chk.ok("C09.encase", sets[0], f"the content-coding handed to the decoder is `{tested}`, the normalised token the membership test accepted")
        else:
            chk.violation("C09.encase", sets[0] if sets else i, K.short(sets[0]) if sets else "encoding = ...", f"encoding = {tested}",
                          f"the membership test accepts `{tested}` but the decoder is selected by another spelling: DeflateBuffer / encoding_to_mode compare with lower-case literals, so `Content-Encoding: GZIP` passes the test and is then decoded with the zlib-wrapper decoder - a valid gzip body fails with a payload error (400/500)")
    # ---- C09.errors ---------------------------------------------------------------------------------------------------
    calls = K.exprs(db, "self.decompressor.decompress_sync(...)")
    ok = False
    for call, _b in calls:
        for _t, h in K.enclosing_try_handlers(call):
            if "Exception" in PC.handler_types(h) and any(cls == "ContentEncodingError" for _n, cls in K.raises_in(h)):
                ok = True
    if ok:
        chk.ok("C09.errors", calls[0][0], "decoder exceptions become ContentEncodingError")
    else:
        chk.violation("C09.errors", db, "self.decompressor.decompress_sync(...)", "except Exception: raise ContentEncodingError", "a corrupt encoding surfaces as a backend exception instead of a payload error")
    pf = K.exprs(hp, "self._payload_parser.feed_data(...)")
    ok = False
    for call, _b in pf:
        for _t, h in K.enclosing_try_handlers(call):
            if "Exception" in PC.handler_types(h) and M.contains(h, "set_exception(self._payload_parser.payload, ...)"):
                ok = True
    if ok:
        chk.ok("C09.errors", pf[0][0], "body parser errors are set on the payload stream (the reader sees a payload error, not silence)")
    else:
        chk.violation("C09.errors", hp, "self._payload_parser.feed_data(...)", "except Exception: set_exception(payload, ...)", "a failing body parse is not reported on the stream")
    # ... and the reader that is about to wait again sees it (shared with C08)
    from rules import C08

    chk.include(C08.run, ("C08.wake.exception",), ("C08.wake.exception", "C09.errors.seen"))


def hunt4_rules(chk, repo):
    """Rules written after the fourth defect hunt (F264, F265): the multipart part decoder agrees with the HTTP body decoder."""
    MP = "aiohttp/multipart.py"
    # ---- C09.deflate.sniff: `deflate` is read in both spellings (zlib-wrapped per RFC 1950, or the raw stream many senders produce) -----------------
    n = 0
    for m in repo.all_modules():
        if "_websocket" in m.rel:
            continue  # permessage-deflate is raw deflate by definition (RFC 7692): nothing to choose
        for fn in m.functions.values():
            for c in prog.calls_in(fn.node):
                if norm.raw(c.func) != "ZLibDecompressor":
                    continue
                kv = next((k.value for k in c.keywords if k.arg == "suppress_deflate_header"), None)
                if kv is None:
                    continue
                n += 1
                sniff_here = "& 15" in norm.raw(kv)
                sniff_pc = any("& 15" in l.text for c_ in PC.pc(K.stmt_of(c), raw=True) for l in c_)
                if sniff_here or sniff_pc:
                    chk.ok("C09.deflate.sniff", c, f"{fn.qualname}: raw or zlib-wrapped deflate is chosen from the first data byte (CM nibble)")
                else:
                    chk.violation("C09.deflate.sniff", c, K.short(c, 70), "suppress_deflate_header=not data or data[0] & 0xF != 8",
                                  f"{fn.qualname} always builds a raw-deflate decoder: a part (or body) sent with `Content-Encoding: deflate` in the RFC format (zlib.compress) fails with zlib.error `invalid stored block lengths` and the handler answers 500, while the HTTP-level decoder accepts both spellings of the same bytes")
    chk.expect_count("C09.deflate.sniff", n, 3, "ZLibDecompressor(...) constructions that choose the deflate framing")
    # ---- C09.complete (multipart): a part that ends inside its compressed stream is an error, as for an HTTP body -------------------------------------
    # (restated after the fifth hunt, F264 was repaired for read(decode=True) only: every decoder of the part - the synchronous decode(), the
    # chunk-wise decode_iter() that read(), BodyPartReaderPayload.write() and the documented read_chunk() loop use - reports a stream that has
    # not reached its end when the part has)
    bp = repo.cls(MP, "BodyPartReader")
    ndec = 0
    for name, fn in bp.methods.items():
        feeds = [c for c in prog.calls_in(fn.node) if isinstance(c.func, ast.Attribute) and c.func.attr in ("decompress", "decompress_sync")]
        if not feeds:
            continue
        ndec += 1
        recv = {norm.raw(c.func.value) for c in feeds}
        def raises_truncated(f, depth=0):
            for r, _c in K.raises_in(f):
                if any(not l.pos and l.text.endswith(".eof") for l in PC.units(PC.pc(r, raw=True))):
                    return r
            return None
        tr = raises_truncated(fn)
        if tr is not None:
            chk.ok("C09.complete", tr, f"BodyPartReader.{name}(): a decompressor ({', '.join(sorted(recv))}) that has not reached the end of its stream when the part ends is reported (truncated part)")
        else:
            chk.violation("C09.complete", fn, K.short(feeds[0]), "if <the part is at its end> and not d.eof: raise ValueError(...)",
                          f"BodyPartReader.{name}() decodes a part without asking the decompressor whether its stream ended: a multipart part with `Content-Encoding: gzip` whose compressed stream is cut short (boundary framing intact) is returned as a complete body - by read(decode=True) / text() / json() / form(), by decode(await part.read()), by a read_chunk()/decode_iter() loop or when the part is forwarded (BodyPartReaderPayload.write()): 34618 of 90000 bytes, no error, the handler answers 200 - the same bytes as an HTTP-level gzip body get 400")
    chk.expect_count("C09.complete.multipart", ndec, 2, "methods of BodyPartReader that feed a decompressor")


def hunt5_rules(chk, repo):
    """Rule written after the fifth defect hunt (F286)."""
    # (round 7, seed C09-7) the end of an HTTP chunk whose last piece decoded to nothing wakes a reader without data: every wait of the
    # stream re-tests its condition in a loop, or read(n) / iter_chunked() hand out b"" - the end-of-body value - in the middle of a
    # compressed chunked body (rule shared with C08)
    from rules import C08
    chk.include(C08.run, ("C08.waitloop",), ("C08.waitloop", "C09.waitloop"))
    MP = "aiohttp/multipart.py"
    # ---- C09.part.keep: bytes that read() has taken out of the stream are not lost when the call is interrupted ----------------------------------------
    # read() moves what it has collected into a local (`data = self._read_partial; self._read_partial = bytearray()`); from there to the
    # return, every suspension point - the read_chunk() loop and the chunk-wise decoding in the executor - can raise CancelledError
    # (asyncio.wait_for / timeout).  Each has to sit under a handler that puts the local back, or a second read() returns b"" for a 30 MB part.
    rd = repo.func(MP, "BodyPartReader.read")
    take = [a for a in ast.walk(rd.node) if isinstance(a, ast.Assign) and norm.raw(a.targets[0]) == "self._read_partial" and isinstance(a.value, ast.Call) and norm.raw(a.value.func) in ("bytearray", "bytes")]
    if not take:
        chk.ok("C09.part.keep", rd, "read() does not move the collected bytes out of the reader")
        return
    holder = [v for _d, v in norm.fn_defs(rd.node).defs.items()]
    names = [n for n, ds in norm.fn_defs(rd.node).defs.items() if any(v is not None and norm.raw(v) == "self._read_partial" for _x, v in ds)]
    sus = [x for x in ast.walk(rd.node) if isinstance(x, (ast.Await, ast.AsyncFor)) and x.lineno > take[0].lineno]
    nsus = 0
    for x in sus:
        nsus += 1
        hs = [h for _t, h in K.enclosing_try_handlers(x) if (h.type is None or any(t in ("BaseException",) for t in PC.handler_types(h)))
              and any(isinstance(a, ast.Assign) and norm.raw(a.targets[0]) == "self._read_partial" and norm.raw(a.value) in names for a in ast.walk(h))]
        if hs:
            chk.ok("C09.part.keep", x, f"`{K.short(x, 50)}`: an interruption puts `{names[0] if names else '?'}` back into self._read_partial")
        else:
            chk.violation("C09.part.keep", x, K.short(x, 70), "try: ... except BaseException: self._read_partial = data; raise",
                          "read() holds the collected part in a local while it suspends here: a read(decode=True) / text() / json() / form() that is cancelled while the part is being decoded in the executor (asyncio.wait_for, asyncio.timeout) loses the whole part - the stream is at its end already, so the next read() returns b'' instead of 30 MB, without an error")
    chk.expect_count("C09.part.keep", nsus, 2, "suspension points of BodyPartReader.read() after the collected bytes were moved into a local")


def resume_rules(chk, repo):
    """C09.resume (F64): reading the stream of a finished message must not restart the parser that a *later* message's over-full stream
    paused - each such restart pushes another decompressed slab past that stream's limit.
    C09.lostparser (F65, known): the client protocol must not discard a parser that still holds received-but-parked input when the
    connection is lost, otherwise a complete compressed response is truncated."""
    rc = repo.func("aiohttp/streams.py", "StreamReader._read_nowait_chunk")
    res = K.exprs(rc, "self._protocol.resume_reading()")
    if not res:
        chk.analysis_error("C09.resume: resume_reading() not found in StreamReader._read_nowait_chunk")
    for c, _b in res:
        if PC.has_lit(PC.pc(c), "self._eof", False) is not None:
            chk.ok("C09.resume", c, "the consumption primitive resumes the transport only for a stream that is still receiving")
        else:
            chk.violation("C09.resume", c, K.short(c), "!(self._eof)",
                          "a stream that already got EOF still calls resume_reading() when it is read: with pipelining every read of the finished request A restarts the parser that request B's over-full buffer paused, and B's 65 KB gzip body is decoded to 64 MiB before its handler has read a byte (limit 512 KiB)")
    cl = repo.func("aiohttp/client_proto.py", "ResponseHandler.connection_lost")
    drops = [a for a in ast.walk(cl.node) if isinstance(a, ast.Assign) and norm.raw(a.targets[0]) == "self._parser" and isinstance(a.value, ast.Constant) and a.value.value is None]
    for a in drops:
        if any(any(t in l.text for t in ("_payload.is_eof", "eof_deferred", "_payload.exception", "has_pending")) for c in PC.pc(a) for l in c):
            chk.ok("C09.lostparser", a, "connection_lost() keeps the parser while it still holds parked input")
        else:
            chk.violation("C09.lostparser", a, "self._parser = None", "kept while the payload is neither at EOF nor failed",
                          "connection_lost() discards the parser unconditionally; over TLS the last data and the close arrive in one read, so a parser paused by a full reader still holds the rest of an already received body: a valid 6 KB gzip response that inflates to 3 MB is cut at 1 MiB (`Connection closed`) or fails with ClientPayloadError although its terminating chunk was received")


def stale_rule(chk, repo, rule="C09.pause.stale"):
    fdp = repo.func(HP, "HttpPayloadParser.feed_data")
    g = cfg_of(fdp.node)
    clears = [n for n in g.nodes if n.kind == "stmt" and isinstance(n.ast, ast.Assign) and norm.raw(n.ast.targets[0]) == "self._paused" and isinstance(n.ast.value, ast.Constant) and n.ast.value.value is False]
    # alternative repair: the flag is cleared by whoever resumes reading
    outside = [(fn, hits) for fn, hits in prog.writers(repo, [HP, "aiohttp/base_protocol.py", "aiohttp/client_proto.py", "aiohttp/web_protocol.py"], "_paused").items()
               if fn.qualname not in ("HttpPayloadParser.feed_data", "HttpPayloadParser.feed_eof", "HttpPayloadParser.__init__", "HttpPayloadParser.pause_reading")
               and fn.qualname.split(".")[0] in ("HttpPayloadParser", "HttpParser", "HttpRequestParser", "HttpResponseParser")
               and any(isinstance(K.stmt_of(h), ast.Assign) and isinstance(K.stmt_of(h).value, ast.Constant) and K.stmt_of(h).value.value is False for h, _k in hits)]
    if outside:
        chk.ok(rule, outside[0][1][0][0], f"the pause flag is cleared when reading resumes ({outside[0][0].qualname})")
        return
    bad = 0
    rets = [n for n in g.nodes if n.kind == "stmt" and isinstance(n.ast, ast.Return) and n.in_finally_copy is None]
    for r in rets:
        if "PAYLOAD_NEEDS_INPUT" not in norm.raw(r.ast):
            continue  # PENDING keeps the flag's meaning; after COMPLETE the body parser is discarded
        p = g.find_path([g.entry], lambda x, r=r: x is r, lambda x: x in clears, EXPLICIT)
        if p is not None:
            bad += 1
            if bad == 1:
                chk.violation(rule, r.ast, K.short(r.ast, 60), "self._paused = False on every path to a `need more input` return",
                              "HttpPayloadParser.feed_data() can return `need more input` / `complete` with the pause flag still set (e.g. a read that ends exactly on a chunk boundary while the reader is over its high-water mark): after the reader drains and reading resumes, the next data is parked in _chunk_tail as pending input although nothing is paused, and the body never completes",
                              path=g.fmt_path(p))
    if not bad:
        chk.ok(rule, fdp, f"every one of the {len([r for r in rets if 'PAYLOAD_NEEDS_INPUT' in norm.raw(r.ast)])} `need more input` returns of the body parser is reached only after the pause flag was cleared")
