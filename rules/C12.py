"""C12 WebSocket reader enforces the protocol and its size bounds (DESIGN 5/C12)."""
from __future__ import annotations

import ast

from sa import dataflow as D, match as M, norm, pc as PC, prog, rulekit as K
from sa.cfg import EXPLICIT, cfg_of
from sa.consteval import Folder, NotConst
from sa.dtable import Evaluator
from sa.loader import AnalysisError
from rules import C03

MOD = "aiohttp/_websocket/reader_py.py"
WR = "WebSocketReader"
# RFC 6455 7.4.1 / 7.4.2 + IANA registry: codes an endpoint may put in a Close frame
RFC_SENDABLE = {1000, 1001, 1002, 1003, 1007, 1008, 1009, 1010, 1011, 1012, 1013, 1014}


def _flag_value(fn_node, name, at):
    """The test a local flag stands for at `at`: `name` has exactly one definition `name = <comparison | and/or | not ...>`, that
    definition is an earlier sibling of `at` or of one of its ancestors (it has been executed, in this iteration, whenever `at` is
    reached), and nothing the expression reads is assigned between the two.  None otherwise (the literal stays as written)."""
    ds = norm.fn_defs(fn_node).defs.get(name, [])
    if len(ds) != 1 or not isinstance(ds[0][0], (ast.Assign, ast.AnnAssign)) or not isinstance(ds[0][1], (ast.Compare, ast.BoolOp, ast.UnaryOp)):
        return None
    dn, val = ds[0]
    if isinstance(val, ast.UnaryOp) and not isinstance(val.op, ast.Not):
        return None
    if any(isinstance(s, (ast.Call, ast.Await, ast.NamedExpr, ast.Yield, ast.YieldFrom, ast.Lambda)) for s in ast.walk(val)):
        return None  # only pure reads of names / attributes / constants
    n, dom = at, False
    while n is not None and not isinstance(n, (ast.FunctionDef, ast.AsyncFunctionDef, ast.Lambda)):
        blk = PC._block_of(n) if isinstance(n, ast.stmt) else None
        if blk is not None and any(s is dn for s in blk[: blk.index(n)]):
            dom = True
            break
        n = getattr(n, "parent", None)
    if not dom:
        return None
    reads = {norm.raw(s) for s in ast.walk(val) if isinstance(s, (ast.Name, ast.Attribute))}
    lo, hi = getattr(dn, "end_lineno", dn.lineno), at.lineno
    for s in ast.walk(fn_node):
        if isinstance(s, (ast.Name, ast.Attribute)) and isinstance(getattr(s, "ctx", None), (ast.Store, ast.Del)) and lo < s.lineno <= hi and norm.raw(s) in reads:
            return None
    return val


def _expand_flags(cl, fn_node, at):
    """Path condition with every literal that is a local boolean flag (`is_control = opcode > 0x7`) replaced by the test it was
    bound to: a condition tested through a named flag is the same condition."""
    cl0 = cl
    for rnd in range(3):
        out, changed = [], False
        for c in cl:
            acc = [frozenset()]
            for l in c:
                v = _flag_value(fn_node, l.text, at) if l.text.isidentifier() else None
                if v is None:
                    acc = [a | {l} for a in acc]
                else:
                    changed = True
                    acc = [a | s for a in acc for s in norm.cnf_raw(v, l.pos)]
            for a in acc:
                if a not in out and not any(l.neg() in a for l in a):
                    out.append(a)
        if not changed:
            if rnd == 0:
                return cl0  # no flag on the way: the path condition as computed
            break
        cl = out
        if len(cl) > norm.MAX_CLAUSES:
            break
    return PC.simplify(cl)


def ws_raises(fn, raw):
    out = []
    for n in ast.walk(fn.node):
        if isinstance(n, ast.Raise) and isinstance(n.exc, ast.Call) and norm.raw(n.exc.func) == "WebSocketError" and n.exc.args:
            code = norm.raw(n.exc.args[0])
            cl = _expand_flags(PC.pc(n, raw=raw), fn.node, n)
            out.append((n, code, cl, {str(next(iter(c))) for c in cl if len(c) == 1}, [frozenset(str(l) for l in c) for c in cl if len(c) > 1]))
    return out


def _neutral(lit: str) -> bool:
    """Literals that do not weaken a rejection: state / opcode-class dispatch, 'enough bytes buffered', the outcome of earlier tests
    that did not fire (negative literals), exception-handler membership."""
    return lit.startswith(("!(", "(self._state ==", "(opcode in {", "(self._frame_opcode in {", "(EXCEPT(")) or lit in ("(self._compress)",)


def _has_unit(x, u) -> bool:
    """A required unit literal, or any of a tuple of equivalent spellings / admissible strengthenings."""
    return x in u if isinstance(x, str) else any(a in u for a in x)


def _fmt_units(units):
    return [x if isinstance(x, str) else x[0] for x in units]


def _table(cl, table):
    """table = (variable, domain, want, description): the clauses of the path condition that speak of nothing but the variable, evaluated on every
    value of the domain, hold exactly where `want` does - however the test is spelled (`x` / `len(x) != 0` / an earlier guard that
    returned).  Returns the unit literals so explained, or None (no such clause, not evaluable, or a different set of values)."""
    var, domain, want, _descr = table
    about = []
    for c in cl:
        if not c:
            continue
        try:
            exprs = [(ast.parse(l.text, mode="eval").body, l.pos) for l in c]
        except SyntaxError:
            continue
        if all({s.id for s in ast.walk(e) if isinstance(s, ast.Name)} - {"len", "bool"} == {var} for e, _p in exprs):
            about.append((c, exprs))
    if not about:
        return None
    try:
        for v in domain:
            if all(any(bool(Evaluator({var: v}).ev(e)) == p for e, p in exprs) for _c, exprs in about) != bool(want(v)):
                return None
    except (AnalysisError, TypeError, ValueError, KeyError):
        return None
    return {str(next(iter(c))) for c, _e in about if len(c) == 1}


def need(chk, rid, what, fn, raises, code, units=(), clauses=(), allow=(), table=None):
    """A WebSocketError(code) raise exists whose PC has all the unit literals and disjunctive clauses - and nothing else that narrows
    it: every further positive literal must be neutral (dispatch) or listed in `allow` with a reason at the call site.
    `table`: a part of the condition that is demanded by value (see _table) instead of by spelling."""
    weak = None
    tdesc = [table[3]] if table else []
    tab = {id(n): (_table(cl, table) if table else set()) for n, c, cl, u, d in raises}
    raises = [r for r in raises if tab[id(r[0])] is not None]
    for n, c, cl, u, d in raises:
        if c != f"WSCloseCode.{code}":
            continue
        if all(_has_unit(x, u) for x in units) and all(any(set(cx) == set(dx) for dx in d) for cx in clauses):
            flat = {a for x in units for a in ((x,) if isinstance(x, str) else x)} | tab[id(n)]
            extra = sorted(x for x in u if x not in flat and not _neutral(x) and x not in allow)
            if extra:
                weak = weak or (n, extra)
                continue
            chk.ok(f"C12.rej.{rid}", n, f"{what}: WebSocketError({code}) under " + " & ".join(_fmt_units(units) + tdesc + ["[" + " | ".join(sorted(c2)) + "]" for c2 in clauses]))
            return n
    if weak:
        chk.violation(f"C12.rej.{rid}", weak[0], K.short(weak[0], 60), "rejection not conditional on " + " & ".join(weak[1]),
                      f"{what}: the rejection fires only under the additional condition {' & '.join(weak[1])}; frames that violate the rule outside that condition are accepted")
        return None
    # same condition with a different code?
    other = [(n, c) for n, c, cl, u, d in raises if all(_has_unit(x, u) for x in units) and all(any(set(cx) == set(dx) for dx in d) for cx in clauses)]
    if other:
        chk.violation(f"C12.rej.{rid}", other[0][0], K.short(other[0][0], 60), f"close code WSCloseCode.{code}", f"{what}: the violation is reported with {other[0][1]} instead of {code}")
    else:
        chk.violation(f"C12.rej.{rid}", fn, f"rejection[{what}]", " & ".join(_fmt_units(units) + tdesc + ["[" + " | ".join(sorted(c2)) + "]" for c2 in clauses]),
                      f"{what}: required rejection with close code {code} not found (the frame would be delivered or mis-framed instead of ending the stream)")
    return None


def run(chk):
    repo = chk.repo
    folder = Folder(repo)
    mod = repo.module(MOD)
    chk.explanation = (
        "Decided on _websocket/reader_py.py: each RFC 6455/7692 rejection named by the property exists as a WebSocketError raise with the "
        "specified close code whose path condition contains the offending condition; the accept predicate for received close codes equals the "
        "RFC table for all 65536 values; the frame parser keeps no call-local state across iterations except offsets into the current buffer, "
        "all offset-indexed buffer names are aliases of one buffer, offsets are recomputed on rebinding; the size cap (incl. the partial "
        "message) is tested before the reader enters the payload states; the fragment cap pauses reading; inflate is bounded with a post-check; "
        "the reader latches on the first error and only _handle_frame delivers messages."
    )
    chk.not_decided = "the exact delivered message sequence versus a reference decoder; the memory bound as a number."
    chk.explanation += " Also decided: the message opcode is reset on every path that completes a fragmented message; the stored masking key is read only under the current frame's own mask bit. After the defect hunt: required rejections carry no unexplained extra guard; back-pressure inside an incomplete frame can be lifted by a waiting reader; no empty fragment is retained."
    chk.explanation += " Second hunt: the early size test and the post-inflate test draw the limit at the same size; EOF does not erase a recorded violation; inflate failures carry a close code; every queued message weighs at least one unit; input after a reader error is not hoarded by the client protocol."
    fd = repo.func(MOD, f"{WR}._feed_data")
    hf = repo.func(MOD, f"{WR}._handle_frame")
    R1 = ws_raises(fd, raw=True)
    R2 = ws_raises(hf, raw=False)
    if len(R1) < 8 or len(R2) < 9:
        chk.analysis_error(f"C12.rej: only {len(R1)}+{len(R2)} WebSocketError raises seen (8+9 confirmed)")
    need(chk, "rsv", "reserved bits without negotiated extension", fd, R1, "PROTOCOL_ERROR",
         clauses=[("(rsv1)", "(rsv2)", "(rsv3)"), ("!(self._compress)", "(rsv2)", "(rsv3)")])
    n = need(chk, "opcode", "unknown opcode", fd, R1, "PROTOCOL_ERROR",
             units=["!(opcode in {OP_CODE_CONTINUATION, OP_CODE_TEXT, OP_CODE_BINARY, OP_CODE_CLOSE, OP_CODE_PING, OP_CODE_PONG})"])
    try:
        ops = {folder.name(mod, x) for x in ("OP_CODE_CONTINUATION", "OP_CODE_TEXT", "OP_CODE_BINARY", "OP_CODE_CLOSE", "OP_CODE_PING", "OP_CODE_PONG")}
    except NotConst as e:
        raise AnalysisError(f"C12.rej.opcode: {e}")
    if {int(x) for x in ops} == {0, 1, 2, 8, 9, 10}:
        chk.ok("C12.rej.opcode", fd, "the accepted opcode constants fold to {0,1,2,8,9,10}")
    else:
        chk.violation("C12.rej.opcode", fd, "OP_CODE_*", str(sorted(int(x) for x in ops)), "accepted opcodes differ from RFC 6455 5.2")
    need(chk, "ctlfrag", "fragmented control frame", fd, R1, "PROTOCOL_ERROR", units=["(opcode > 7)", "(fin == 0)"])
    need(chk, "ctllen", "control frame longer than 125", fd, R1, "PROTOCOL_ERROR", units=["(opcode > 7)", "(length > 125)"])
    need(chk, "ctlrsv1", "RSV1 on a control frame", fd, R1, "PROTOCOL_ERROR", units=["(opcode > 7)", "(rsv1)"])
    need(chk, "contrsv1", "RSV1 on a continuation fragment", fd, R1, "PROTOCOL_ERROR", units=["(rsv1)", "!(opcode > 7)", "!(self._frame_fin)", "!(self._compressed == COMPRESSED_NOT_SET)"])
    need(chk, "len64", "64-bit length beyond the representable maximum", fd, R1, "MESSAGE_TOO_BIG", units=["(frame_len > MAX_PAYLOAD_LEN)"], allow=("(len_flag > 126)",))  # the 64-bit length form
    capn = need(chk, "cap", "message size cap before buffering (counting the partial message)", fd, R1, "MESSAGE_TOO_BIG",
                units=[("(self._payload_bytes_to_read > self._max_msg_size - partial_len)", "!(self._payload_bytes_to_read <= self._max_msg_size - partial_len)",
                        "!(self._payload_bytes_to_read < self._max_msg_size - partial_len)"),  # `>` is what the limit says; `>=` only refuses more
                       "(self._max_msg_size)", "(self._frame_opcode in {OP_CODE_TEXT, OP_CODE_BINARY, OP_CODE_CONTINUATION})"])
    # the limit means the same thing on both paths: a message of exactly max_msg_size passes the post-inflate test (`>`), so the early test
    # of the announced length must let it pass too - otherwise whether a message is delivered depends on whether it was compressed
    if capn is not None:
        cu = {str(l) for c_ in PC.pc(capn, raw=True) if len(c_) == 1 for l in c_}
        strict_early = "!(self._payload_bytes_to_read < self._max_msg_size - partial_len)" in cu
        infl = [u for n_, c_, cl_, u, d_ in R2 if c_ == "WSCloseCode.MESSAGE_TOO_BIG" and any("len(payload_merged)" in x for x in u)]
        strict_late = bool(infl) and any("!(len(payload_merged) < self._max_msg_size)" in u for u in infl)
        if strict_early == strict_late:
            chk.ok("C12.rej.cap", capn, "the announced-length test and the post-inflate test draw the limit at the same size")
        else:
            chk.violation("C12.rej.cap", capn, K.short(capn, 60), "self._payload_bytes_to_read > self._max_msg_size - partial_len",
                          "the early test refuses a message of exactly max_msg_size bytes while the post-inflate test accepts it: the same message round-trips with permessage-deflate and is refused with 1009 (`Message size N exceeds limit N`) without")
    pl = norm.fn_defs(fd.node).defs.get("partial_len", [])
    if len(pl) == 1 and norm.raw(pl[0][1]) == "len(self._partial)":
        chk.ok("C12.rej.cap", pl[0][0], "the cap accounts for the bytes of the message received so far (len(self._partial))")
    else:
        chk.violation("C12.rej.cap", fd, "partial_len = len(self._partial)", "partial message length", "the size cap ignores the fragments already buffered: a fragmented message can exceed max_msg_size")
    need(chk, "contnostart", "continuation without a started message", hf, R2, "PROTOCOL_ERROR", units=["(opcode == OP_CODE_CONTINUATION)", "(self._opcode == OP_CODE_NOT_SET)"])
    # RFC 6455 5.4: while a fragmented message is in progress (recorded in self._opcode by its first frame) every data frame must be a
    # continuation - whether or not the offending frame is final and whether or not any payload has been buffered yet
    need(chk, "newinfrag", "new data opcode inside a fragmented message", hf, R2, "PROTOCOL_ERROR", units=["!(opcode == OP_CODE_CONTINUATION)", "!(self._opcode == OP_CODE_NOT_SET)"])
    need(chk, "inflatecap", "decompressed size cap", hf, R2, "MESSAGE_TOO_BIG", units=["(self._max_msg_size)", "(len(payload_merged) > self._max_msg_size)", "(compressed)"], allow=("(fin)",))  # a message is inflated when its final frame arrived
    need(chk, "members", "too many deflate members", hf, R2, "MESSAGE_TOO_BIG", units=["(EXCEPT(TooManyMembersError))", "(compressed)"], allow=("(fin)",))
    need(chk, "utf8", "invalid UTF-8 in a text message", hf, R2, "INVALID_TEXT", units=["(EXCEPT(UnicodeDecodeError))", "(opcode == OP_CODE_TEXT)"], allow=("(fin)", "(self._decode_text)"))  # text is validated when the message is complete; decode_text=False is the documented opt-out (payload handed over as bytes)
    need(chk, "closeutf8", "invalid UTF-8 in a close reason", hf, R2, "INVALID_TEXT", units=["(EXCEPT(UnicodeDecodeError))", "(opcode == OP_CODE_CLOSE)"])
    # a Close payload is empty or starts with a 2-byte code: exactly the one-byte payload is refused here (the empty one is a valid Close,
    # the longer ones are judged by their code) - decided on the payload lengths 0..3 and 125, whatever the order / spelling of the tests
    need(chk, "close1", "one-byte close payload", hf, R2, "PROTOCOL_ERROR", units=["(opcode == OP_CODE_CLOSE)"],
         table=("payload", [b"", b"\x03", b"\x03\xe8", b"\x03\xe8x", b"\x03\xe8" + b"x" * 123], lambda p: len(p) == 1, "(payload) & (len(payload) < 2)"))
    # strict decoders: payload.decode("utf-8") without an error handler that hides invalid bytes
    for call, b in K.exprs(hf, "$P.decode($E, ...)"):
        if len(call.args) > 1 or any(k.arg == "errors" for k in call.keywords):
            chk.violation("C12.rej.utf8", call, K.short(call), "strict decode", "an error handler on the UTF-8 decode hides invalid text instead of failing the connection with 1007")
        else:
            chk.ok("C12.rej.utf8", call, "UTF-8 is decoded strictly")

    # ---- C12.reset: completing a fragmented message resets the per-message opcode on every path to its delivery ----
    gh = cfg_of(hf.node)
    conts = [n for n in gh.nodes if n.kind == "test" and norm.raw(n.ast) == "opcode == OP_CODE_CONTINUATION" and PC.has_lit(PC.pc(n.ast), "fin", True) is not None]
    deliver = [n for n in gh.nodes if K.node_has(n, "self.queue.feed_data($M)")]
    if conts and deliver:
        K.must_pass(chk, "C12.reset", hf, None, lambda n: K.node_has(n, "self._opcode = OP_CODE_NOT_SET"), "a final continuation frame resets the message opcode before the message is delivered",
                    start_edges=[(c, "T") for c in conts], targets=lambda n: n in deliver, construct="if opcode == OP_CODE_CONTINUATION: opcode = self._opcode", missing="self._opcode = OP_CODE_NOT_SET")
    else:
        chk.violation("C12.reset", hf, "if opcode == OP_CODE_CONTINUATION (final frame)", "reset of self._opcode", "cannot find the completion of a fragmented message")
    starts = [s2 for s2, _b in K.stmts(hf, "self._opcode = opcode")]
    if starts and PC.has_lit(PC.pc(starts[0]), "fin", False) is not None and PC.has_lit(PC.pc(starts[0]), "opcode == OP_CODE_CONTINUATION", False) is not None:
        chk.ok("C12.reset", starts[0], "the message opcode is recorded only by a non-final, non-continuation frame (start of a fragmented message)")
    else:
        chk.violation("C12.reset", hf, "self._opcode = opcode", "!(fin) & !(opcode == OP_CODE_CONTINUATION)", "the fragmented-message opcode is recorded under the wrong condition")
    # ---- C12.codes -----------------------------------------------------------------------------------------
    inv = [(n, cl) for n, c, cl, u, d in R2 if "Invalid close code" in norm.raw(n)]
    if not inv:
        chk.violation("C12.codes", hf, "raise WebSocketError(PROTOCOL_ERROR, 'Invalid close code ...')", "close code check", "received close codes are not validated")
    else:
        n = inv[0][0]
        test = next(iter(prog.enclosing(n, (ast.If,)))).test
        try:
            allowed = {int(x) for x in folder.name(mod, "ALLOWED_CLOSE_CODES")}
        except NotConst as e:
            raise AnalysisError(f"C12.codes: {e}")
        names = {s.id for s in ast.walk(test) if isinstance(s, ast.Name)} - {"ALLOWED_CLOSE_CODES"}
        if len(names) != 1:
            raise AnalysisError(f"C12.codes: cannot identify the close-code variable in `{norm.raw(test)}`")
        var = names.pop()
        bad = []
        for c in range(65536):
            rejected = bool(Evaluator({var: c, "ALLOWED_CLOSE_CODES": allowed}).ev(test))
            want_ok = c in RFC_SENDABLE or 3000 <= c <= 4999
            if rejected == want_ok:
                bad.append(c)
        if bad:
            for c in bad[:4]:
                chk.violation("C12.codes", n, norm.raw(test), f"close code {c}", f"close code {c} is {'refused' if (c in RFC_SENDABLE or 3000 <= c <= 4999) else 'accepted'} on the wire, contrary to RFC 6455 7.4 (codes 1004-1006, 1015, <1000, unassigned 1xxx/2xxx and >=5000 must not appear in a Close frame)")
        else:
            chk.ok("C12.codes", n, "accept predicate for received close codes equals the RFC 6455 table on all 65536 values")
            chk.exhaustive_domains.append("C12.codes: 0..65535")
        # the value tested is the first two payload bytes, network order
        cc = norm.fn_defs(hf.node).defs.get(var, [])
        if len(cc) == 1 and norm.raw(cc[0][1]) == "UNPACK_CLOSE_CODE(payload[:2])[0]":
            try:
                fmt = folder.eval(repo.module("aiohttp/_websocket/helpers.py"), ast.parse("UNPACK_CLOSE_CODE", mode="eval").body)
            except NotConst:
                fmt = None
            chk.ok("C12.codes", cc[0][0], "the code is unpacked from the first two payload bytes")
        else:
            chk.violation("C12.codes", hf, f"{var} = UNPACK_CLOSE_CODE(payload[:2])[0]", "", "the validated value is not the wire close code")

    # ---- C12.rp (T8) ------------------------------------------------------------------------------------------
    _c, bufs, offs, loop = C03.rp_rule(chk, "C12.rp", repo, fd, "frame parser: decisions are independent of call boundaries")
    C03.rp3_rule(chk, "C12.rp3", fd, bufs, offs, loop, "frame parser: offsets follow the buffer")
    alias_rule(chk, fd)
    # header fields cross the state blocks through attributes only: no local defined in one state block is read in another
    blocks = [i for i in loop.body if isinstance(i, ast.If) and "self._state ==" in norm.raw(i.test)]
    if len(blocks) < 4:
        chk.analysis_error(f"C12.rp: {len(blocks)} state blocks found in _feed_data (4 confirmed)")
    for i, b in enumerate(blocks):
        defs_here = set()
        for s in ast.walk(b):
            if isinstance(s, ast.Name) and isinstance(s.ctx, ast.Store):
                defs_here.add(s.id)
        for j, b2 in enumerate(blocks):
            if j == i:
                continue
            defs2 = {s.id for s in ast.walk(b2) if isinstance(s, ast.Name) and isinstance(s.ctx, ast.Store)}
            for s in ast.walk(b2):
                if isinstance(s, ast.Name) and isinstance(s.ctx, ast.Load) and s.id in defs_here and s.id not in defs2 and s.id not in offs and s.id not in bufs:
                    chk.violation("C12.rp", s, s.id, f"local of state block `{norm.raw(b.test)}` read in `{norm.raw(b2.test)}`",
                                  f"`{s.id}` is computed while parsing one part of the frame header and read in another state: if a read boundary falls between the states the value is gone")
    chk.ok("C12.rp", loop, f"{len(blocks)} state blocks share no non-positional local")

    # ---- C12.cap (T15) ------------------------------------------------------------------------------------------
    g = cfg_of(fd.node)
    trans = [n for n in g.nodes if n.kind == "stmt" and isinstance(n.ast, ast.Assign) and norm.raw(n.ast.targets[0]) == "self._state" and "READ_PAYLOAD" in norm.raw(n.ast.value) and "LENGTH" not in norm.raw(n.ast.value) and "self._has_mask" in norm.raw(n.ast.value)]
    captest = [n for n in g.nodes if n.kind == "test" and "self._max_msg_size" in norm.raw(n.ast) and "self._frame_opcode" in norm.raw(n.ast)]
    st = [n for n in g.nodes if n.kind == "test" and norm.raw(n.ast) == "self._state == READ_PAYLOAD_LENGTH"]
    if trans and captest and st:
        K.must_pass(chk, "C12.cap", fd, None, lambda n: n in captest, "the size cap is evaluated before the reader enters the payload states", start_edges=[(s, "T") for s in st],
                    targets=lambda n: n in trans, construct="self._state = READ_PAYLOAD_MASK if self._has_mask else READ_PAYLOAD", missing="size cap test")
    else:
        chk.violation("C12.cap", fd, "size cap test / transition to READ_PAYLOAD", f"trans={len(trans)} cap={len(captest)}", "cannot find the size cap before the payload states")
    # ---- C12.fragcap ------------------------------------------------------------------------------------------------
    pz = K.exprs(fd, "self.queue._protocol.pause_reading()")
    if pz and PC.has_lit(PC.pc(pz[0][0], raw=True), "len(self._payload_fragments) > self._max_fragments", True) is not None:
        chk.ok("C12.fragcap", pz[0][0], "too many buffered fragments of one frame pause reading")
    else:
        chk.violation("C12.fragcap", fd, "self.queue._protocol.pause_reading()", "(len(self._payload_fragments) > self._max_fragments)", "a frame delivered in very many tiny reads is buffered without back-pressure")
    # ---- C12.mask: the key stored for a masked frame is used only for a frame whose own mask bit is set --------------
    # _frame_mask is assigned only when a masked frame's key is read and is never cleared: it survives into later frames.
    fdn = repo.func(MOD, f"{WR}._feed_data")
    nm = 0
    for n in ast.walk(fdn.node):
        if not (isinstance(n, ast.Attribute) and n.attr == "_frame_mask" and isinstance(n.ctx, ast.Load)):
            continue
        st = K.stmt_of(n)
        if isinstance(st, ast.Assert):
            continue
        nm += 1
        if PC.has_lit(PC.pc(n), "self._has_mask", True) is not None:
            chk.ok("C12.mask", n, "the stored masking key is read only under this frame's mask bit (self._has_mask)")
        else:
            chk.violation("C12.mask", n, K.short(st, 70), "self._has_mask",
                          "the masking key of an earlier frame is consulted for a frame whose own mask bit is not known to be set: after one masked frame every later unmasked frame is XOR-ed with the stale key",
                          path_condition=norm.fmt_cnf(PC.pc(n)))
    for c in prog.calls_in(fdn.node):
        if isinstance(c.func, ast.Name) and c.func.id == "websocket_mask":
            nm += 1
            if c.args and norm.raw(c.args[0]) == "self._frame_mask" and PC.has_lit(PC.pc(c), "self._has_mask", True) is not None:
                chk.ok("C12.mask", c, "payload is unmasked with the frame's own key, exactly when its mask bit is set")
            else:
                chk.violation("C12.mask", c, K.short(c), "websocket_mask(self._frame_mask, ...) under self._has_mask", "payload unmasked under a condition other than the frame's mask bit")
    # How many unmask sites there are is a matter of layout (one per fragments x mask branch, or one after the bytes were gathered); what the
    # property needs is that every frame whose mask bit is set is unmasked before it is delivered: no path reaches _handle_frame() that
    # neither took the "mask bit clear" side of a test of self._has_mask nor passed websocket_mask(self._frame_mask, ...)
    gm = cfg_of(fdn.node)
    handed = [n_ for n_ in gm.nodes if n_.in_finally_copy is None and n_.kind == "stmt" and any(norm.raw(c.func) == "self._handle_frame" for c in K.node_calls(n_))]
    if not handed:
        chk.analysis_error("C12.mask: the hand-over of a complete frame (`self._handle_frame(...)`) was not found in WebSocketReader._feed_data")
    else:
        def _unmasks(n_):
            return n_.kind == "stmt" and any(isinstance(c.func, ast.Name) and c.func.id == "websocket_mask" and c.args and norm.raw(c.args[0]) == "self._frame_mask" for c in K.node_calls(n_))

        def _bit_clear(n_, k):
            return n_.kind == "test" and k in ("T", "F") and any(len(c) == 1 and next(iter(c)) == norm.Lit("self._has_mask", False) for c in norm.cnf_raw(n_.ast, k == "T"))

        prev, todo, hit = {gm.entry.id: None}, [gm.entry], None
        while todo and hit is None:
            cur = todo.pop(0)
            for t, k in gm.succs(cur, EXPLICIT):
                if t.id in prev or _bit_clear(cur, k) or _unmasks(t):
                    continue
                prev[t.id] = cur
                if t in handed:
                    hit = t
                    break
                todo.append(t)
        if hit is None:
            chk.ok("C12.mask", handed[0].ast, "every frame handed to _handle_frame() was unmasked with its key, or its mask bit was tested clear on the way")
        else:
            path = [hit]
            while prev[path[-1].id] is not None:
                path.append(prev[path[-1].id])
            chk.violation("C12.mask", hit.ast, K.short(hit.ast, 70), "websocket_mask(self._frame_mask, <payload>) on every path with self._has_mask",
                          "a frame can reach _handle_frame() without its mask bit having been tested clear and without being unmasked: a masked frame (every client frame) is delivered as the XOR-ed wire bytes",
                          path=gm.fmt_path(list(reversed(path))))
    chk.expect_count("C12.mask", nm, 2, "uses of the stored masking key / unmask calls")
    for fn, hits in prog.writers(repo, [MOD], "_frame_mask").items():
        if fn.name not in ("__init__", "_feed_data"):
            chk.violation("C12.mask", hits[0][0], K.short(hits[0][0]), f"writer {fn.qualname}", "the masking key is written outside the frame parser")
    # ---- C12.fragpause: back-pressure applied inside an incomplete frame can be lifted without that frame completing -------------------
    # The only other resume is in WebSocketDataQueue._read_from_buffer, which needs a *complete* message - which cannot arrive while paused.
    pauses = [c for c in prog.calls_in(fdn.node) if norm.raw(c.func).endswith("pause_reading")]
    qr = repo.func(MOD, "WebSocketDataQueue.read")
    if pauses:
        gq = cfg_of(qr.node)
        waits = [n for n in gq.nodes if n.in_finally_copy is None and any(isinstance(a, ast.Await) and "_waiter" in norm.raw(a) for a in ast.walk(n.ast) if isinstance(n.ast, ast.AST))]
        resumes = lambda n: K.node_has(n, "self._protocol.resume_reading()")
        tests = [n for n in gq.nodes if n.kind == "test" and "_reading_paused" in norm.raw(n.ast)]
        if waits and K.exprs(qr, "self._protocol.resume_reading()") and tests and gq.find_path(None, lambda n: n in waits, resumes, EXPLICIT, [(t, "T") for t in tests]) is None:
            chk.ok("C12.fragpause", pauses[0], "reading paused inside an incomplete frame is resumed by a reader that is about to wait on the empty queue")
        else:
            chk.violation("C12.fragpause", pauses[0], K.short(pauses[0], 60), "a resume that does not need a complete message (e.g. in WebSocketDataQueue.read() before waiting)",
                          "the fragment cap pauses the transport in the middle of a frame; the only resume needs a complete message, which can no longer arrive: one large frame delivered in many small reads (2-byte TCP segments) hangs receive() for ever and leaks the connection")
    else:
        chk.ok("C12.fragpause", fdn, "the frame parser never pauses the transport inside an incomplete frame")
    # ---- C12.nofrag0: no empty fragment is retained ------------------------------------------------------------------------------------
    # `had_fragments` is a byte count: an empty slice appended when a read ends right after the header leaves the list non-empty but the
    # count 0, so the single-chunk path is taken and the list is never cleared - one leaked entry per message until the cap pauses reading
    # (round 7) the append may be called through a cached bound method (`self._add_fragment = self._payload_fragments.append`)
    _wr = repo.cls(MOD, WR)
    _al = {a.targets[0].attr for m_ in _wr.methods.values() for a in ast.walk(m_.node) if isinstance(a, ast.Assign) and isinstance(a.targets[0], ast.Attribute)
           and norm.raw(a.targets[0].value) == "self" and norm.raw(a.value) == "self._payload_fragments.append"}
    apps = [c for c in prog.calls_in(fdn.node) if norm.raw(c.func) == "self._payload_fragments.append" or (isinstance(c.func, ast.Attribute) and norm.raw(c.func.value) == "self" and c.func.attr in _al)]
    inc = [c for c in apps if PC.has_lit(PC.pc(c, raw=True), [("self._payload_bytes_to_read != 0", True), ("self._payload_bytes_to_read == 0", False), ("self._payload_bytes_to_read", True)], True) is not None]
    if not inc:
        chk.analysis_error("C12.nofrag0: the append of an incomplete frame's fragment was not found")
    for c in inc:
        guards = [i for i in ast.walk(fdn.node) if isinstance(i, ast.If) and i.lineno < c.lineno and PC.terminates(i.body) and any(t in norm.raw(i.test) for t in ("chunk_len == 0", "not chunk_len", "chunk_len <= 0", "f_start_pos == f_end_pos", "f_end_pos == f_start_pos", "f_end_pos <= f_start_pos"))]
        joined_by_list = any(isinstance(i, ast.If) and norm.raw(i.test) in ("self._payload_fragments",) for i in ast.walk(fdn.node))
        if guards or joined_by_list or PC.has_lit(PC.pc(c, raw=True), [("chunk_len", True), ("chunk_len > 0", True), ("chunk_len == 0", False), ("chunk_len <= 0", False), ("f_end_pos > f_start_pos", True), ("f_start_pos < f_end_pos", True)], True) is not None:
            chk.ok("C12.nofrag0", c, "an incomplete frame's fragment is stored only if the read brought payload bytes")
        else:
            chk.violation("C12.nofrag0", c, K.short(c, 60), "no append of an empty slice (or the join path chosen by `if self._payload_fragments`)",
                          "a read that ends exactly after the frame header (or mask) stores b'' in _payload_fragments; the frame then completes on the single-chunk path, which never clears the list: every such message leaks one entry, and after max_fragments of them the reader pauses the transport for good")
    # ---- C12.latch ---------------------------------------------------------------------------------------------------
    fdd = repo.func(MOD, f"{WR}.feed_data")
    gg = cfg_of(fdd.node)
    calls = K.nodes_matching(fdd, "self._feed_data($D)")
    latch = [n for n in gg.nodes if n.kind == "test" and "self._exc is not None" in norm.raw(n.ast)]
    if calls and latch and gg.find_path([gg.entry], lambda n: n in calls, lambda n: n in latch, EXPLICIT) is None:
        rets = [s for s in ast.walk(fdd.node) if isinstance(s, ast.Return) and PC.has_lit(PC.pc(s), "self._exc is None", False) is not None]
        if rets:
            chk.ok("C12.latch", rets[0], "feed_data(): after an error nothing is parsed any more (returns at once)")
        else:
            chk.violation("C12.latch", fdd, "if self._exc is not None: return", "return", "the error latch does not stop parsing")
    else:
        chk.violation("C12.latch", fdd, "if self._exc is not None: return True, data", "latch test before _feed_data", "frames after a protocol violation are still parsed and delivered")
    ok = False
    for c in calls:
        for _t, h in K.enclosing_try_handlers(c.ast if not isinstance(c.ast, ast.Expr) else c.ast.value):
            if "Exception" in PC.handler_types(h) and any(norm.raw(s) == f"self._exc = {h.name}" for s in h.body) and M.contains(h, f"set_exception(self.queue, {h.name})"):
                ok = True
                chk.ok("C12.latch", h, "any parse error is latched in _exc and set on the message queue")
    if not ok:
        chk.violation("C12.latch", fdd, "except Exception as exc: self._exc = exc; set_exception(self.queue, exc)", "", "a protocol violation is not latched / not reported to the reader")
    # only _handle_frame delivers
    deliver = {}
    for name, m in repo.cls(MOD, WR).methods.items():
        for call, _b in K.exprs(m, "self.queue.feed_data($M)"):
            deliver.setdefault(name, []).append(call)
    if set(deliver) == {"_handle_frame"}:
        chk.ok("C12.latch", hf, f"messages are delivered only by _handle_frame ({sum(len(v) for v in deliver.values())} sites)")
    else:
        for nme, cs in deliver.items():
            if nme != "_handle_frame":
                chk.violation("C12.latch", cs[0], K.short(cs[0]), f"delivery from {nme}", "a message is delivered outside the validated frame handler")

    hunt2_rules(chk, repo, hf)
    hunt3_rules(chk, repo)
    hunt4_rules(chk, repo)
    hold_rule(chk, repo)
    bound_alias_rule(chk, repo)


def _self_attrs_set(cls, stmts, depth=1):
    """self attributes assigned by the statements, following calls of own methods one level"""
    out = set()
    for st in stmts:
        for n in ast.walk(st):
            if isinstance(n, (ast.Assign, ast.AnnAssign, ast.AugAssign)):
                for t in (n.targets if isinstance(n, ast.Assign) else [n.target]):
                    if isinstance(t, ast.Attribute) and norm.raw(t.value) == "self":
                        out.add(t.attr)
            elif depth and isinstance(n, ast.Call) and isinstance(n.func, ast.Attribute) and norm.raw(n.func.value) == "self" and n.func.attr in cls.methods and n.func.attr != "close":
                out |= _self_attrs_set(cls, cls.methods[n.func.attr].node.body, depth - 1)
    return out


def hunt3_rules(chk, repo):
    """Rules written after the third defect hunt (F188, F189)."""
    for rel, cname in (("aiohttp/web_ws.py", "WebSocketResponse"), ("aiohttp/client_ws.py", "ClientWebSocketResponse")):
        cls = repo.cls(rel, cname)
        close, recv = K.with_tail_delegate(cls, "close"), cls.methods["receive"]
        # ---- C12.errclose: after the reader failed, close() does not read the failed queue again -----------------------------------------------
        # the queue re-raises the recorded WebSocketError on every read(): close() would take it for a broken handshake (1006, abort) and the
        # violation's own code (1002 / 1007 / 1009) is lost.  What close() tests before it reads is what receive() has to set first.
        reads = [a for a in prog.awaits_in(close.node) if isinstance(a.value, ast.Call) and norm.raw(a.value.func).endswith("reader.read")]
        if not reads:
            chk.analysis_error(f"C12.errclose: {cname}.close() does not read the peer's CLOSE from the reader")
            continue
        skip = set()
        # (the guards of the enclosing `while True` count: what the loop assigns it assigns on its way out)
        for l in [l for at in [reads[0]] + list(K.loop_ancestors(reads[0])) for l in PC.units(PC.pc(at, raw=True))]:
            for a in ast.walk(ast.parse(l.text, mode="eval")):
                if isinstance(a, ast.Attribute) and norm.raw(a.value) == "self":
                    skip.add(a.attr)
        skip -= {"_reader", "_timeout", "_loop"}
        hs = [h for t in ast.walk(recv.node) if isinstance(t, ast.Try) for h in t.handlers if "WebSocketError" in PC.handler_types(h)]
        if not hs:
            chk.analysis_error(f"C12.errclose: {cname}.receive() has no `except WebSocketError`")
        for h in hs:
            before = []
            for st in h.body:
                if any(isinstance(a, ast.Await) and isinstance(a.value, ast.Call) and norm.raw(a.value.func) == "self.close" for a in ast.walk(st)):
                    break
                before.append(st)
            got = _self_attrs_set(cls, before) & skip
            if got:
                chk.ok("C12.errclose", h, f"{cname}.receive(): the WebSocketError handler sets {sorted(got)} before close(), which close() tests before reading the peer's CLOSE")
            else:
                chk.violation("C12.errclose", h, "except WebSocketError as exc: ... await self.close(code=exc.code)", f"one of self.{{{', '.join(sorted(skip))}}} set before close()",
                              f"{cname}.receive() reports a protocol violation and calls close(), which sends the CLOSE and then reads the reader for the peer's CLOSE: the failed queue raises the same error again, close() takes it for a broken handshake - close_code becomes 1006 instead of the violation's 1002/1007/1009 and the transport is aborted, dropping the CLOSE frame that carried the code")
        # ---- C12.heartbeat.paused: a missing PONG is no verdict while our own side is not reading ----------------------------------------------
        pn = cls.methods.get("_pong_not_received")
        if pn is None:
            chk.analysis_error(f"C12.heartbeat.paused: {cname}._pong_not_received not found")
            continue
        verdicts = [c for c, _b in K.exprs(pn, "self._handle_ping_pong_exception($E)")]
        for v in verdicts:
            if any(l.text.endswith("._reading_paused") and not l.pos for l in PC.units(PC.pc(v, raw=True))):
                chk.ok("C12.heartbeat.paused", v, f"{cname}: the peer is declared dead only when reading is not paused by our own flow control")
            else:
                chk.violation("C12.heartbeat.paused", v, K.short(v, 70), "if <protocol>._reading_paused: self._reset_heartbeat(); return",
                              f"{cname} closes the connection (1006) for a missing PONG although its own flow control has paused reading (the application is slow to consume a burst): the PONG sits unread in the socket buffer, the peer is alive")
        if not verdicts:
            chk.analysis_error(f"C12.heartbeat.paused: {cname}._pong_not_received does not call _handle_ping_pong_exception")


def bound_alias_rule(chk, repo, rule="C12.alias.bound"):
    """Rule written after seeding round 7 (seed C12-7): a cached bound method belongs to the object it was taken from.
    `self._put = self._buffer.append` is a sound micro-optimisation while `self._buffer` is never bound to another object.  Where the
    attribute is rebound (the fragment list is replaced by `[b"".join(...)]` when the fragment cap merges it), the cached method goes on
    writing into the orphaned object while len(), join() and clear() act on the new one: the frame is delivered truncated, later frames
    that span several reads come out empty, and the cap never fires again."""
    n = 0
    for rel in ("aiohttp/_websocket/reader_py.py", "aiohttp/_websocket/writer.py", "aiohttp/streams.py", "aiohttp/http_parser.py", "aiohttp/http_writer.py", "aiohttp/base_protocol.py", "aiohttp/client_proto.py"):
        mod = repo.module(rel)
        for ci in mod.classes.values():
            aliases = []
            for mname, m in ci.methods.items():
                for a in ast.walk(m.node):
                    if isinstance(a, ast.Assign) and len(a.targets) == 1 and isinstance(a.targets[0], ast.Attribute) and norm.raw(a.targets[0].value) == "self" \
                            and isinstance(a.value, ast.Attribute) and isinstance(a.value.value, ast.Attribute) and norm.raw(a.value.value.value) == "self":
                        aliases.append((a.targets[0].attr, a.value.value.attr, a.value.attr, m, a))
            for alias, owner, meth, m0, a0 in aliases:
                n += 1
                rebinds = []
                for mname, m in ci.methods.items():
                    for b in ast.walk(m.node):
                        if isinstance(b, ast.Assign) and any(norm.raw(t) == f"self.{owner}" for t in b.targets) and b is not a0:
                            blk = PC._block_of(b) or []
                            # fine when the alias is taken again right there, or when this is the construction the alias was taken from
                            again = any(isinstance(x, ast.Assign) and norm.raw(x.targets[0]) == f"self.{alias}" and x.lineno > b.lineno for x in blk)
                            first = m is m0 and b.lineno < a0.lineno
                            if not again and not first:
                                rebinds.append((m, b))
                if rebinds:
                    m, b = rebinds[0]
                    chk.violation(rule, b, K.short(b), f"self.{alias} = self.{owner}.{meth}  again after the rebind (or no cached method)",
                                  f"{ci.name} caches `self.{owner}.{meth}` in self.{alias}, and {m.name}() binds self.{owner} to a new object: the cached method keeps writing into the old one - a frame that trickles in over more reads than the fragment cap is delivered truncated to what was buffered at the merge, every later frame that spans more than one read comes out empty or short, and the orphaned list grows without bound")
                else:
                    chk.ok(rule, a0, f"{ci.name}: self.{owner} is never rebound after `self.{alias} = self.{owner}.{meth}` was taken")
    chk.expect_count(rule, n, 2, "cached bound methods of attributes in the reader / stream classes")


def hold_rule(chk, repo, rule="C12.hold", why=None):
    """Rule written after seeding round 6 (seeds C12-6, C13-6): frames kept back by flow control are never dropped.
    The reader that stopped in the middle of a chunk registers itself in `<queue>._held_reader`; the rest of the chunk (complete frames, possibly
    the peer's Close or a protocol violation) lives only in that reader's tail.  So the registration may be cleared only by a statement that takes
    the reader over (`x, self._held_reader = self._held_reader, None`, or after `x = self._held_reader`), the reader taken over is replayed on
    every way out, and nothing is cleared after a replay: the replay re-enters the queue and may register the reader again."""
    from sa.cfg import EXPLICIT, cfg_of
    why = why or "the frames held back by flow control are lost: the consumer gets a strict prefix of the messages the peer sent (data, the Close frame or the 1002/1007/1009 verdict are never decoded) although the same bytes delivered frame by frame are decoded in full"
    n_clear = n_reg = 0
    for rel in ("aiohttp/_websocket/reader_py.py", "aiohttp/client_proto.py", "aiohttp/web_ws.py", "aiohttp/client_ws.py", "aiohttp/web_protocol.py", "aiohttp/base_protocol.py"):
        mod = repo.module(rel)
        for fn in mod.functions.values():
            if fn.name == "__init__":
                continue
            stores = []
            for st in ast.walk(fn.node):
                if isinstance(st, ast.Assign):
                    for t in st.targets:
                        for tt, vv in (zip(t.elts, st.value.elts) if isinstance(t, ast.Tuple) and isinstance(st.value, ast.Tuple) and len(t.elts) == len(st.value.elts) else [(t, st.value)]):
                            if isinstance(tt, ast.Attribute) and tt.attr == "_held_reader":
                                stores.append((st, tt, vv))
                elif isinstance(st, (ast.AnnAssign, ast.AugAssign, ast.Delete)):
                    tg = st.targets if isinstance(st, ast.Delete) else [st.target]
                    for tt in tg:
                        if isinstance(tt, ast.Attribute) and tt.attr == "_held_reader":
                            stores.append((st, tt, getattr(st, "value", None)))
            if not stores:
                continue
            g = cfg_of(fn.node)
            for st, tt, vv in stores:
                if vv is not None and norm.raw(vv) == "self":
                    n_reg += 1
                    continue
                n_clear += 1
                held = norm.raw(tt)
                # names that hold the reader: `x = <held>` / `x, <held> = <held>, None`
                caps = {}
                for c in ast.walk(fn.node):
                    if isinstance(c, ast.Assign):
                        for t in c.targets:
                            for a, b in (zip(t.elts, c.value.elts) if isinstance(t, ast.Tuple) and isinstance(c.value, ast.Tuple) and len(t.elts) == len(c.value.elts) else [(t, c.value)]):
                                if isinstance(a, ast.Name) and norm.raw(b) == held:
                                    caps.setdefault(a.id, []).append(c)
                    elif isinstance(c, ast.NamedExpr) and norm.raw(c.value) == held:
                        caps.setdefault(c.target.id, []).append(K.stmt_of(c))
                sn = [n for n in g.nodes if n.in_finally_copy is None and n.ast is st]
                if not sn:
                    continue
                def feeds(n, names):
                    return any(isinstance(c.func, ast.Attribute) and c.func.attr in ("feed_data", "_feed_data") and norm.raw(c.func.value) in names for c in K.node_calls(n))
                capnodes = [n for n in g.nodes if n.in_finally_copy is None and any(n.ast is c for cs in caps.values() for c in cs)]
                # (a) the store is reached only through a take-over
                unowned = None if any(n.ast is st for n in capnodes) else g.find_path([g.entry], lambda n: n in sn, lambda n: n in capnodes, EXPLICIT)
                if not caps or unowned is not None:
                    chk.violation(rule, st, K.short(st), f"x, {held} = {held}, None ... x.feed_data(b'')", f"{fn.qualname}() clears the registration of the held reader without taking the reader over: " + why,
                                  path=g.fmt_path(unowned) if unowned else None)
                    continue
                names = set(caps) | {held}
                # (b) nothing is replayed between the take-over and the clearing (the replay may register the reader again)
                erase = None
                if not any(n.ast is st for n in capnodes):
                    for f in (n for n in g.nodes if n.in_finally_copy is None and isinstance(getattr(n, "ast", None), ast.AST) and feeds(n, names)):
                        if g.find_path(capnodes, lambda n: n is f, lambda n: n in sn, EXPLICIT) is not None and g.find_path([f], lambda n: n in sn, lambda n: False, EXPLICIT) is not None:
                            erase = [f] + sn
                            break
                if erase is not None:
                    chk.violation(rule, st, K.short(st), f"x, {held} = {held}, None before x.feed_data(b'')", f"{fn.qualname}() clears the registration after replaying the held reader: the replay re-enters the queue, and when the replayed frames fill it again the reader registers itself once more - that registration is erased, the rest of the chunk stays in the reader's tail and receive() waits for a Close frame that arrived long ago",
                                  path=g.fmt_path(erase))
                    continue
                # (c) the reader taken over is replayed on every way out
                lost = g.find_path(sn, lambda n: n.kind == "exit" or (n.kind == "stmt" and isinstance(n.ast, ast.Return)), lambda n: feeds(n, set(caps)), EXPLICIT)
                if lost is not None:
                    chk.violation(rule, st, K.short(st), "x.feed_data(b'') on every path after the take-over", f"{fn.qualname}() takes the held reader over and leaves without replaying it: " + why, path=g.fmt_path(lost))
                else:
                    chk.ok(rule, st, f"{fn.qualname}(): the held reader is taken over in the statement that clears the registration and replayed on every path after it")
    if n_reg < 1 or n_clear < 1:
        chk.analysis_error(f"{rule}: registration ({n_reg}) / hand-over ({n_clear}) of the held reader not found")
    chk.expect_count(rule, n_clear, 1, "statements that clear the held-reader registration")


def hunt4_rules(chk, repo):
    """Rules written after the fourth defect hunt (F215, F216)."""
    from sa.cfg import EXPLICIT, cfg_of
    rd = repo.cls(MOD, "WebSocketReader")
    q = repo.cls(MOD, "WebSocketDataQueue")
    fd = rd.methods["_feed_data"]
    # ---- C12.backpressure: pausing the transport stops the next read, not the decoding of the chunk already in hand -----------------------------
    loops = [l for l in ast.walk(fd.node) if isinstance(l, ast.While) and any(isinstance(c, ast.Call) and norm.raw(c.func) == "self._handle_frame" for c in ast.walk(l))]
    if not loops:
        chk.analysis_error("C12.backpressure: the frame loop of WebSocketReader._feed_data was not found")
    else:
        stops = [b for b in ast.walk(loops[0]) if isinstance(b, (ast.Break, ast.Return)) and any(
            l.pos and ("queue._size" in l.text or "queue._limit" in l.text) and (">" in l.text) for l in PC.units(PC.pc(b, stop=loops[0], raw=True)))]
        resume = [c for c in prog.calls_in(q.methods["_read_from_buffer"].node) if isinstance(c.func, ast.Attribute) and c.func.attr in ("feed_data", "_feed_data")
                  and any(l.pos and "self._size < self._limit" in l.text for l in PC.units(PC.pc(c, raw=True)))]
        if stops and resume:
            chk.ok("C12.backpressure", stops[0], "the frame loop stops once the queue is over its limit; the rest of the chunk is kept and decoded when the consumer has drained the queue")
        else:
            chk.violation("C12.backpressure", loops[0], "while <frames in the chunk>: self._handle_frame(...)", "if self.queue._size > self.queue._limit: <keep the rest>; break  (+ resume from _read_from_buffer)",
                          "the queue's flow control pauses the transport, which only stops the next read: every frame of the chunk in hand is still inflated and queued - sixty 4 KiB compressed frames in one 64 KiB read put 67 MB of messages into a queue limited to 512 KiB")
    # ---- C12.handshake.body: the frame reader is installed only when the handshake request is read to its end ---------------------------------------
    wr = repo.cls("aiohttp/web_ws.py", "WebSocketResponse")
    pr = wr.methods["prepare"]
    g = cfg_of(pr.node)
    inst = [n for n in g.nodes if K.node_has(n, "self._post_start($R, $P, $W)")]
    rel = [n for n in g.nodes if any(isinstance(a, ast.Await) and isinstance(a.value, ast.Call) and norm.raw(a.value.func) in ("request.release", "request.read", "request.content.read") for a in ast.walk(n.ast) if n.ast is not None)]
    if not inst:
        chk.analysis_error("C12.handshake.body: `self._post_start(...)` not found in WebSocketResponse.prepare")
    else:
        p = g.find_path([g.entry], lambda n: n in inst, lambda n: n in rel, EXPLICIT)
        if p is None:
            chk.ok("C12.handshake.body", inst[0].ast, "prepare(): a declared body of the handshake request is consumed as HTTP before the WebSocket reader is installed")
        else:
            chk.violation("C12.handshake.body", inst[0].ast, K.short(inst[0].ast), "await request.release() before self._post_start(...)",
                          "an upgrade request that declares a body (`Content-Length: 5`) whose bytes arrive after the handler called prepare(): they are routed to the frame reader and parsed as WebSocket frames (close 1002) - the same byte stream in one segment is a working session", path=g.fmt_path(p))


def hunt2_rules(chk, repo, hf):
    """Rules written after the second defect hunt (F139-F142)."""
    rd = repo.cls(MOD, WR)
    # ---- C12.latch: the recorded violation survives the end of the connection ---------------------------------------------------------------
    fe = rd.methods["feed_eof"]
    qe = [c for c in prog.calls_in(fe.node) if norm.raw(c.func) == "self.queue.feed_eof"]
    dq = repo.cls(MOD, "WebSocketDataQueue")
    wipes = any(isinstance(a, ast.Assign) and norm.raw(a.targets[0]) == "self._exception" and isinstance(a.value, ast.Constant) and a.value.value is None for a in ast.walk(dq.methods["feed_eof"].node))
    for c in qe:
        if not wipes or PC.has_lit(PC.pc(c, raw=True), [("self._exc is None", True), ("self._exc is not None", False), ("self._exc", False)], True) is not None:
            chk.ok("C12.latch", c, "the end of the connection does not erase a protocol error the application has not read yet")
        else:
            chk.violation("C12.latch", c, K.short(c), "if self._exc is None: self.queue.feed_eof()",
                          "connection_lost() feeds EOF to the reader, and WebSocketDataQueue.feed_eof() resets the queue's exception: a peer that sends a violation (RSV bit, bad opcode, invalid UTF-8, oversize) and closes its socket while the handler is between two receive() calls gets CLOSED/1006 reported instead of ERROR with 1002/1007/1009 - which one depends on byte timing")
    # ---- C12.rej.inflate: a payload that does not inflate is a protocol violation with a close code, not a bare zlib error ----------------------
    ds = [c for c in prog.calls_in(hf.node) if isinstance(c.func, ast.Attribute) and c.func.attr == "decompress_sync"]
    if not ds:
        chk.analysis_error("C12.rej.inflate: the inflate call was not found in WebSocketReader._handle_frame")
    for c in ds:
        hs = [h for _t, h in K.enclosing_try_handlers(c) if {"ZLibBackend.error", "zlib.error", "Exception"} & set(PC.handler_types(h))]
        if any(rc == "WebSocketError" for h in hs for _r, rc in K.raises_in(h)):
            chk.ok("C12.rej.inflate", c, "an inflate failure is raised as WebSocketError with a close code")
        else:
            chk.violation("C12.rej.inflate", c, K.short(c, 60), "except ZLibBackend.error: raise WebSocketError(WSCloseCode.PROTOCOL_ERROR, ...)",
                          "only TooManyMembersError is mapped: a frame with RSV1 whose payload is not deflate data raises the backend's zlib.error out of the reader - the application gets ERROR without a close code and the Close frame on the wire says 1000 (normal closure)")
    # ---- C12.qsize: every queued message weighs something in the flow-control account ----------------------------------------------------------
    weights = {}
    for name, op in (("feed_data", ast.Add), ("_read_from_buffer", ast.Sub)):
        m = dq.methods[name]
        for a in ast.walk(m.node):
            # the amount by which self._size moves: `self._size += <w>` with <w> written in place or through a local
            if isinstance(a, ast.AugAssign) and norm.raw(a.target) == "self._size" and isinstance(a.op, op):
                val = a.value
                if isinstance(val, ast.Name):  # one step through a local (`size = data.size or 1; self._size += size`)
                    ds = [v for _d, v in norm.fn_defs(m.node).defs.get(val.id, []) if v is not None]
                    val = ds[0] if len(ds) == 1 else val
                weights[name] = ast.Assign(targets=[a.target], value=val, lineno=a.lineno)
                weights[name].fn, weights[name].mod = getattr(a, "fn", None), getattr(a, "mod", None)
    if set(weights) != {"feed_data", "_read_from_buffer"}:
        chk.analysis_error("C12.qsize: per-message weight (`size = ...`) not found in WebSocketDataQueue.feed_data / _read_from_buffer")
    else:
        w = {k: norm.raw(v.value) for k, v in weights.items()}
        if w["feed_data"] != w["_read_from_buffer"]:
            chk.violation("C12.qsize", weights["_read_from_buffer"], K.short(weights["_read_from_buffer"]), w["feed_data"], "what is added per queued message differs from what is subtracted when it is read: the flow-control account drifts")
        elif w["feed_data"] == "data.size":
            chk.violation("C12.qsize", weights["feed_data"], "self._size += data.size", "self._size += data.size or 1",
                          "the queue counts payload bytes only: zero-length TEXT/BINARY/PING/PONG frames never reach the pause threshold, two million of them (4 MB on the wire) are accepted and queued, retaining 177 MB, with the transport never paused")
        else:
            chk.ok("C12.qsize", weights["feed_data"], f"every queued message counts at least one unit towards the pause threshold (`{w['feed_data']}`), symmetrically on read")
    # ---- C12.afterr: after the reader ended the stream with an error later input is discarded, not hoarded -----------------------------------------
    CP = "aiohttp/client_proto.py"
    dr = repo.func(CP, "ResponseHandler.data_received")
    eofif = [i for i in ast.walk(dr.node) if isinstance(i, ast.If) and norm.raw(i.test) == "eof"]
    if not eofif:
        chk.analysis_error("C12.afterr: the `if eof:` branch of ResponseHandler.data_received was not found")
    for i in eofif:
        drops = [a for a in ast.walk(i) if isinstance(a, ast.Assign) and norm.raw(a.targets[0]) == "self._payload_parser" and isinstance(a.value, ast.Constant) and a.value.value is None]
        stops = any(M.contains(b_, "self.transport.close()") or M.contains(b_, "self.transport.abort()") or M.contains(b_, "self.close()") or M.contains(b_, "self.pause_reading()") for b_ in i.body)
        if drops and not stops:
            chk.violation("C12.afterr", drops[0], K.short(drops[0]), "keep the reader installed (it discards input after an error) or stop reading",
                          "when the WebSocket reader reports a violation the client protocol uninstalls it and keeps reading: every later byte takes the `self._tail += data` branch - unbounded, quadratic copying, no back-pressure (21 MB in 4 s from a peer that floods after an unknown opcode); the server side discards such input")
        else:
            chk.ok("C12.afterr", i, "after a reader error the client protocol does not divert later input into an unbounded buffer")


def alias_rule(chk, fn, rule="C12.rp.alias"):
    """Every name that is indexed with an offset local is the buffer parameter or a single-definition
    alias of it established after the buffer's last (re)binding."""
    bufp = C03.buffer_param(fn)
    defs = norm.fn_defs(fn.node)
    offs_all = {"start_pos", "f_start_pos", "f_end_pos"} | C03.offset_names(fn.node, C03.buffer_aliases(fn.node, bufp))
    indexed = {}
    for n in ast.walk(fn.node):
        if isinstance(n, ast.Subscript) and isinstance(n.value, ast.Name):
            if any(isinstance(s, ast.Name) and s.id in offs_all for s in ast.walk(n.slice)):
                indexed.setdefault(n.value.id, n)
        elif isinstance(n, ast.Call) and len(n.args) >= 2 and isinstance(n.args[0], ast.Name) and isinstance(n.args[1], ast.Name) and n.args[1].id in offs_all:
            indexed.setdefault(n.args[0].id, n)
    last_buf_def = max((getattr(d, "lineno", 0) for d in defs.def_nodes(bufp) if not isinstance(d, ast.arg)), default=0)
    for name, site in sorted(indexed.items()):
        if name == bufp:
            chk.ok(rule, site, f"`{name}` is the buffer itself")
            continue
        ds = defs.defs.get(name, [])
        if len(ds) == 1 and isinstance(ds[0][1], ast.Name) and ds[0][1].id == bufp and ds[0][0].lineno > last_buf_def:
            chk.ok(rule, site, f"`{name}` is an alias of `{bufp}` bound after its last rebinding")
        else:
            chk.violation(rule, site, K.short(site), f"{name} = {bufp} (single definition, after the tail was prepended)",
                          f"`{name}` and `{bufp}` are both indexed with the same offsets but are not the same buffer on every path: with a buffered tail the offset addresses different bytes in the two")
