"""C20 App lifecycle: cleanup runs exactly for what started; shutdown drains (DESIGN 5/C20)."""
from __future__ import annotations

import ast

from sa import match as M, norm, pc as PC, prog, rulekit as K
from sa.cfg import ALL, CANCEL, EXPLICIT, cfg_of
from sa.loader import AnalysisError

APP = "aiohttp/web_app.py"
RUN = "aiohttp/web_runner.py"
WEB = "aiohttp/web.py"
SRV = "aiohttp/web_server.py"
PROTO = "aiohttp/web_protocol.py"


def hunt5_rules(chk, repo):
    """Rules written after the fifth defect hunt (F310, F312, F317)."""
    sh = repo.func(PROTO, "RequestHandler.shutdown")
    # ---- C20.idle.shutdown: shutdown() itself closes a connection that only waits for its next request ------------------------------------------------------
    # Server.shutdown(timeout) is the documented low-level API; only the runners call pre_shutdown() first.  Without it an idle keep-alive
    # connection was waited for under the full timeout (for ever with timeout=None).
    g = cfg_of(sh.node)
    aws = [n for n in g.nodes if n.in_finally_copy is None and isinstance(getattr(n, "ast", None), ast.AST) and n.kind in ("stmt", "test", "with-enter") and K.node_suspends(n, repo)]
    closes = [n for n in g.nodes if n.kind == "stmt" and isinstance(getattr(n, "ast", None), ast.AST) and (K.node_has(n, "self.close()") or K.node_has(n, "self._waiter.cancel()"))]
    def not_idle(a, b, k):
        # leaving the idle test on the side that says `not idle` is fine
        return a.kind == "test" and "self._waiter" in norm.raw(a.ast) and k == "F"
    p_ = K.find_path_edges(g, [g.entry], lambda n: n in aws, lambda n: n in closes, not_idle, EXPLICIT) if aws else None
    if aws and closes and p_ is None:
        chk.ok("C20.idle.shutdown", closes[0].ast, "shutdown(): a connection whose start() waits for the next request is closed before anything is awaited")
    else:
        chk.violation("C20.idle.shutdown", sh, K.short(aws[0].ast) if aws else "shutdown()", "if self._waiter is not None and not self._waiter.done(): self.close()   before the waits",
                      "RequestHandler.shutdown() waits for the idle start() task under the full timeout and nothing cancels its waiter except the undocumented Server.pre_shutdown() that only the runners call: `await server.shutdown(3)` with idle keep-alive connections takes 3 s, `server.shutdown()` with timeout=None never returns - idle connections are not closed at once", path=g.fmt_path(p_) if p_ else None)
    # ---- C20.announce: a response that is finished on a connection which closes after it says so -------------------------------------------------------------
    fr = repo.func(PROTO, "RequestHandler.finish_response")
    gf = cfg_of(fr.node)
    prep = [n for n in gf.nodes if n.in_finally_copy is None and isinstance(getattr(n, "ast", None), ast.AST) and n.kind == "stmt" and K.node_has(n, "await prepare_meth($R)")]
    fcl = [n for n in gf.nodes if n.kind == "stmt" and isinstance(getattr(n, "ast", None), ast.AST) and K.node_has(n, "resp.force_close()")]
    def staying(a, b, k):
        # the false branch of a test that is true whenever the connection is marked for closing (by close() or by force_close())
        if a.kind != "test" or k != "F":
            return False
        import itertools
        from sa.dtable import Evaluator
        try:
            e = norm.subst(a.ast, a.ast)
        except Exception:
            e = a.ast
        t = norm.raw(e)
        if "self._close" not in t or "self._force_close" not in t:
            return False
        try:
            return all(bool(Evaluator({"self._close": c_, "self._force_close": f_}).ev(e)) for c_, f_ in itertools.product((False, True), repeat=2) if c_ or f_)
        except Exception:
            return False
    if not prep:
        chk.analysis_error("C20.announce: `await prepare_meth(request)` not found in RequestHandler.finish_response")
    else:
        p2 = K.find_path_edges(gf, [gf.entry], lambda n: n in prep, lambda n: n in fcl, staying, EXPLICIT)
        if p2 is None and fcl:
            chk.ok("C20.announce", fcl[0].ast, "finish_response(): on a connection marked for closing (close() / shutdown) the response is told not to keep the connection alive before its head is prepared")
        else:
            chk.violation("C20.announce", prep[0].ast, K.short(prep[0].ast), "if self._close or self._force_close: resp.force_close()   before the response is prepared",
                          "a response that completes during shutdown carries no `Connection: close` (HTTP/1.0 keep-alive even says `Connection: keep-alive`) although the server closes the socket right after the body: the client's next request on that connection gets ConnectionResetError (F168 repaired this for keepalive_timeout=0 only)", path=gf.fmt_path(p2) if p2 else None)
    # ---- C20.order.exact: the two phases of shutdown() are bounded by the timeout, not by the timeout rounded up ---------------------------------------------
    scopes = [it.context_expr for w in ast.walk(sh.node) if isinstance(w, ast.AsyncWith) for it in w.items if _timeout_scope(it.context_expr)]
    rounded = [e for e in scopes if norm.raw(e.func) == "ceil_timeout" and not (len(e.args) > 1 and "inf" in norm.raw(e.args[1])) and not any(k.arg == "ceil_threshold" and "inf" in norm.raw(k.value) for k in e.keywords)]
    if scopes and not rounded:
        chk.ok("C20.order.exact", scopes[0], "shutdown(): the wait for the handler and the wait after its cancellation end exactly after `timeout` each (no rounding up to a whole second)")
    elif scopes:
        chk.violation("C20.order.exact", rounded[0], K.short(rounded[0]), "ceil_timeout(timeout, float('inf'))",
                      "ceil_timeout() rounds a deadline of more than 5 s up to a whole second: each of the two phases can last up to a second longer, so a handler is cancelled later than twice the timeout - under gunicorn (shutdown_timeout = graceful_timeout / 2 * 0.95) the worker is SIGKILLed before Application.cleanup() runs and no cleanup context exits")
    wk = repo.cls("aiohttp/worker.py", "GunicornWebWorker")
    he = wk.methods.get("handle_exit")
    if he is not None and M.contains(he.node, "self._notify_waiter_done()") and any(isinstance(a, ast.Assign) and norm.raw(a.targets[0]) == "self.alive" and isinstance(a.value, ast.Constant) and a.value.value is False for a in ast.walk(he.node)):
        chk.ok("C20.order.worker", he, "GunicornWebWorker.handle_exit(): SIGTERM wakes the worker's wait at once - the graceful stop starts when graceful_timeout starts")
    else:
        chk.violation("C20.order.worker", wk.node, "handle_exit (inherited)", "def handle_exit(self, sig, frame): self.alive = False; self._notify_waiter_done()",
                      "SIGTERM only sets alive=False; _run() notices it up to a second later (the notify waiter is not woken), a second of the graceful_timeout budget that the two shutdown phases were sized to fill: the arbiter's SIGKILL arrives before Application.cleanup() and the cleanup contexts never exit")


def _timeout_scope(e) -> bool:
    """`ceil_timeout(timeout[, threshold])` / `async_timeout.timeout(timeout)`: a scope bounded by the `timeout` parameter (the rounding threshold
    of ceil_timeout only moves the deadline by less than a second and is not part of the obligation)."""
    return isinstance(e, ast.Call) and norm.raw(e.func) in ("ceil_timeout", "async_timeout.timeout", "asyncio.timeout") and bool(e.args) and norm.raw(e.args[0]) == "timeout"


def run(chk):
    repo = chk.repo
    chk.explanation = (
        "Decided structurally: a cleanup context is recorded for exit only after its __aenter__ returned, in the same iteration with nothing swallowing a "
        "failure in between; exits run over reversed(recorded) with each __aexit__ in its own try that collects the error, raised after the loop; "
        "Application.cleanup falls back to the contexts when the cleanup signal was never frozen (startup failed); run_app's runner.setup() is inside the "
        "try whose finally calls runner.cleanup(); BaseRunner.cleanup stops sites, yields, closes idle connections (pre_shutdown), runs on_shutdown, drains "
        "with the shutdown timeout and only then cleans the application; RequestHandler.shutdown waits at most twice the timeout, then cancels and "
        "force-closes on every non-cancelled path; pre_shutdown's close() never closes the transport of a connection that is not provably idle."
    )
    chk.not_decided = "what happens to in-flight requests in time; exactly-once under repeated cleanup() calls; entry points outside web.py (gunicorn worker, test utilities)."
    chk.explanation += " Also decided: a failing on_shutdown hook skips neither the connection drain nor the application cleanup; after a failed startup the started contexts of sub-applications are exited too; a failing cleanup receiver does not keep other applications' contexts from exiting and no context can be exited twice; a closing connection still feeds the request being handled. After the defect hunt: close() closes an idle connection at once; a handler whose client disconnected keeps its task for shutdown; the transport of a cancelled handler is aborted; the gunicorn worker cleans up after a failed startup."
    chk.explanation += " Second hunt: Application.cleanup() is decided on its paths (contexts exited on every path, sub-applications first, before the cleanup signal, also when the signal raises); a connection registered after pre_shutdown() is closed at once; every runner.setup() call site of the package undoes a half-completed startup; an idle connection still flushing is aborted when the shutdown timeout expires."
    cc = repo.cls(APP, "CleanupContext")
    st = cc.methods["_on_startup"]
    cu = cc.methods["_on_cleanup"]
    # ---- record ------------------------------------------------------------------------------------------------
    g = cfg_of(st.node)
    enters = K.nodes_matching(st, "ctx.__aenter__()")
    recs = K.nodes_matching(st, "self._exits.append(ctx)")
    if not enters or not recs:
        chk.violation("C20.record", st, "await ctx.__aenter__(); self._exits.append(ctx)", "", "cleanup contexts are not entered/recorded in _on_startup")
    else:
        p = g.find_path([g.entry], lambda n: n in recs, lambda n: n in enters, ALL)
        if p is None:
            chk.ok("C20.record", recs[0].ast, "a context is recorded for exit only after its __aenter__() returned")
        else:
            chk.violation("C20.record", recs[0].ast, "self._exits.append(ctx)", "after await ctx.__aenter__()", "a context can be recorded before/without its startup having completed: its exit code runs although startup did not finish", path=g.fmt_path(p))
        # nothing swallows a failed __aenter__: the await is not inside a try with handlers, nor suppress
        a = enters[0].ast
        if K.enclosing_try_handlers(a) or any(isinstance(w, (ast.With, ast.AsyncWith)) and "suppress" in norm.raw(w.items[0].context_expr) for w in prog.enclosing(a, (ast.With, ast.AsyncWith))):
            chk.violation("C20.record", a, K.short(a), "unhandled propagation of a startup failure", "a failing startup step is swallowed: later contexts start and the failed one is recorded")
        else:
            chk.ok("C20.record", a, "a failing __aenter__() propagates (later contexts are not started, the failed one is not recorded)")
        la, lr = K.loop_ancestors(enters[0].ast), K.loop_ancestors(recs[0].ast)
        if la and lr and la[0] is lr[0] and norm.raw(la[0].iter) == "self":
            chk.ok("C20.record", la[0], "enter and record happen in the same iteration, in registration order")
        else:
            chk.violation("C20.record", st, "for cb in self: ... await ctx.__aenter__(); self._exits.append(ctx)", "", "contexts are not started in registration order / recorded per iteration")
    # ---- exits -----------------------------------------------------------------------------------------------------
    loops = [f for f in ast.walk(cu.node) if isinstance(f, (ast.For, ast.While))]
    # the list is named by what it is, not by how it is spelled: a local bound once to `self._exits` is the same list (C20.exits owners: nothing rebinds it)
    def _is_exits(e):
        return norm.text(e, loops[0]) == "self._exits"
    consuming = bool(loops) and isinstance(loops[0], ast.While) and _is_exits(loops[0].test) and any(
        isinstance(a, (ast.Assign, ast.AnnAssign, ast.NamedExpr)) and isinstance(a.value, ast.Call) and isinstance(a.value.func, ast.Attribute) and a.value.func.attr == "pop"
        and not a.value.args and not a.value.keywords and _is_exits(a.value.func.value) for a in ast.walk(loops[0]))
    if loops and isinstance(loops[0], ast.For) and norm.raw(loops[0].iter) == "reversed(self._exits)":
        chk.ok("C20.exits", loops[0], "exits run in reverse order of startup")
    elif consuming:
        chk.ok("C20.exits", loops[0], "exits run in reverse order of startup (last recorded context popped first; a context is forgotten before it is exited)")
    else:
        chk.violation("C20.exits", cu, "for it in reversed(self._exits)", "", "cleanup contexts are not exited in reverse order")
    ex = [a for a in prog.awaits_in(cu.node) if "__aexit__" in norm.raw(a)]
    if ex:
        hs = [h for _t, h in K.enclosing_try_handlers(ex[0])]
        per_iter = hs and any(x is loops[0] for x in prog.enclosing(hs[0], (ast.For, ast.While))) if loops else False
        types = {t for h in hs for t in PC.handler_types(h)}
        if per_iter and {"Exception", "asyncio.CancelledError"} <= types and any(M.contains(h, "errors.append($E)") for h in hs):
            chk.ok("C20.exits", ex[0], "each __aexit__ runs in its own try: one failing cleanup does not prevent the others")
        else:
            chk.violation("C20.exits", ex[0], K.short(ex[0]), "try/except (Exception, CancelledError): errors.append(exc) inside the loop", "a failing cleanup step stops the remaining cleanups")
        rz = [n for n, _c in K.raises_in(cu.node)]
        if rz and all(not K.loop_ancestors(n) for n in rz) and all(PC.has_lit(PC.pc(n), "errors", True) is not None for n in rz):
            chk.ok("C20.exits", rz[0], "collected cleanup errors are raised after all contexts were exited")
        else:
            chk.violation("C20.exits", cu, "if errors: raise ...", "after the loop", "cleanup errors are raised inside the loop or dropped")
    else:
        chk.violation("C20.exits", cu, "await it.__aexit__(None, None, None)", "", "contexts are never exited")
    K.owners(chk, "C20.exits", repo, [APP], "_exits", {"CleanupContext.__init__": "creates", "CleanupContext._on_startup": "records a started context", "CleanupContext._on_cleanup": "forgets a context when exiting it"}, "the list of started contexts has one recorder", classes=("CleanupContext",))
    # ---- fallback ---------------------------------------------------------------------------------------------------------
    ac = repo.func(APP, "Application.cleanup")
    def exits_own(call, depth=0):
        if M.match(M.compile_pat("self._cleanup_ctx._on_cleanup(self)"), call) is not None:
            return True
        t = prog.resolve_call(repo, call)
        return t is not None and depth < 2 and t.cls is ac.cls and any(exits_own(c, depth + 1) for c in prog.calls_in(t.node))
    init = repo.func(APP, "Application.__init__")
    if M.contains(init.node, "self._on_startup.append(self._cleanup_ctx._on_startup)") or "_cleanup_ctx._on_startup" in norm.raw(init.node):
        if "_cleanup_ctx._on_cleanup" in norm.raw(init.node):
            chk.ok("C20.fallback", init, "the cleanup contexts are wired into on_startup / on_cleanup")
        else:
            chk.violation("C20.fallback", init, "self._on_cleanup.append(self._cleanup_ctx._on_cleanup)", "", "contexts are not exited on normal cleanup")
    # ---- entry ----------------------------------------------------------------------------------------------------------------
    ra = repo.func(WEB, "_run_app")
    sites = [c for c, _b in K.exprs(ra, "runner.setup()")]
    if not sites:
        raise AnalysisError("C20.entry: runner.setup() not found in web._run_app")
    for c in sites:
        ok = False
        for t in prog.enclosing(c, (ast.Try,)):
            if prog.in_body_of(c, t, "body") and (any(M.contains(s, "runner.cleanup()") for s in t.finalbody)
                                                    or any(M.contains(h, "runner.cleanup()") and (h.type is None or "BaseException" in PC.handler_types(h)) for h in t.handlers)):
                ok = True  # a handler for Exception only would miss cancellation / GracefulExit / SystemExit during startup
        if ok:
            chk.ok("C20.entry", c, "run_app: runner.setup() is inside the try whose finally awaits runner.cleanup() (a half-completed startup is undone)")
        else:
            chk.violation("C20.entry", c, "await runner.setup()", "try: ... finally: await runner.cleanup()", "run_app: when a later startup step fails, contexts whose startup completed are never exited")
    # ---- order -----------------------------------------------------------------------------------------------------------------
    bc = repo.func(RUN, "BaseRunner.cleanup")
    seq = ["site.stop()", "asyncio.sleep(0)", "self._server.pre_shutdown()", "self.shutdown()", "self._server.shutdown(self._shutdown_timeout)", "self._cleanup_server()"]
    lines = []
    for pat in seq:
        hits = K.exprs(bc, pat)
        lines.append(hits[0][0].lineno if hits else None)
    if all(l is not None for l in lines) and lines == sorted(lines):
        chk.ok("C20.order", bc, "BaseRunner.cleanup(): stop sites < yield < pre_shutdown (close idle) < on_shutdown < drain with timeout < application cleanup")
        cs = K.exprs(bc, "self._cleanup_server()")[0][0]
        if not PC.pc(cs):
            chk.ok("C20.order", cs, "application cleanup runs even when setup() did not complete")
        else:
            chk.violation("C20.order", cs, K.short(cs), "unconditional", "application cleanup is skipped when the server was never created (failed startup)")
    else:
        chk.violation("C20.order", bc, " < ".join(seq), str(lines), "shutdown steps are missing or out of order (connections are closed before/after the wrong phase)")
    # ---- hooks: a failing user shutdown hook must not skip the drain nor the application cleanup -------------------------------------
    gb = cfg_of(bc.node)
    hook = K.nodes_matching(bc, "self.shutdown()")
    if not hook:
        raise AnalysisError("C20.hooks: `await self.shutdown()` not found in BaseRunner.cleanup")
    for via_pat, what, miss in (("self._cleanup_server()", "application cleanup (exit of the cleanup contexts)", "try: ... finally: await self._cleanup_server()"),
                                ("self._server.shutdown(...)", "the connection drain/close", "try: await self.shutdown() finally: await self._server.shutdown(...)")):
        vias = K.nodes_matching(bc, via_pat)
        K.must_pass(chk, "C20.hooks", bc, None, lambda n, vias=vias: n in vias, f"BaseRunner.cleanup(): when an on_shutdown handler raises, {what} still runs",
                    model=ALL, start_edges=[(hook[0], "x-await"), (hook[0], "x-call")], construct="await self.shutdown()", missing=miss)
    # ---- subapps: contexts of sub-applications ----------------------------------------------------------------------------------------
    reg = repo.func(APP, "Application._reg_subapp_signals")
    wired = {c.args[0].value for c in prog.calls_in(reg.node, nested=True) if isinstance(c.func, ast.Name) and c.func.id == "reg_handler" and c.args and isinstance(c.args[0], ast.Constant)}
    if {"on_startup", "on_cleanup"} <= wired:
        chk.ok("C20.subapps", reg, "a sub-application's startup and cleanup (hence its cleanup contexts) are driven by the parent's signals")
    else:
        chk.violation("C20.subapps", reg, "reg_handler('on_startup'); reg_handler('on_cleanup')", f"wired: {sorted(wired)}", "sub-application contexts are not started / exited with the parent")
    # decided on the paths of Application.cleanup(), whatever its shape: (fallback) every normal path exits the started contexts - also when the
    # cleanup signal was never frozen because startup failed; (subapps) what it calls for that reaches the sub-applications; (isolate) the contexts
    # are exited also when the cleanup signal raises (Signal.send stops at the first failing receiver); (reverse) they are exited *before* the
    # signal's receivers run in registration order (parent first), i.e. in reverse startup order with sub-applications first
    def reaches_subapps(fn, depth=0):
        if any(isinstance(n, ast.Attribute) and n.attr == "_subapps" for n in ast.walk(fn.node)):
            return True
        return depth < 2 and any((t := prog.resolve_call(repo, c)) is not None and t.cls is fn.cls and reaches_subapps(t, depth + 1) for c in prog.calls_in(fn.node))
    ga = cfg_of(ac.node)
    def exits_ctx(n):
        return isinstance(n.ast, ast.AST) and any(exits_own(c) for c in K.node_calls(n))
    def exits_all(n):
        return isinstance(n.ast, ast.AST) and any(exits_own(c) and ((t := prog.resolve_call(repo, c)) is not None and reaches_subapps(t)) for c in K.node_calls(n))
    sends = K.nodes_matching(ac, "self.on_cleanup.send(self)")
    p_norm = ga.find_path([ga.entry], ga.is_exit, exits_ctx, EXPLICIT)
    if p_norm is None and sends:
        chk.ok("C20.fallback", ac, "Application.cleanup(): every path exits the started contexts, also when startup failed before the signals were frozen")
    else:
        chk.violation("C20.fallback", ac, "else: await self._cleanup_ctx._on_cleanup(self)", "!(self.on_cleanup.frozen)", "after a failed startup Application.cleanup() exits no context", path=ga.fmt_path(p_norm) if p_norm else "")
    p_sub = ga.find_path([ga.entry], ga.is_exit, exits_all, EXPLICIT)
    if p_sub is None:
        chk.ok("C20.subapps", ac, "Application.cleanup() also exits the started contexts of sub-applications on every path (failed startup included)")
    else:
        chk.violation("C20.subapps", ac, "Application.cleanup()", "for subapp in self._subapps: <exit its started contexts>",
                      "a startup step fails after a sub-application's contexts were entered (a later on_startup handler, or a later context of the sub-application): Application.cleanup() exits only the parent's own contexts, the sub-application's started contexts are never exited", path=ga.fmt_path(p_sub))
    if "on_cleanup" in wired and sends:
        per_receiver = [f for f in ast.walk(ac.node) if isinstance(f, (ast.For, ast.AsyncFor)) and "on_cleanup" in norm.raw(f.iter)]
        # when the send raises: contexts were exited before it, or are exited on the way out
        before = ga.find_path([ga.entry], lambda n: n in sends, exits_all, EXPLICIT) is None
        p = None if before else ga.find_path(None, ga.is_exit, exits_all, ALL, [(sends[0], "x-await"), (sends[0], "x-call")])
        if (before or p is None) and not consuming:
            chk.violation("C20.isolate", sends[0].ast, K.short(sends[0].ast), "CleanupContext._on_cleanup forgets a context before exiting it",
                          "contexts are exited by the signal and again by the fallback that follows it: hand-written context managers have their exit code run twice")
        elif before or p is None or per_receiver:
            chk.ok("C20.isolate", sends[0].ast, "when a cleanup receiver raises, the started contexts of every (sub-)application are still exited, each at most once")
        else:
            chk.violation("C20.isolate", sends[0].ast, K.short(sends[0].ast), "try: await self.on_cleanup.send(self) finally: <exit the remaining started contexts>",
                          "the cleanup contexts of the parent and of every sub-application are exited by different receivers of one Signal.send(), which stops at the first receiver that raises: a failing cleanup step of the parent (its contexts run first) leaves every sub-application's contexts un-exited",
                          path=ga.fmt_path(p))
        if before:
            chk.ok("C20.reverse", sends[0].ast, "the contexts are exited (sub-applications first) before the cleanup signal's receivers run: reverse startup order across applications")
        else:
            chk.violation("C20.reverse", sends[0].ast, K.short(sends[0].ast), "await self._exit_started_contexts() before the cleanup signal",
                          "with sub-applications the contexts are exited by the cleanup signal's receivers in registration order - the parent's own contexts first, then each sub-application's: the teardown of a sub-application's context (started last) finds the parent's resources (started first, e.g. the db pool) already closed; the failed-startup path exits the same contexts in true reverse order, so the two paths disagree")
    sh = repo.func(PROTO, "RequestHandler.shutdown")
    gs = cfg_of(sh.node)
    tos = [w for w in ast.walk(sh.node) if isinstance(w, ast.AsyncWith) and any(_timeout_scope(it.context_expr) for it in w.items)]
    aws = prog.awaits_in(sh.node)
    scoped = [a for a in aws if any(any(x is w for x in prog.enclosing(a, (ast.AsyncWith,))) for w in tos)]
    # the close wait (for connection_lost after a graceful close: buffered response, TLS close_notify): bounded by the same timeout, and not
    # for a connection whose handler is still running - that one had its transport aborted just before
    flush = [a for a in aws if a not in scoped and isinstance(a.value, ast.Call) and norm.raw(a.value.func) in ("asyncio.wait", "asyncio.wait_for")
             and any(k.arg == "timeout" and norm.raw(k.value) == "timeout" for k in a.value.keywords)
             and any("get_write_buffer_size" in l.text or (l.text == "self._request_in_progress" and not l.pos) for c_ in PC.pc(a, raw=True) for l in c_)]
    aborted_first = [c for c in prog.calls_in(sh.node) if norm.raw(c.func) == "self.transport.abort" and PC.has_lit(PC.pc(c, raw=True), "self._request_in_progress", True) is not None
                     and all(c.lineno < a.lineno for a in flush)]
    if len(tos) == 2 and len(flush) <= 1 and set(map(id, aws)) == set(map(id, scoped + flush)) and (not flush or aborted_first):
        chk.ok("C20.order", sh, "RequestHandler.shutdown(): every await is under one of exactly two ceil_timeout(timeout) scopes (at most twice the timeout)" + ("; the flush wait of an idle connection is bounded by the same timeout and excluded for a connection whose handler was cancelled (transport aborted first)" if flush else ""))
    else:
        chk.violation("C20.order", sh, "two `async with ceil_timeout(timeout)` scopes", f"{len(tos)} scopes, {len(aws)} awaits", "a handler that ignores cancellation delays shutdown beyond twice the timeout")
    fcs = K.nodes_matching(sh, "self.force_close()")
    p = gs.find_path([gs.entry], lambda n: n is gs.exit, lambda n: n in fcs, EXPLICIT)
    if fcs and p is None and K.exprs(sh, "self._task_handler.cancel()"):
        chk.ok("C20.order", fcs[0].ast, "every returning path of shutdown() cancels the handler and force-closes the connection")
    else:
        chk.violation("C20.order", sh, "self._task_handler.cancel(); self.force_close()", "on every returning path", "a connection survives shutdown", path=gs.fmt_path(p) if p else "")
    if K.stmts(sh, "self._force_close = True") and K.stmts(sh, "self._force_close = True")[0][0].lineno < (aws[0].lineno if aws else 10**9):
        chk.ok("C20.order", sh, "shutdown() stops keep-alive first (_force_close = True): no new request is taken from the connection")
    else:
        chk.violation("C20.order", sh, "self._force_close = True", "first", "a connection being shut down still starts new requests")
    ss = repo.func(SRV, "Server.shutdown")
    ps = repo.func(SRV, "Server.pre_shutdown")
    if "conn.shutdown(timeout) for conn in self._connections" in norm.raw(ss.node) and K.exprs(ss, "asyncio.gather(...)") and K.exprs(ss, "self._connections.clear()"):
        chk.ok("C20.order", ss, "Server.shutdown() shuts down every connection concurrently and forgets them")
    else:
        chk.violation("C20.order", ss, "gather(conn.shutdown(timeout) for conn in self._connections)", "", "not every connection is shut down")
    loop = [f for f in ast.walk(ps.node) if isinstance(f, ast.For)]
    if loop and norm.raw(loop[0].iter) == "self._connections" and M.contains(loop[0], "conn.close()"):
        chk.ok("C20.order", ps, "pre_shutdown() asks every connection to close after its current request")
    else:
        chk.violation("C20.order", ps, "for conn in self._connections: conn.close()", "", "idle keep-alive connections are not closed at shutdown")
    # ---- lost client: a handler that goes on after its client disconnected is still waited for and cancelled by shutdown() --------------
    cl_ = repo.func(PROTO, "RequestHandler.connection_lost")
    drops_task = [a for a in ast.walk(cl_.node) if isinstance(a, ast.Assign) and norm.raw(a.targets[0]) == "self._task_handler" and isinstance(a.value, ast.Constant) and a.value.value is None]
    for a in drops_task:
        cls_ = PC.pc(a, raw=True)
        guarded = any(any(l.text == "self._request_in_progress" and not l.pos for l in c) and all((l.pos and "handler_cancellation" in l.text) or (l.text == "self._request_in_progress" and not l.pos) for l in c) for c in cls_)
        if guarded:
            chk.ok("C20.order", a, "connection_lost() forgets the handler task only when it was cancelled there or no request is in progress")
        else:
            chk.violation("C20.order", a, K.short(a), "(handler_cancellation | !(self._request_in_progress))",
                          "connection_lost() forgets the task of a handler that keeps running (handler_cancellation off): shutdown() waits one timeout for it and then has nothing to cancel; the handler outlives cleanup() and the exit of the cleanup contexts")
    # ---- abort: the connection of a handler that had to be cancelled is not left waiting for its peer to read ---------------------------
    canc = K.nodes_matching(sh, "self._task_handler.cancel()")
    if canc and K.exprs(sh, "self.transport.abort()"):
        ab = K.exprs(sh, "self.transport.abort()")[0][0]
        if PC.has_lit(PC.pc(ab), "self._request_in_progress", True) is not None:
            chk.ok("C20.order", ab, "shutdown(): the transport of a handler that was cancelled is aborted (force_close() alone waits for the write buffer to drain)")
        else:
            chk.violation("C20.order", ab, K.short(ab), "(self._request_in_progress)", "shutdown() aborts connections whose handler finished in time: their responses are truncated")
    else:
        chk.violation("C20.order", sh, "self.force_close()", "self.transport.abort() when the handler had to be cancelled",
                      "force_close() ends in transport.close(), which waits for the write buffer to drain: the connection of a handler blocked on a client that stopped reading is still open when cleanup() returns")
    # ---- worker: the gunicorn worker is an entry point too -----------------------------------------------------------------------------
    try:
        wr = repo.func("aiohttp/worker.py", "GunicornWebWorker._run")
    except AnalysisError:
        wr = None
    if wr is not None:
        for c, _b in K.exprs(wr, "runner.setup()"):
            okw = False
            for t in prog.enclosing(c, (ast.Try,)):
                if prog.in_body_of(c, t, "body") and (any(M.contains(s_, "runner.cleanup()") for s_ in t.finalbody)
                                                        or any(M.contains(h, "runner.cleanup()") and (h.type is None or "BaseException" in PC.handler_types(h)) for h in t.handlers)):
                    okw = True
            if okw:
                chk.ok("C20.entry", c, "GunicornWebWorker._run: runner.setup() is inside a try that awaits runner.cleanup() when startup fails")
            else:
                chk.violation("C20.entry", c, "await runner.setup()", "try: ... except BaseException: await runner.cleanup(); raise", "gunicorn worker: when a later startup step fails, contexts whose startup completed are never exited")
    hunt2_rules(chk, repo)
    hunt5_rules(chk, repo)
    hunt4_rules(chk, repo)
    # ---- drain: a request that is being handled keeps receiving its input while the server waits for it ---------------------------
    dr = repo.func(PROTO, "RequestHandler.data_received")
    # returns taken *because* a closing flag is up (the flag appears positively in their path condition; the fall-through of such a test, which
    # later returns inherit as `not closing or in progress`, is not a reason)
    drops = [r for r in ast.walk(dr.node) if isinstance(r, ast.Return) and r.value is None and any(l.pos and l.text in ("self._close", "self._force_close") for c_ in PC.pc(r) for l in c_)]
    if not drops:
        chk.ok("C20.drain", dr, "data_received() never discards input because of a closing flag")
    for r in drops:
        if PC.has_lit(PC.pc(r), "self._request_in_progress", False) is not None:
            chk.ok("C20.drain", r, "input is discarded on a closing connection only while no request is being handled")
        else:
            chk.violation("C20.drain", r, "return", "!(self._request_in_progress)",
                          "pre_shutdown()'s close() and shutdown()'s _force_close make data_received() discard all input, including the rest of the body of the request that is being handled: a handler that is still reading its request body cannot complete during the shutdown timeout and is cancelled instead",
                          path_condition=norm.fmt_cnf(PC.pc(r)))
    # ---- idle ---------------------------------------------------------------------------------------------------------------------
    rc = repo.func(PROTO, "RequestHandler.close")
    if K.stmts(rc, "self._close = True") and K.exprs(rc, "self._waiter.cancel()"):
        chk.ok("C20.idle", rc, "close(): marks the connection closing and cancels the idle wait (an idle connection stops at once)")
    else:
        chk.violation("C20.idle", rc, "self._close = True; self._waiter.cancel()", "", "close() does not stop an idle keep-alive connection")
    idle_close = [c for c, _b in K.exprs(rc, "self.transport.close()") if PC.has_lit(PC.pc(c), "self._waiter.done()", False) is not None]
    if idle_close:
        chk.ok("C20.idle", idle_close[0], "close(): an idle connection (waiter still pending) has its transport closed at once")
    else:
        chk.violation("C20.idle", rc, "self._waiter.cancel()", "if not self._waiter.done(): self.transport.close()",
                      "close() only cancels the idle wait: the request loop ends with CancelledError and nothing closes the transport, so an idle keep-alive connection stays open (swallowing whatever is sent on it) until Server.shutdown() runs, after all on_shutdown handlers")
    rh = repo.cls(PROTO, "RequestHandler")
    for name, m in rh.methods.items():
        for c, _b in K.exprs(m, "self.transport.close()"):
            if name in ("force_close", "start"):
                chk.ok("C20.idle", c, f"{name}(): transport closed by the owner of the connection's end of life")
            else:
                units = {str(l) for l in PC.units(PC.pc(c))}
                if "!(self._waiter.done())" in units:
                    chk.ok("C20.idle", c, f"{name}(): transport closed only while provably idle (waiter pending)")
                else:
                    chk.violation("C20.idle", c, K.short(c), "only in force_close()/start(), or under `not self._waiter.done()`",
                                  f"{name}() closes the transport of a connection that may already have a request queued (waiter resolved, handler not yet resumed): the request is handled but its response is lost")


def hunt4_rules(chk, repo):
    """Rules written after the fourth defect hunt (F219-F225)."""
    from sa.dtable import Evaluator
    rh = repo.cls(PROTO, "RequestHandler")
    sh = rh.methods["shutdown"]
    # ---- C20.closeonce: the closer that runs last does not close a transport a second time ------------------------------------------------------
    # asyncio's TLS transport detaches from its connection on a second close(): it can then neither be queried nor aborted.  pre_shutdown()
    # closes idle connections through close(), which leaves self.transport in place; whatever shutdown() calls afterwards must test is_closing().
    late = {c.func.attr for c in prog.calls_in(sh.node) if isinstance(c.func, ast.Attribute) and norm.raw(c.func.value) == "self" and c.func.attr in rh.methods}
    nclose = 0
    # (fifth hunt, F311) ... and so must the end of start(): a handler may have closed the transport itself (WebSocketResponse), shutdown()'s
    # final abort() then finds a detached TLS transport and the socket outlives cleanup() by asyncio's 30 s
    for mname in sorted(late | {"shutdown", "start"}):
        for c in [c for c in prog.calls_in(rh.methods[mname].node) if norm.raw(c.func) in ("self.transport.close", "transport.close")]:
            nclose += 1
            recv = norm.raw(c.func.value)
            units_ = list(PC.units(PC.pc(K.stmt_of(c), raw=True)))
            fdefs = norm.fn_defs(rh.methods[mname].node)
            def one_shot(l):
                # `idle = not self._waiter.done()` ... self._waiter.cancel() ... if idle: close(): the branch is taken at most once per waiter
                if not l.pos or not l.text.isidentifier():
                    return False
                vals = [v for _d, v in fdefs.defs.get(l.text, []) if v is not None]
                return len(vals) == 1 and norm.raw(vals[0]) == "not self._waiter.done()" and M.contains(rh.methods[mname].node, "self._waiter.cancel()")
            if any((not l.pos and l.text == f"{recv}.is_closing()") for l in units_):
                chk.ok("C20.closeonce", c, f"RequestHandler.{mname}(), run by shutdown() after pre_shutdown() may have closed the connection: close() only when the transport is not closing yet")
            elif any(one_shot(l) for l in units_):
                chk.ok("C20.closeonce", c, f"RequestHandler.{mname}(): the transport is closed only while the waiter that the same call cancels was still pending - a second call finds it done")
            else:
                chk.violation("C20.closeonce", c, K.short(c), f"if not {recv}.is_closing(): {recv}.close()",
                              f"RequestHandler.{mname}() closes a transport that close() (pre_shutdown, idle connection) has closed already: the second close() detaches asyncio's TLS transport, the next transport call in shutdown() raises AttributeError out of Server.shutdown()'s gather - the other connections' drains are abandoned and cleanup() fails; a later abort() does nothing")
    chk.expect_count("C20.closeonce", nclose, 1, "transport.close() calls in what RequestHandler.shutdown() runs")
    # ---- C20.flush: the close wait covers every gracefully closed connection, also one whose transport attribute is gone ---------------------------
    waits = [a for a in prog.awaits_in(sh.node) if isinstance(a.value, ast.Call) and norm.raw(a.value.func) in ("asyncio.wait", "asyncio.wait_for") and not any(
        any(_timeout_scope(it.context_expr) for it in w.items) for w in prog.enclosing(a, (ast.AsyncWith,)))]
    if not waits:
        chk.analysis_error("C20.flush: the wait for connection_lost() at the end of RequestHandler.shutdown() was not found")
    else:
        lits = [l for c_ in PC.pc(waits[0], raw=True) for l in c_]
        if any("get_write_buffer_size" in l.text for l in lits):
            chk.violation("C20.flush", waits[0], K.short(waits[0], 60), "if transport is not None and not self._request_in_progress:",
                          "shutdown() waits for connection_lost() (and aborts after the timeout) only when the write buffer is not empty: a TLS connection whose peer does not answer close_notify has an empty buffer, cleanup() returns at once and the socket stays open for the 30 s of asyncio's SSL shutdown")
        else:
            chk.ok("C20.flush", waits[0], "the wait-then-abort step applies to every connection that was closed gracefully (buffered response or unanswered TLS close_notify), whatever the write buffer holds")
        tdefs = [v for _d, v in norm.fn_defs(sh.node).defs.get("transport", []) if v is not None]
        if any("_connections" in norm.raw(v) for v in tdefs):
            chk.ok("C20.flush", sh, "a connection that force_close() (keep-alive timer) closed before shutdown - self.transport already None - is reclaimed through the server's connection table")
        else:
            chk.violation("C20.flush", sh, "transport = self.transport", "if transport is None and self._manager is not None: transport = self._manager._connections.get(self)",
                          "a connection closed by the keep-alive timer while the tail of its response was still buffered has self.transport = None: shutdown() finds nothing to wait for or abort, cleanup() returns with the socket open")
    # ---- C20.order.worker: under gunicorn the runner's two shutdown phases fit into graceful_timeout ------------------------------------------------
    wk = repo.func("aiohttp/worker.py", "GunicornWebWorker._run")
    kws = [k for c in prog.calls_in(wk.node) for k in c.keywords if k.arg == "shutdown_timeout"]
    if not kws:
        chk.analysis_error("C20.order.worker: shutdown_timeout= not found in GunicornWebWorker._run")
    else:
        try:
            v = Evaluator({"self.cfg.graceful_timeout": 100.0}).ev(kws[0].value)
        except AnalysisError as e:
            v = None
            chk.analysis_error(f"C20.order.worker: cannot evaluate `{norm.raw(kws[0].value)}`: {e}")
        if v is not None and 2 * v <= 100.0:
            chk.ok("C20.order.worker", kws[0].value, f"shutdown_timeout = {v:g}% of graceful_timeout: wait + cancel-and-wait end before the arbiter's SIGKILL, Application.cleanup() runs")
        elif v is not None:
            chk.violation("C20.order.worker", kws[0].value, norm.raw(kws[0].value), "graceful_timeout / 2 * 0.95",
                          f"the worker hands {v:g}% of graceful_timeout to a runner that spends its shutdown_timeout twice (wait for handlers, then cancel and wait): with one hanging handler cleanup starts at 1.9 x graceful_timeout, after gunicorn has killed the worker - cleanup contexts and on_cleanup handlers never run")
    # ---- C20.entry (site start): what follows runner.setup() in an entry point is undone like setup() itself --------------------------------------
    ns = 0
    for mod in repo.all_modules():
        if not mod.rel.startswith("aiohttp/") or mod.rel == RUN:
            continue
        for fn in [f for c in mod.classes.values() for f in c.methods.values()] + list(mod.functions.values()):
            setups = [c for c in prog.calls_in(fn.node) if isinstance(c.func, ast.Attribute) and c.func.attr == "setup" and "runner" in norm.raw(c.func.value).lower()]
            if not setups:
                continue
            for c in [c for c in prog.calls_in(fn.node) if isinstance(c.func, ast.Attribute) and c.func.attr == "start" and "site" in norm.raw(c.func.value).lower() and c.lineno > setups[0].lineno]:
                ns += 1
                okw = any(prog.in_body_of(c, t, "body") and (any(M.contains(s_, "$R.cleanup()") for s_ in t.finalbody)
                                                               or any(M.contains(h, "$R.cleanup()") and (h.type is None or "BaseException" in PC.handler_types(h)) for h in t.handlers))
                          for t in prog.enclosing(c, (ast.Try,)))
                if okw:
                    chk.ok("C20.entry", c, f"{fn.qualname}: site.start() is inside the try that cleans the runner up")
                else:
                    chk.violation("C20.entry", c, K.short(c), "inside the try whose handler awaits runner.cleanup()",
                                  f"{fn.qualname}: when binding the site fails (port in use) after runner.setup() succeeded, every cleanup context that was entered stays un-exited")
    chk.expect_count("C20.entry.site", ns, 3, "site.start() calls after runner.setup() in the package's entry points")
    # ---- C20.accept.reuse: a server object that serves again accepts again ---------------------------------------------------------------------------
    srv = repo.cls(SRV, "Server")
    latch = {norm.raw(a.targets[0]).split(".")[-1] for a in ast.walk(srv.methods["pre_shutdown"].node) if isinstance(a, ast.Assign) and isinstance(a.value, ast.Constant) and a.value.value is True}
    for cname, c in repo.module(RUN).classes.items():
        mk = c.methods.get("_make_server")
        if mk is None:
            continue
        rets = [r for r in ast.walk(mk.node) if isinstance(r, ast.Return) and r.value is not None]
        reuses = [r for r in rets if isinstance(r.value, ast.Attribute) and norm.raw(r.value.value) == "self"]
        if not reuses:
            continue  # builds a new Server for every setup()
        resets = [a for a in ast.walk(mk.node) if isinstance(a, ast.Assign) and isinstance(a.targets[0], ast.Attribute) and a.targets[0].attr in latch and isinstance(a.value, ast.Constant) and a.value.value is False]
        if resets or not latch:
            chk.ok("C20.accept.reuse", mk, f"{cname}._make_server() hands out the same Server again and lowers its shutdown latch ({', '.join(sorted(latch))})")
        else:
            chk.violation("C20.accept.reuse", mk, K.short(reuses[0]), f"self.<server>.{sorted(latch)[0]} = False",
                          f"{cname} serves with the Server object it was given: after one setup()/cleanup() cycle the latch pre_shutdown() raised ({', '.join(sorted(latch))}) stays up, and the runner set up again closes every new connection unserved")
    # ---- C20.drain.waiter: the handler's exit and shutdown() may both finish the same future ----------------------------------------------------------
    nf = 0
    for mname, m in rh.methods.items():
        for c in [c for c in prog.calls_in(m.node) if isinstance(c.func, ast.Attribute) and c.func.attr in ("set_result", "set_exception") and norm.raw(c.func.value).startswith("self._") and "waiter" in norm.raw(c.func.value)]:
            nf += 1
            fut = norm.raw(c.func.value)
            if any(not l.pos and l.text == f"{fut}.done()" for l in PC.units(PC.pc(K.stmt_of(c), raw=True))):
                chk.ok("C20.drain.waiter", c, f"RequestHandler.{mname}(): `{fut}` is resolved only when it is not done (shutdown() may have cancelled it)")
            else:
                chk.violation("C20.drain.waiter", c, K.short(c), f"if {fut} is not None and not {fut}.done():",
                              f"RequestHandler.{mname}() resolves `{fut}` unconditionally: when shutdown()'s timeout cancelled the future in the same loop iteration in which the handler ends, set_result() raises InvalidStateError out of the handler task's finally")
    chk.expect_count("C20.drain.waiter", nf, 2, "waiter futures resolved by attribute in RequestHandler")


def hunt2_rules(chk, repo):
    """Rules written after the second defect hunt (F153-F156)."""
    # ---- C20.entry: every entry point of the package that sets a runner up undoes a half-completed startup (not a hand-picked list) ------------
    n = 0
    for mod in repo.all_modules():
        if not mod.rel.startswith("aiohttp/") or mod.rel in (WEB, "aiohttp/worker.py", RUN):
            continue  # run_app and the gunicorn worker have their own instances above; web_runner defines setup()
        for fn in [f for c in mod.classes.values() for f in c.methods.values()] + list(mod.functions.values()):
            for c in prog.calls_in(fn.node):
                if not (isinstance(c.func, ast.Attribute) and c.func.attr == "setup" and "runner" in norm.raw(c.func.value).lower()):
                    continue
                n += 1
                okw = False
                for t in prog.enclosing(c, (ast.Try,)):
                    if prog.in_body_of(c, t, "body") and (any(M.contains(s_, "$R.cleanup()") for s_ in t.finalbody)
                                                            or any(M.contains(h, "$R.cleanup()") and (h.type is None or "BaseException" in PC.handler_types(h)) for h in t.handlers)):
                        okw = True
                if okw:
                    chk.ok("C20.entry", c, f"{fn.qualname}: runner.setup() is inside a try that awaits runner.cleanup() when startup fails")
                else:
                    chk.violation("C20.entry", c, K.short(c), "try: ... except BaseException: await runner.cleanup(); raise",
                                  f"{fn.qualname} (test_utils entry point: TestServer / TestClient / AioHTTPTestCase): when a later startup step fails, the contexts whose startup completed are never exited and the exception leaves __aenter__ with them open")
    chk.expect_count("C20.entry.other", n, 1, "runner.setup() call sites outside web.py / worker.py")
    # ---- C20.accept: a connection that becomes established after the shutdown began is not served ---------------------------------------------
    srv = repo.cls(SRV, "Server")
    ps, cm = srv.methods["pre_shutdown"], srv.methods["connection_made"]
    flags = {norm.raw(a.targets[0]) for a in ast.walk(ps.node) if isinstance(a, ast.Assign) and isinstance(a.value, ast.Constant) and a.value.value is True}
    seen = [i for i in ast.walk(cm.node) if isinstance(i, ast.If) and any(l.pos and any(l.text == f or l.text in (f + " is True", f + " == True") for f in flags) for c_ in norm.cnf_raw(i.test, True) if len(c_) == 1 for l in c_) and any(isinstance(c, ast.Call) and isinstance(c.func, ast.Attribute) and c.func.attr in ("close", "abort") for b_ in i.body for c in ast.walk(b_))]
    if seen:
        chk.ok("C20.accept", seen[0], "Server.connection_made(): a connection registered after pre_shutdown() is closed at once")
    else:
        chk.violation("C20.accept", cm, "self._connections[handler] = transport", "if <shutting down>: handler.close(); transport.close()",
                      "a connection accepted before the sites stopped but established afterwards (a TLS handshake that completes during shutdown) is invisible to the shutdown sequence: it is not in the gather(), _connections.clear() forgets it, a request on it is answered during shutdown and the connection is still open - and served - after cleanup() returned and the cleanup contexts exited")
    # ---- C20.accept.queue (round 6, seed C20-6): a connection that was told to close takes no further request from its queue ------------------------
    # close() (Server.pre_shutdown) lets the request in progress finish; data_received() still feeds the parser for that request's body, so a
    # pipelined request sent after the shutdown began is parsed and queued.  It must stay in the queue: every way round the loop of start()
    # back to `self._messages.popleft()` passes a test that establishes `not self._close`.
    st = repo.func(PROTO, "RequestHandler.start")
    gs = cfg_of(st.node)
    pops = [n for n in gs.nodes if n.in_finally_copy is None and isinstance(getattr(n, "ast", None), ast.AST) and n.kind == "stmt" and K.node_has(n, "self._messages.popleft()")]
    if not pops:
        chk.analysis_error("C20.accept.queue: `self._messages.popleft()` not found in RequestHandler.start")
    else:
        def establishes(a, b, k):
            if a.kind != "test" or k not in ("T", "F"):
                return False
            try:
                cl = norm.cnf_raw(a.ast, k == "T")
            except Exception:
                return False
            return any(len(c_) == 1 and not l.pos and l.text == "self._close" for c_ in cl for l in c_)
        back = K.find_path_edges(gs, pops, lambda n: n in pops, lambda n: False, establishes, EXPLICIT)
        if back is None:
            chk.ok("C20.accept.queue", pops[0].ast, "start(): the next queued request is taken only after a test that close() has not been requested")
        else:
            chk.violation("C20.accept.queue", pops[0].ast, K.short(pops[0].ast), "if self._keepalive and not self._close and not self._force_close: ... else: break",
                          "start() goes round its loop and takes the next message although close() was requested: during shutdown data_received() still feeds the parser for the request in progress, so a request the client pipelines after the shutdown began is queued - and now handled and answered, although no new requests are accepted on shutdown",
                          path=gs.fmt_path(back))
    # ---- C20.flush: an idle connection still flushing a finished response is closed when the shutdown timeout expires ---------------------------
    sh = repo.func(PROTO, "RequestHandler.shutdown")
    fc = [c for c in prog.calls_in(sh.node) if norm.raw(c.func) == "self.force_close"]
    ab = [c for c in prog.calls_in(sh.node) if isinstance(c.func, ast.Attribute) and c.func.attr == "abort" and fc and c.lineno > fc[-1].lineno]
    bounded = [a for a in prog.awaits_in(sh.node) if fc and a.lineno > fc[-1].lineno]
    if ab and bounded:
        chk.ok("C20.flush", ab[0], "shutdown(): after force_close() a connection whose write buffer is not empty gets the timeout to flush and is then aborted")
    else:
        chk.violation("C20.flush", fc[-1] if fc else sh, "self.force_close()", "wait for connection_lost within the timeout, then transport.abort()",
                      "force_close() ends in transport.close(), which flushes first: an idle keep-alive connection whose complete response is still partly buffered for a client that does not read survives cleanup() - the socket stays open until the peer reads, with no handler and no timeout")
