"""C18 Timeouts and cancellation are bounded and leave no residue (DESIGN 5/C18): scope, cleanup and shield discipline."""
from __future__ import annotations

import ast

from sa import match as M, norm, pc as PC, prog, rulekit as K
from sa.cfg import CANCEL, EXPLICIT, cfg_of
from sa.loader import AnalysisError
from rules import C06, C07

CONN = "aiohttp/connector.py"
CLIENT = "aiohttp/client.py"
REQ = "aiohttp/client_reqrep.py"
PROTO = "aiohttp/client_proto.py"
STREAMS = "aiohttp/streams.py"
HELPERS = "aiohttp/helpers.py"


def timeout_scopes(node, attr: str):
    """Enclosing `async with ceil_timeout(timeout.<attr>, ...)` scopes of node."""
    out = []
    for w in prog.enclosing(node, (ast.AsyncWith,)):
        for it in w.items:
            c = it.context_expr
            if isinstance(c, ast.Call) and norm.raw(c.func) == "ceil_timeout" and c.args and norm.raw(c.args[0]) == f"timeout.{attr}":
                out.append(w)
    return out


def hunt4_rules(chk, repo):
    """Rules written after the fourth defect hunt (F239-F242)."""
    rh = repo.cls(PROTO, "ResponseHandler")
    # ---- C18.readtimer: the sock_read timer is never armed while this side is not reading ---------------------------------------------------
    st = rh.methods["start_timeout"]
    arms = [c for c in prog.calls_in(st.node) if norm.raw(c.func) == "self._reschedule_timeout"]
    for c in arms:
        if PC.has_lit(PC.pc(K.stmt_of(c), raw=True), "self._reading_paused", False) is not None:
            chk.ok("C18.readtimer", c, "start_timeout() arms the timer only when reading is not paused (resume_reading() arms it afterwards)")
        else:
            chk.violation("C18.readtimer", c, K.short(c), "if self._reading_paused: return",
                          "the writer task calls start_timeout() when the upload ends; if the application has paused reading meanwhile (flow control on a large streamed response) the timer runs against a socket nobody reads and fires: SocketTimeoutError although the peer never stalled")
    if not arms:
        chk.analysis_error("C18.readtimer: ResponseHandler.start_timeout no longer arms the timer through _reschedule_timeout()")
    # ---- C18.close.tls: giving an exchange up does not leave a TLS socket waiting for the peer's close_notify -------------------------------------
    tc = repo.cls(CONN, "TCPConnector")
    rel = tc.methods.get("_release")
    ab = [c for c in prog.calls_in(rel.node) if norm.raw(c.func) == "protocol.abort"] if rel is not None else []
    good = [c for c in ab if PC.has_lit(PC.pc(K.stmt_of(c), raw=True), "should_close", True) is not None and PC.has_lit(PC.pc(K.stmt_of(c), raw=True), "key.is_ssl", True) is not None
            and any("_ssl_shutdown_timeout" in l.text for l in PC.units(PC.pc(K.stmt_of(c), raw=True)))]
    if good and any(isinstance(c, ast.Call) and "_release" in norm.raw(c.func) and "super()" in norm.raw(c.func) for c in ast.walk(rel.node)):
        chk.ok("C18.close.tls", good[0], "TCPConnector._release(): a TLS connection that must be closed is aborted when ssl_shutdown_timeout is 0 (no wait for close_notify), then released as usual")
    else:
        chk.violation("C18.close.tls", rel if rel is not None else tc, "BaseConnector._release(key, protocol, should_close=True)", "if should_close and key.is_ssl and self._ssl_shutdown_timeout == 0: protocol.abort()",
                      "the connection of a timed-out or cancelled https request to a stalled peer is close()d gracefully: asyncio waits up to 30 s for the peer's close_notify, the socket is in neither _conns nor _acquired, survives session.close() and `limit` no longer bounds the open sockets; ssl_shutdown_timeout=0 (`immediate abort`) is honoured only by connector.close()")
    tls_release_rule(chk, repo, "C18.close.tls")
    hunt5_rules(chk, repo)
    round7_rules(chk, repo)
    # ---- C18.scope.total (buffered data): a read that takes buffered data without waiting still looks at the deadline ---------------------------------
    sr = repo.cls(STREAMS, "StreamReader")
    nt = 0
    for mname, m in sr.methods.items():
        if not isinstance(m.node, ast.AsyncFunctionDef) or mname.startswith("_"):
            continue
        g = cfg_of(m.node)
        takes = [n for n in g.nodes if K.node_has(n, "self._read_nowait_chunk($N)")]
        if not takes:
            continue
        nt += 1
        checks = [n for n in g.nodes if K.node_has(n, "self._timer.assert_timeout()")]
        p = g.find_path([g.entry], lambda n: n in takes, lambda n: n in checks, EXPLICIT)
        if p is None:
            chk.ok("C18.scope.total", takes[0].ast, f"StreamReader.{mname}(): assert_timeout() before buffered data is taken with the consumption primitive")
        else:
            chk.violation("C18.scope.total", takes[0].ast, K.short(takes[0].ast, 60), "self._timer.assert_timeout() before self._read_nowait_chunk(...)",
                          f"StreamReader.{mname}() takes buffered data through _read_nowait_chunk() without looking at the request timer (the other read methods go through _read_nowait(), which asserts it): with data flowing steadily `async for line in resp.content` never waits, so ClientTimeout(total=...) is never enforced", path=g.fmt_path(p))
    chk.expect_count("C18.scope.total", nt, 2, "public StreamReader coroutines that call the consumption primitive directly")


def round7_rules(chk, repo):
    """Rule written after seeding round 7 (seed C18-7): a timeout is never answered with a second attempt.
    _request() sends an idempotent request once more when a pooled connection turns out to be dead.  The classes that branch catches must not
    have a timeout error among their subclasses (unless an earlier clause of the same try has taken it out): a sock_read timeout that is
    swallowed puts the request on the wire twice and fails after twice the bound."""
    CE = "aiohttp/client_exceptions.py"
    mod = repo.module(CE)
    bases = {c.name: c.base_names() for c in mod.classes.values()}
    def ancestors(n, seen=None):
        seen = seen or set()
        for b in bases.get(n, []):
            b = b.split(".")[-1]
            if b not in seen:
                seen.add(b)
                ancestors(b, seen)
        return seen
    timeouts = {n for n in bases if "TimeoutError" in ancestors(n) or n.endswith("TimeoutError")}
    rq = repo.func(CLIENT, "ClientSession._request")
    n = 0
    for t in [t for t in ast.walk(rq.node) if isinstance(t, ast.Try)]:
        taken = set()
        for h in t.handlers:
            ty = [x.split(".")[-1] for x in PC.handler_types(h)]
            retry = any(isinstance(a, ast.Assign) and norm.raw(a.targets[0]) == "retry_persistent_connection" for a in ast.walk(h)) and any(isinstance(x, ast.Continue) for x in ast.walk(h))
            if retry:
                n += 1
                swallowed = sorted(tm for tm in timeouts if (set(ty) & ({tm} | ancestors(tm))) and not (taken & ({tm} | ancestors(tm))))
                if swallowed:
                    chk.violation("C18.retry.timeouts", h, f"except ({', '.join(ty)}):", "except (ClientOSError, ServerDisconnectedError):",
                                  f"the retry of an idempotent request catches {', '.join(swallowed)} (through a base class): a request with ClientTimeout(sock_read=X) whose peer stalls before the response head is sent again on a fresh connection and fails after 2 x X instead of X - a PUT body goes out twice - and nothing tells the caller that a timeout was absorbed")
                else:
                    chk.ok("C18.retry.timeouts", h, f"the retry branch catches {', '.join(ty)}: no timeout error among their subclasses reaches it")
            # clauses that end in a bare `raise` take their classes out for the later ones
            if h.body and isinstance(h.body[-1], ast.Raise) and not retry:
                taken |= set(ty)
    chk.expect_count("C18.retry.timeouts", n, 1, "retry-on-dead-connection handlers in ClientSession._request")


def hunt5_rules(chk, repo):
    """Rule written after the fifth defect hunt (F318)."""
    # ---- C18.readtimer (interim): after an interim response the timer is re-armed whoever was waiting for it ----------------------------------------------------
    # data_received() drops the timer with every complete message, an interim `100 Continue` included.  start() re-arms it when the request
    # has been sent and the final response is outstanding - also when the 100 was the one the writer had stopped waiting for.
    st = repo.func(REQ, "ClientResponse.start")
    arms = [c for c in prog.calls_in(st.node) if norm.raw(c.func).endswith(".start_timeout")]
    if not arms:
        chk.analysis_error("C18.readtimer: the re-arm of the read timer after an interim response was not found in ClientResponse.start")
    for c in arms:
        lits = [l for cl_ in PC.pc(K.stmt_of(c), raw=True) for l in cl_]
        if any("self._continue" in l.text for l in lits):
            chk.violation("C18.readtimer", c, K.short(c), "an `if` of its own, not the `elif` of `if self._continue is not None`",
                          "the re-arm after an interim response is skipped when the request used expect100: a server takes 1.5 s to send `100 Continue` - longer than the client's 1 s hold-back -, the writer has uploaded the body and armed the timer by then, the interim response drops it, and start() assumes the writer will re-arm: the final response is waited for without sock_read (still pending after 9 s with sock_read=2)")
        else:
            chk.ok("C18.readtimer", c, "ClientResponse.start(): the timer is re-armed after an interim response whenever the request is sent and nothing else is outstanding - independently of expect100")


def tls_release_rule(chk, repo, rule):
    """(fifth hunt, F291; shared with C07) The abort decision of TCPConnector._release() is taken on the verdict the base class will act on:
    release() of an unfinished exchange (`async with session.get(...)` left by a timeout, a cancellation or an early exit) passes
    should_close=False and leaves the verdict to protocol.should_close - the base class then closes gracefully."""
    tc = repo.cls(CONN, "TCPConnector")
    rel = tc.methods.get("_release")
    if rel is None:
        chk.analysis_error(f"{rule}: TCPConnector._release not found")
        return
    ab = [c for c in prog.calls_in(rel.node) if norm.raw(c.func) == "protocol.abort"]
    if not ab:
        return  # reported by the clause above
    st = K.stmt_of(ab[0])
    test_txt = " ".join(l.text for cl_ in PC.pc(st, raw=True) for l in cl_)
    folded = [a for a in ast.walk(rel.node) if isinstance(a, ast.Assign) and norm.raw(a.targets[0]) == "should_close" and "protocol.should_close" in norm.raw(a.value) and "should_close" in norm.raw(a.value).replace("protocol.should_close", "") and a.lineno < st.lineno]
    if "protocol.should_close" in test_txt or folded:
        chk.ok(rule, (folded or [st])[0], "TCPConnector._release(): the abort decision takes the protocol's own verdict (an unfinished exchange released with should_close=False) into account")
    else:
        chk.violation(rule, st, K.short(st), "should_close = should_close or bool(protocol.should_close)  before the abort decision",
                      "an abandoned https download that is given back with release() (`async with session.get(...)` left with the body unfinished: sock_read timeout, cancel, early exit) passes should_close=False; the abort decision only looks at the argument, and BaseConnector._release() then closes gracefully because protocol.should_close is true: the socket to a stalled peer stays ESTABLISHED for 30 s, above `limit`, in neither _conns nor _acquired, and survives session.close()")


def run(chk):
    repo = chk.repo
    chk.explanation = (
        "Decided structurally: every network-establishing await (happy-eyeballs connect, loop.create_connection wrapper, start_tls, unix/pipe connect) is "
        "lexically inside ceil_timeout(timeout.sock_connect); waiting for a pool slot and creating the connection are inside ceil_timeout(timeout.connect); "
        "the whole retry/redirect loop, the header read loop and every stream wait are inside the total / read timer contexts; after a connection was "
        "acquired every exit incl. cancellation closes it (shared with C06) and every way a response ends cancels its writer task; the shared DNS lookup "
        "is only awaited through asyncio.shield of its own task, secondary waiters use their own future removed in a finally, the throttle entry is "
        "popped in a finally; the sock_read timer is dropped on pause and re-armed on resume iff reading had been paused, re-armed on data only, dropped "
        "on close/abort/loss/error; the low-resolution timer converts a cancellation into TimeoutError only when it fired itself; a cancelled request "
        "frees its pool slot and hands a wake-up on (shared with C07)."
    )
    chk.not_decided = "the numeric bound `timeout + rounding`; absence of residual tasks at quiescence in every schedule."
    chk.explanation += " Also decided: one ceil_timeout(timeout.connect) scope instance covers both the pool wait and the connection attempt; a leaving requester never cancels the shared DNS lookup. After the defect hunt: the read timer is armed while waiting for 100 Continue and re-armed after interim responses; a cancelled upload aborts the transport; the shared drain waiter is shielded; the proxy CONNECT exchange is under sock_connect."
    chk.explanation += " Round 4 / second hunt: the re-arm of the read timer requires an incomplete response; every await of a waiter future in StreamReader is under the timer; the wait for 100 Continue has its own bound; ResponseHandler.close() aborts when unsent bytes remain; _request() closes a started response it does not return; the waiter search covers all queues."
    # ---- scope.sock ---------------------------------------------------------------------------------------------
    n = 0
    for q, pats in (("TCPConnector._wrap_create_connection", ("aiohappyeyeballs.start_connection(...)", "create_connection(self._loop, ...)")),
                    ("TCPConnector._create_proxy_connection", ("proxy_resp.start(conn)",)),  # the CONNECT exchange is part of establishing the connection
                    ("TCPConnector._start_tls_connection", ("start_tls(...)",)),
                    ("UnixConnector._create_connection", ("self._loop.create_unix_connection(...)",)),
                    ("NamedPipeConnector._create_connection", ("self._loop.create_pipe_connection(...)",))):
        f = repo.func(CONN, q)
        for pat in pats:
            calls = [c for c, _b in K.exprs(f, pat)]
            if not calls:
                chk.analysis_error(f"C18.scope.sock: `{pat}` not found in {q}")
            for c in calls:
                n += 1
                if timeout_scopes(c, "sock_connect"):
                    chk.ok("C18.scope.sock", c, f"{q}: `{K.short(c, 45)}` is inside ceil_timeout(timeout.sock_connect)")
                else:
                    chk.violation("C18.scope.sock", c, K.short(c, 60), "async with ceil_timeout(timeout.sock_connect, ...)", f"{q}: a stalled peer during connection establishment is not bounded by sock_connect")
    chk.expect_count("C18.scope.sock", n, 7, "network-establishing awaits")
    # ---- hunt rules (F76-F78) --------------------------------------------------------------------------------------------------------------
    wb = repo.func(REQ, "ClientRequest._write_bytes")
    cont = [a for a in prog.awaits_in(wb.node) if "self._continue" in norm.raw(a.value)]
    if not cont:
        chk.analysis_error("C18.readtimer: `await self._continue` not found in ClientRequest._write_bytes")
    for a in cont:
        blk = PC._block_of(K.stmt_of(a)) or []
        before = blk[: blk.index(K.stmt_of(a))] if K.stmt_of(a) in blk else []
        # armed by a preceding statement of the same block (possibly under `if <conn>.protocol is not None`: no protocol = connection already lost)
        # (restated after the fifth hunt) the wait is the client's own hold-back: it is bounded by its own timeout, and sock_read does not run
        # during it - the peer is silent because it waits for the body that is held back here (a sock_read below the hold-back failed every
        # expect100 request against a server that ignores Expect)
        wcall = a.value if isinstance(a.value, ast.Call) else None
        own = wcall is not None and norm.raw(wcall.func) in ("asyncio.wait", "asyncio.wait_for") and any(k.arg == "timeout" and not (isinstance(k.value, ast.Constant) and k.value.value is None) for k in wcall.keywords)
        armed = [x for x in before if M.contains(x, "$P.start_timeout()")]
        if own and not armed:
            chk.ok("C18.readtimer", a, "the wait for `100 Continue` is bounded by its own timeout; the sock_read timer starts when the request has been sent")
        elif own and armed:
            chk.violation("C18.readtimer", armed[0], K.short(armed[0]), "no start_timeout() in front of the bounded wait for `100 Continue`",
                          "sock_read runs during the client's own hold-back for `100 Continue`: the peer is silent only because it waits for the body that is held back, so with sock_read below the hold-back (1 s) every expect100 request to a healthy server that ignores Expect fails with SocketTimeoutError")
        elif armed:
            chk.ok("C18.readtimer", a, "the sock_read timer is armed before the request waits for `100 Continue`")
        else:
            chk.violation("C18.readtimer", a, "await self._continue", "protocol.start_timeout() before the wait",
                          "the read timer is started only after the body was written, i.e. after the wait for `100 Continue`: with expect100=True a server that never answers is waited for without any bound by sock_read")
        # ... and it is that wait's timer only: while the body is uploaded the peer is reading, not writing, so a sock_read timer still running
        # from the wait would end a slow but healthy upload (it is started again when the request is fully sent)
        gw = cfg_of(wb.node)
        arms = K.nodes_matching(wb, "$P.start_timeout()")
        drops = K.nodes_matching(wb, "$P._drop_timeout()")
        hts = [n_ for n_ in gw.nodes if n_.kind == "test" and "_read_timeout_handle" in norm.raw(n_.ast)]
        ups = [n_ for n_ in gw.nodes if K.node_has(n_, "$B.write_with_length(writer, $L)")]
        if arms and ups:
            # what guards the arming (`if <protocol> is not None`) still holds afterwards: the False edge of the same test is no path
            held = {(l.text, l.pos) for arm_ in arms for l in PC.units(PC.pc(arm_.ast, raw=True))}

            def _established(n_):
                cn = norm.cnf_raw(n_.ast, True)
                return bool(cn) and all(len(c_) == 1 and all((l.text, l.pos) in held for l in c_) for c_ in cn)

            p1 = K.find_path_edges(gw, arms, lambda n_: n_ in ups, lambda n_: n_ in drops or n_ in hts,
                                   lambda n_, t_, k_: k_ == "F" and n_.kind == "test" and _established(n_))
            p2 = gw.find_path(None, lambda n_: n_ in ups, lambda n_: n_ in drops, EXPLICIT, start_edges=[(t_, "T") for t_ in hts]) if hts else None
            if p1 is None and p2 is None:
                chk.ok("C18.readtimer", drops[0].ast if drops else a, "the timer armed for the `100 Continue` wait is dropped before the body is uploaded (unless input re-armed it meanwhile)")
            else:
                chk.violation("C18.readtimer", ups[0].ast, K.short(ups[0].ast, 60), "if protocol._read_timeout_handle is <the handle armed for the wait>: protocol._drop_timeout()",
                              "the sock_read timer armed for the `100 Continue` wait keeps running while the body is uploaded: with expect100=True an upload that takes longer than sock_read fails with SocketTimeoutError although the server is reading all the time",
                              path=gw.fmt_path(p1 or p2))
        # RFC 9110 10.1.1: a client SHOULD NOT wait for 100 (Continue) for an indefinite period - many servers (HTTP/1.0, or without expectation
        # handling: aiohttp's own web.Server) never send it, and with sock_read unset only the total timeout would end the wait
        v = a.value
        bounded = isinstance(v, ast.Call) and norm.raw(v.func) in ("asyncio.wait", "asyncio.wait_for") and (any(k.arg == "timeout" for k in v.keywords) or len(v.args) >= 2)
        if bounded:
            chk.ok("C18.scope.continue", a, "the wait for `100 Continue` has its own bound; the body is sent when it expires")
        else:
            chk.violation("C18.scope.continue", a, "await self._continue", "asyncio.wait((self._continue,), timeout=<bound>)",
                          "the request body is held back for `100 Continue` without a bound of its own: against an HTTP/1.0 peer or a server without expectation handling (aiohttp's web.Server) the client waits for the 100 while the handler waits for the body - a deadlock that only ClientTimeout.total ends")
    rs = repo.func(REQ, "ClientResponse.start")
    rearm = [c for c, _b in K.exprs(rs, "protocol.start_timeout()")]
    if rearm and PC.has_lit(PC.pc(rearm[0]), "self._writer is None", True) is not None:
        chk.ok("C18.readtimer", rearm[0], "after an interim (1xx) response the read timer is re-armed while the final response is awaited (only once the request is fully sent)")
    else:
        chk.violation("C18.readtimer", rs, "message.code < 100 or message.code > 199 or message.code == 101", "protocol.start_timeout() after skipping an interim response",
                      "an interim response (103 Early Hints, 102, an unsolicited 100) disarms the read timer like a body-less final response; a server that stalls afterwards is never timed out by sock_read")
    canc = [h for t in ast.walk(wb.node) if isinstance(t, ast.Try) for h in t.handlers if "asyncio.CancelledError" in PC.handler_types(h) and any("write_with_length" in norm.raw(x) for x in t.body)]
    for h in canc:
        if M.contains(h, "transport.abort()") or M.contains(h, "$T.abort()"):
            chk.ok("C18.close", h, "a cancelled body upload aborts the transport (a graceful close would wait for the peer to read the rest)")
        else:
            chk.violation("C18.close", h, "except asyncio.CancelledError: conn.close()", "transport.abort()",
                          "after a timeout / cancellation during the body upload the connection is closed gracefully: transport.close() waits for the write buffer to drain, which never happens with a peer that stopped reading - the socket stays open with megabytes buffered, untracked, also after session.close()")
    dh = repo.func("aiohttp/base_protocol.py", "BaseProtocol._drain_helper")
    for a in prog.awaits_in(dh.node):
        if M.match(M.compile_pat("asyncio.shield($W)"), a.value) is not None:
            chk.ok("C18.close", a, "the drain waiter shared by all senders is awaited through asyncio.shield: cancelling one sender does not cancel the others")
        elif isinstance(a.value, ast.Name):
            chk.violation("C18.close", a, K.short(a), "await asyncio.shield(waiter)", "every sender parked in drain awaits the same future: cancelling one of them cancels the future and all the others receive CancelledError although nobody cancelled them")
    # ---- scope.connect ---------------------------------------------------------------------------------------------
    bc = repo.func(CONN, "BaseConnector.connect")
    for pat in ("self._wait_for_available_connection($K, $T)", "self._create_connection(req, traces, timeout)"):
        for c, _b in K.exprs(bc, pat):
            if timeout_scopes(c, "connect"):
                chk.ok("C18.scope.connect", c, f"connect(): `{K.short(c, 50)}` is inside ceil_timeout(timeout.connect)")
            else:
                chk.violation("C18.scope.connect", c, K.short(c), "async with ceil_timeout(timeout.connect, ...)", "waiting for a pool slot / establishing the connection is not bounded by the connect timeout")
    # one deadline: `connect` bounds queueing for a slot *and* establishing the connection together, so both are under the same
    # scope instance; a second `ceil_timeout(timeout.connect)` restarts the budget
    scopes = {}
    for pat in ("self._wait_for_available_connection($K, $T)", "self._create_connection(req, traces, timeout)"):
        for c, _b in K.exprs(bc, pat):
            for w in timeout_scopes(c, "connect"):
                scopes.setdefault(id(w), (w, []))[1].append(c)
    armed = [w for w in ast.walk(bc.node) if isinstance(w, (ast.With, ast.AsyncWith)) and any(prog.is_timeout_ctx(it.context_expr) and "timeout.connect" in norm.raw(it.context_expr) for it in w.items)]
    if len(scopes) == 1 and len(armed) == 1:
        chk.ok("C18.scope.connect", armed[0], "connect(): one ceil_timeout(timeout.connect) scope covers the wait for a slot and the connection attempt (a single deadline)")
    else:
        chk.violation("C18.scope.connect", armed[1] if len(armed) > 1 else bc, f"{len(armed)} x async with ceil_timeout(timeout.connect, ...)", "one scope around both phases",
                      "the connect budget is armed more than once: a request that first queues for a slot and then stalls while connecting fails only after up to twice the configured bound")
    # ---- scope.total ---------------------------------------------------------------------------------------------------
    rq = repo.func(CLIENT, "ClientSession._request")
    loops = [w for w in ast.walk(rq.node) if isinstance(w, ast.While) and isinstance(w.test, ast.Constant)]
    with_timer = [w for w in ast.walk(rq.node) if isinstance(w, ast.With) and any(norm.raw(it.context_expr) == "timer" for it in w.items)]
    td = norm.fn_defs(rq.node).defs.get("timer", [])
    if loops and with_timer and any(x is with_timer[0] for x in prog.enclosing(loops[0], (ast.With,))) and td and norm.raw(td[0][1]) == "tm.timer()":
        chk.ok("C18.scope.total", with_timer[0], "the whole retry/redirect loop of _request runs inside `with timer:` (timer = TimeoutHandle(total).timer())")
    else:
        chk.violation("C18.scope.total", rq, "with timer: while True: ...", "", "hops of a request are not bounded by the total timeout")
    hs = K.stmts(rq, "handle = tm.start()")
    if hs and hs[0][0].lineno < (with_timer[0].lineno if with_timer else 0):
        chk.ok("C18.scope.total", hs[0][0], "the total timer is started before the first hop")
    else:
        chk.violation("C18.scope.total", rq, "handle = tm.start()", "", "the total timeout is never started")
    for rel, q, pat in ((REQ, "ClientResponse.start", "protocol.read()"), (STREAMS, "StreamReader._wait", "waiter"), (STREAMS, "StreamReader._fire_chunk_received", "cb(chunk)")):
        f = repo.func(rel, q)
        aws = [a for a in prog.awaits_in(f.node) if norm.raw(a.value) == pat]
        if not aws:
            chk.analysis_error(f"C18.scope.total: await {pat} not found in {q}")
        for a in aws:
            ws = [w for w in prog.enclosing(a, (ast.With,)) if any(norm.raw(it.context_expr) == "self._timer" for it in w.items)]
            if ws:
                chk.ok("C18.scope.total", a, f"{q}: `await {pat}` is inside `with self._timer`")
            else:
                chk.violation("C18.scope.total", a, K.short(a), "with self._timer:", f"{q}: a stalled read is not covered by the request's timer")
    # every wait of StreamReader for something the peer has to send is inside the request's timer (not a hand-picked list: all awaits of a
    # future the producer resolves)
    srd = repo.cls(STREAMS, "StreamReader")
    nfw = 0
    for name, m in srd.methods.items():
        for a in prog.awaits_in(m.node):
            v = a.value
            if not ((isinstance(v, ast.Attribute) and norm.raw(v.value) == "self" and "waiter" in v.attr) or (isinstance(v, ast.Name) and "waiter" in v.id)):
                continue
            nfw += 1
            ws = [w for w in prog.enclosing(a, (ast.With,)) if any(norm.text(it.context_expr, w) == "self._timer" for it in w.items)]
            if ws:
                chk.ok("C18.scope.total", a, f"StreamReader.{name}: `await {norm.raw(v)}` is inside `with self._timer`")
            else:
                chk.violation("C18.scope.total", a, K.short(a), "with self._timer:",
                              f"StreamReader.{name}() awaits its future bare while every sibling waits under `with self._timer`: with total=0.5 and a body that stalls, readexactly() times out at 0.5 s but {name}() is still waiting seconds later - the total timeout does not bound it")
    chk.expect_count("C18.scope.total.waiters", nfw, 2, "waits for a producer-resolved future in StreamReader")
    # a timed-out / failed exchange closes its connection for real: with unsent bytes in the write buffer a graceful close never completes
    rhc = repo.func(PROTO, "ResponseHandler.close")
    ab = [c for c in prog.calls_in(rhc.node) if isinstance(c.func, ast.Attribute) and c.func.attr == "abort" and any("get_write_buffer_size" in l.text for cl_ in PC.pc(c, raw=True) for l in cl_)]
    if ab:
        chk.ok("C18.close", ab[0], "ResponseHandler.close(): unsent bytes in the write buffer make the close an abort")
    else:
        chk.violation("C18.close", rhc, "transport.close()", "if transport.get_write_buffer_size(): transport.abort()",
                      "ResponseHandler.close() only calls transport.close(), which waits for the write buffer to be flushed: after a sock_read timeout of a POST whose unsent tail (below the 64 KiB high-water mark) sits in the buffer of a peer that never reads, the socket is still open after the timeout and after session.close() - the connector has forgotten it, nothing will ever close it")
    # ---- close --------------------------------------------------------------------------------------------------------------
    chk.include(C06.run, ("C06.closeonerror",), ("C06.closeonerror", "C18.close"))
    # the request's timer (total timeout) reaches the body stream through the parser built for this request: a parser kept from the previous
    # request on the connection carries that request's timer, already cancelled - a stalled body of the next request is never timed out
    chk.include(C06.run, ("C06.fresh",), ("C06.fresh", "C18.timer.fresh"))
    for q in ("ClientResponse.close", "ClientResponse.release", "ClientResponse._response_eof"):
        f = repo.func(REQ, q)
        g = cfg_of(f.node)
        path = g.find_path([g.entry], lambda n: n is g.exit, lambda n: K.node_has(n, "self._cleanup_writer()") or (n.kind == "stmt" and isinstance(n.ast, ast.Return) and (
            PC.has_lit(PC.pc(n.ast), "self._closed", True) is not None or PC.has_lit(PC.pc(n.ast), "self._loop.is_closed()", True) is not None or "upgraded" in norm.fmt_cnf(PC.pc(n.ast)))), EXPLICIT)
        if path is None:
            chk.ok("C18.close.writer", f, f"{q}(): the request's writer task is cancelled on every path that ends the exchange")
        else:
            chk.violation("C18.close.writer", f, q, "self._cleanup_writer()", f"{q}(): the body-writer task keeps running after the response ended", path=g.fmt_path(path))
    cw = repo.func(REQ, "ClientResponse._cleanup_writer")
    if K.exprs(cw, "self.__writer.cancel()") or "writer.cancel()" in norm.raw(cw.node):
        chk.ok("C18.close.writer", cw, "_cleanup_writer() cancels the writer task")
    else:
        chk.violation("C18.close.writer", cw, "self.__writer.cancel()", "", "_cleanup_writer() no longer cancels the writer")
    bh = [h for t in ast.walk(rq.node) if isinstance(t, ast.Try) for h in t.handlers if PC.handler_types(h) == ["BaseException"]]
    if bh and M.contains(bh[-1], "tm.close()") and M.contains(bh[-1], "handle.cancel()") and isinstance(bh[-1].body[-1], ast.Raise):
        chk.ok("C18.close.timer", bh[-1], "_request(): any failure closes the timeout handle, cancels the timer callback and re-raises")
    else:
        chk.violation("C18.close.timer", rq, "except BaseException: tm.close(); handle.cancel(); ...; raise", "", "a failed request leaves its timer armed (it later cancels an unrelated task)")
    # ---- dns --------------------------------------------------------------------------------------------------------------------
    rh = repo.func(CONN, "TCPConnector._resolve_host")
    th = repo.func(CONN, "TCPConnector._resolve_host_with_throttle")
    sites = prog.call_sites(repo, th, [CONN])
    if len(sites) != 1:
        chk.violation("C18.dns", th, "_resolve_host_with_throttle(...)", f"{len(sites)} call sites", "the shared lookup must have exactly one, shielded, call site")
    for c in sites:
        st = K.stmt_of(c)
        coro = st.targets[0].id if isinstance(st, ast.Assign) and isinstance(st.targets[0], ast.Name) else None
        tasks = {s.targets[0].id for s in ast.walk(c.fn.node) if isinstance(s, ast.Assign) and coro and isinstance(s.targets[0], ast.Name)
                 and (M.contains(s.value, f"asyncio.Task({coro}, ...)") or M.contains(s.value, f"$L.create_task({coro})"))}
        sh = [a for a in prog.awaits_in(c.fn.node) if M.match(M.compile_pat("asyncio.shield($T)"), a.value) is not None and norm.raw(a.value.args[0]) in tasks]
        direct = isinstance(c.parent, ast.Await)
        if not direct and len(tasks) == 1 and sh:
            chk.ok("C18.dns", c, "the shared DNS lookup runs in its own Task and is awaited only through asyncio.shield: cancelling one request does not cancel the lookup others wait for")
        else:
            chk.violation("C18.dns", c, K.short(c), "Task + await asyncio.shield(task)", "cancelling one request cancels the DNS lookup shared with other requests")
    canc = [c for c in prog.calls_in(rh.node) if isinstance(c.func, ast.Attribute) and c.func.attr == "cancel" and "task" in norm.raw(c.func.value)]
    if canc:
        for c in canc:
            chk.violation("C18.dns", c, K.short(c), "no cancel() of the shared lookup task",
                          "the shared DNS lookup is cancelled by one requester: a request that joins the still-registered lookup in the same loop iteration receives its CancelledError although nobody cancelled it")
    else:
        chk.ok("C18.dns", rh, "no requester ever cancels the shared lookup task")
    fa = K.exprs(rh, "futures.add(future)")
    fw = [a for a in prog.awaits_in(rh.node) if norm.raw(a.value) == "future"]
    if fa and fw and any(t.finalbody and any(M.contains(s, "futures.discard(future)") for s in t.finalbody) and prog.in_body_of(fw[0], t, "body") for t in prog.enclosing(fw[0], (ast.Try,))):
        chk.ok("C18.dns", fw[0], "a secondary waiter waits on its own future and removes it in a finally (its cancellation touches nobody else)")
    else:
        chk.violation("C18.dns", rh, "futures.add(future); try: await future finally: futures.discard(future)", "", "secondary DNS waiters share state that a cancellation corrupts")
    pops = [c for c, _b in K.exprs(th, "self._throttle_dns_futures.pop(key)")]
    if pops and K.in_finally(K.stmt_of(pops[0])) is not None:
        chk.ok("C18.dns", pops[0], "the throttle entry is removed in a finally (a failed lookup does not block later ones)")
    else:
        chk.violation("C18.dns", th, "finally: self._throttle_dns_futures.pop(key)", "", "a failed lookup leaves its throttle entry: later requests for the host wait forever")
    if M.contains(th.node, "set_result(fut, None)") and any("BaseException" in PC.handler_types(h) and M.contains(h, "set_exception(fut, e)") for t in ast.walk(th.node) if isinstance(t, ast.Try) for h in t.handlers):
        chk.ok("C18.dns", th, "waiters receive the result, or the lookup's exception")
    else:
        chk.violation("C18.dns", th, "set_result(fut, None) / except BaseException: set_exception(fut, e)", "", "secondary waiters are not completed when the lookup fails")
    early = K.stmts(rh, "self._throttle_dns_futures[key] = futures = set()")
    if early and not [a for a in prog.awaits_in(rh.node) if a.lineno < early[0][0].lineno and PC.has_lit(PC.pc(a), "key in self._throttle_dns_futures", True) is None and PC.has_lit(PC.pc(a), "key in self._cached_hosts", True) is None and not any("_cached_hosts" in l.text for c2 in PC.pc(a) for l in c2)]:
        chk.ok("C18.dns", early[0][0], "the throttle entry is registered before the first await of the primary path")
    # ---- readtimer -------------------------------------------------------------------------------------------------------------------
    ph = repo.cls(PROTO, "ResponseHandler")
    pz = ph.methods["pause_reading"]
    if K.exprs(pz, "self._drop_timeout()") and K.exprs(pz, "super().pause_reading()"):
        chk.ok("C18.readtimer", pz, "pause_reading() drops the sock_read timer (a paused reader is not timed out)")
    else:
        chk.violation("C18.readtimer", pz, "self._drop_timeout()", "", "the read timer keeps running while reading is paused by back-pressure")
    rz = ph.methods["resume_reading"]
    rs = K.exprs(rz, "self._reschedule_timeout()")
    sup = K.exprs(rz, "super().resume_reading(resume_parser)")
    wp = norm.fn_defs(rz.node).defs.get("was_paused", [])
    units_ = {str(l) for l in PC.units(PC.pc(rs[0][0], raw=True))} if rs else set()
    ALLOWED = {"(was_paused)", "!(self._reading_paused)", "(self._payload is not None)", "!(self._payload is None)", "!(self._payload.is_eof())"}
    shape = bool(rs and sup and len(wp) == 1 and norm.raw(wp[0][1]) == "self._reading_paused" and wp[0][0].lineno < sup[0][0].lineno
                 and "(was_paused)" in units_ and units_ <= ALLOWED and rs[0][0].lineno > sup[0][0].lineno)
    if shape and "!(self._payload.is_eof())" not in units_:
        chk.violation("C18.readtimer", rs[0][0], "if was_paused: self._reschedule_timeout()", "... and self._payload is not None and not self._payload.is_eof()",
                      "resuming re-enters the parser, which may complete the response (the buffered tail of a compressed body) and release the connection to the pool; the timer is then re-armed on an idle pooled connection, fires sock_read later and stores SocketTimeoutError on it - the next request that reuses the connection fails at once although the peer is healthy")
    elif shape:
        chk.ok("C18.readtimer", rs[0][0], "resume_reading() re-arms the sock_read timer iff reading had been paused (state captured before the base resume, which may pause again) and the response is still incomplete")
    else:
        chk.violation("C18.readtimer", rz, "was_paused = self._reading_paused; super().resume_reading(...); if was_paused: self._reschedule_timeout()", "",
                      "the re-arm decision depends on state that a nested pause (decoder refilling the buffer during resume) can overwrite: after the final resume the read timer is never armed and a stalled peer hangs the read")
    dr = ph.methods["data_received"]
    rr = K.exprs(dr, "self._reschedule_timeout()")
    # (bytes on a connection that idles in the pool retire it instead, C06.idle.input: `not self.idle` is the only other condition admitted)
    rc_ = PC.pc(rr[0][0], raw=True) if rr else []
    ru = {str(l) for l in PC.units(rc_)}
    if rr and "(data)" in ru and ru <= {"(data)", "!(self.idle)"} and all(len(cl_) == 1 for cl_ in rc_):
        chk.ok("C18.readtimer", rr[0][0], "data_received() re-arms the timer for real data only (not for the empty resume re-entry)")
    else:
        chk.violation("C18.readtimer", dr, "if data: self._reschedule_timeout()", "", "the read timer is not re-armed by incoming data (or re-armed by the empty re-entry)")
    for q in ("close", "abort", "connection_lost", "set_exception", "set_parser"):
        if K.exprs(ph.methods[q], "self._drop_timeout()"):
            chk.ok("C18.readtimer", ph.methods[q], f"{q}() drops the read timer")
        else:
            chk.violation("C18.readtimer", ph.methods[q], q, "self._drop_timeout()", f"{q}() leaves the read timer armed on a dead/handed-over connection")
    ot = ph.methods["_on_read_timeout"]
    if K.exprs(ot, "self.set_exception(exc)") and "SocketTimeoutError" in norm.raw(ot.node):
        chk.ok("C18.readtimer", ot, "the read timeout fails the connection (latches should_close) and the payload with SocketTimeoutError")
    else:
        chk.violation("C18.readtimer", ot, "_on_read_timeout", "self.set_exception(SocketTimeoutError(...))", "a read timeout does not fail the exchange")
    # ---- timer --------------------------------------------------------------------------------------------------------------------------
    tc = repo.cls(HELPERS, "TimerContext")
    to = tc.methods["timeout"]
    canc = K.exprs(to, "task.cancel()")
    setc = K.stmts(to, "self._cancelled = True")
    if canc and setc and PC.has_lit(PC.pc(setc[0][0]), "self._cancelled", False) is not None and "self._tasks" in norm.raw(to.node):
        chk.ok("C18.timer", to, "TimerContext.timeout(): cancels every task inside the context once and records that it fired")
    else:
        chk.violation("C18.timer", to, "for task in set(self._tasks): task.cancel(); self._cancelled = True", "", "the total timeout does not cancel the tasks inside the timer context")
    ex = tc.methods["__exit__"]
    rte = [n for n, c in K.raises_in(ex.node) if c == "asyncio.TimeoutError"]
    # "this timer fired": the latch itself, or membership of the task in the set timeout() filled with the tasks it cancelled
    fired_sets = {norm.raw(a.targets[0]) for a in ast.walk(to.node) if isinstance(a, ast.Assign) and "self._tasks" in norm.raw(a.value) and norm.raw(a.targets[0]).startswith("self._")}
    fired = rte and (PC.has_lit(PC.pc(rte[0], raw=True), "self._cancelled", True) is not None or any(PC.has_lit(PC.pc(rte[0], raw=True), f"enter_task in {fs}", True) is not None for fs in fired_sets))
    if rte and PC.has_lit(PC.pc(rte[0], raw=True), "exc_type is asyncio.CancelledError", True) is not None and fired:
        chk.ok("C18.timer", rte[0], "__exit__: a CancelledError becomes TimeoutError only when this timer fired")
        # the context can be entered twice by one task (_request() and ClientResponse.start()); timeout() cancelled the task once, so only one
        # of the nested exits may take the cancel request back: the firing is recorded per task and consumed on the way out
        per_task = [fs for fs in fired_sets if PC.has_lit(PC.pc(rte[0], raw=True), f"enter_task in {fs}", True) is not None]
        consumed = [c for c in prog.calls_in(ex.node) if isinstance(c.func, ast.Attribute) and c.func.attr in ("discard", "remove") and norm.raw(c.func.value) in per_task and c.lineno < rte[0].lineno]
        if per_task and consumed:
            chk.ok("C18.timer", consumed[0], "__exit__: the per-task firing mark is consumed by the exit that converts (a nested second exit does not uncancel again)")
        else:
            chk.violation("C18.timer", ex, "if exc_type is asyncio.CancelledError and self._cancelled:", "and enter_task in self._timed_out: self._timed_out.discard(enter_task)",
                          "the timer context is entered twice by the same task while the response head is awaited; timeout() cancels the task once but both nested exits call task.uncancel(): a task.cancel() that coincides with the total timeout is taken back too - the request ends with TimeoutError, the caller's cancellation is lost")
        un = [r for r in ast.walk(ex.node) if isinstance(r, ast.Return) and PC.has_lit(PC.pc(r, raw=True), "enter_task.uncancel() > self._cancelling", True) is not None]
        if un:
            chk.ok("C18.timer", un[0], "__exit__: a task that was already being cancelled keeps its cancellation (not converted)")
        else:
            chk.violation("C18.timer", ex, "if enter_task.uncancel() > self._cancelling: return None", "", "a caller's cancellation during a timeout is swallowed into TimeoutError")
    else:
        chk.violation("C18.timer", ex, "if exc_type is asyncio.CancelledError and self._cancelled: raise asyncio.TimeoutError", "", "timeouts surface as CancelledError (or cancellations as TimeoutError)")
    en = tc.methods["__enter__"]
    if [n for n, c in K.raises_in(en.node) if c == "asyncio.TimeoutError" and PC.has_lit(PC.pc(n), "self._cancelled", True) is not None] and K.exprs(en, "self._tasks.append(task)"):
        chk.ok("C18.timer", en, "__enter__: entering an already-expired timer raises at once; the task is registered for cancellation")
    else:
        chk.violation("C18.timer", en, "if self._cancelled: raise asyncio.TimeoutError; self._tasks.append(task)", "", "work started after the deadline is not timed out")
    thc = repo.func(HELPERS, "TimeoutHandle.start")
    ca = K.exprs(thc, "self._loop.call_at(when, self.__call__)")
    if ca and PC.has_lit(PC.pc(ca[0][0]), "self._timeout is None", False) is not None and PC.has_lit(PC.pc(ca[0][0]), "self._timeout > 0", True) is not None:
        chk.ok("C18.timer", ca[0][0], "TimeoutHandle.start(): a positive total timeout schedules the callback")
    else:
        chk.violation("C18.timer", thc, "if timeout is not None and timeout > 0: call_at(...)", "", "the total timeout is not scheduled")
    hunt4_rules(chk, repo)
    # ---- slot (shared with C07) ---------------------------------------------------------------------------------------------------------------
    chk.include(C07.run, ("C07.placeholder", "C07.handoff", "C07.waiterfinally", "C07.wake.scan"), ("C07.", "C18.slot."))
