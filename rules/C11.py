"""C11 WebSocket codec round trip (DESIGN 5/C11): structural necessary conditions on the writer and its agreement with the reader."""
from __future__ import annotations

import ast

from sa import match as M, norm, pc as PC, prog, rulekit as K
from sa.cfg import EXPLICIT, cfg_of
from sa.consteval import Folder, NotConst, StructConst
from sa.loader import AnalysisError

WM = "aiohttp/_websocket/writer.py"
RM = "aiohttp/_websocket/reader_py.py"
HM = "aiohttp/_websocket/helpers.py"
W = "WebSocketWriter"
WIDTH = {"B": 8, "H": 16, "L": 32, "Q": 64}


def _is_lock(e, lock, ctx) -> bool:
    """The expression is the lock itself or a local whose only definition is the lock (`send_lock = self._send_lock`)."""
    return norm.raw(e) == lock or norm.text(e, ctx) == lock


def _lock_stmt(st, lock, meth) -> bool:
    """The statement `await L.acquire()` / `L.release()` on the lock (an acquire() that is not awaited takes nothing)."""
    v = st.value if isinstance(st, ast.Expr) else None
    if meth == "acquire":
        v = v.value if isinstance(v, ast.Await) else None
    return isinstance(v, ast.Call) and not v.args and not v.keywords and isinstance(v.func, ast.Attribute) and v.func.attr == meth and _is_lock(v.func.value, lock, st)


def _releases(stmts, lock) -> bool:
    return any(isinstance(c, ast.Call) and isinstance(c.func, ast.Attribute) and c.func.attr == "release" and _is_lock(c.func.value, lock, c) for s in stmts for c in ast.walk(s))


def _held_by_try(t: ast.Try, node, lock) -> bool:
    """`await L.acquire()` / `try: <node> finally: L.release()` - what `async with L:` expands to: the try statement directly follows the
    acquisition in the same block (nothing in between gives the lock back), the lock is given back in the finally and nowhere before it."""
    protected = t.body + t.handlers + t.orelse
    if not any(node is x for s in protected for x in ast.walk(s)):
        return False
    if not any(_lock_stmt(s, lock, "release") for s in t.finalbody) or _releases(protected, lock):
        return False
    blk = PC._block_of(t) or []
    before = blk[: blk.index(t)] if t in blk else []
    for k in range(len(before) - 1, -1, -1):
        if _lock_stmt(before[k], lock, "acquire"):
            return not _releases(before[k + 1:], lock)
    return False


def under_lock(node, lock="self._send_lock") -> bool:
    """The node runs while the lock is held: inside `async with <lock>` or inside the try of acquire()/try/finally/release()."""
    for w in prog.enclosing(node, (ast.AsyncWith, ast.Try)):
        if isinstance(w, ast.AsyncWith):
            if any(_is_lock(it.context_expr, lock, node) for it in w.items) and any(node is x for s in w.body for x in ast.walk(s)):
                return True
        elif _held_by_try(w, node, lock):
            return True
    return False


def lock_entries(g, lock="self._send_lock") -> list:
    """CFG nodes that take the lock: the entry of `async with <lock>` or the statement `await <lock>.acquire()`."""
    out = []
    for n in g.nodes:
        a = getattr(n, "ast", None)
        if n.kind == "with-enter" and isinstance(a, ast.AsyncWith) and any(_is_lock(it.context_expr, lock, a) for it in a.items):
            out.append(n)
        elif n.kind == "stmt" and isinstance(a, ast.AST) and _lock_stmt(a, lock, "acquire"):
            out.append(n)
    return out


def frame_atomic(chk, repo, wc, rule="C11.frame.atomic"):
    """Rule written after seeding round 6 (seed C11-6): the bytes of one frame reach the transport in one synchronous step.
    Frames of concurrent senders interleave at suspension points only.  A coroutine that hands a frame to the transport piecewise (a raw
    `self.transport.write(...)` of its own, with an await between two pieces) is sound only if every other way to the transport waits for the
    same lock - the unlocked fast path for small and control frames would otherwise put a Ping between the header and the payload of the
    frame in progress, and the reader takes the Ping for payload bytes."""
    raw_writers = {n: f for n, f in wc.methods.items() if any(norm.raw(c.func) == "self.transport.write" for c in prog.calls_in(f.node))}
    if not raw_writers:
        chk.analysis_error(f"{rule}: no method of {wc.name} writes to the transport")
        return
    # synchronous helpers that write (through another helper) hand over their bytes in the caller's step
    sync_writers = {n for n, f in raw_writers.items() if not isinstance(f.node, ast.AsyncFunctionDef)}
    grew = True
    while grew:
        grew = False
        for n, f in wc.methods.items():
            if n not in sync_writers and not isinstance(f.node, ast.AsyncFunctionDef) and any(isinstance(c.func, ast.Attribute) and norm.raw(c.func.value) == "self" and c.func.attr in sync_writers for c in prog.calls_in(f.node)):
                sync_writers.add(n)
                grew = True
    def writes(n):
        return n.in_finally_copy is None and isinstance(getattr(n, "ast", None), ast.AST) and n.kind in ("stmt", "test", "for", "with-enter") and any(
            norm.raw(c.func) == "self.transport.write" or (isinstance(c.func, ast.Attribute) and norm.raw(c.func.value) == "self" and c.func.attr in sync_writers) for c in K.node_calls(n))
    split = []
    for name, f in wc.methods.items():
        if not isinstance(f.node, ast.AsyncFunctionDef):
            continue
        g = cfg_of(f.node)
        ws = [n for n in g.nodes if writes(n)]
        sus = [n for n in g.nodes if n.in_finally_copy is None and K.node_suspends(n, repo)]
        # a piece of a frame: a raw transport.write in the coroutine itself (a helper call writes a whole frame, unless it is told not to)
        raw = [n for n in ws if any(norm.raw(c.func) == "self.transport.write" for c in K.node_calls(n))]
        done = False
        for a in ws:
            for s_ in sus:
                if s_ is a or done:
                    continue
                after = [b for b in ws if (a in raw or b in raw)]
                if after and g.find_path([a], lambda n: n is s_, lambda n: False, EXPLICIT) is not None and g.find_path([s_], lambda n: n in after, lambda n: False, EXPLICIT) is not None:
                    split.append((f, a, s_))
                    done = True
    n_sites = 0
    unlocked = []
    for name, f in wc.methods.items():
        if not isinstance(f.node, ast.AsyncFunctionDef):
            continue
        for c in prog.calls_in(f.node):
            if norm.raw(c.func) == "self.transport.write" or (isinstance(c.func, ast.Attribute) and norm.raw(c.func.value) == "self" and c.func.attr in sync_writers):
                n_sites += 1
                if not under_lock(c):
                    unlocked.append((f, c))
    if not split:
        chk.ok(rule, next(iter(raw_writers.values())), f"only synchronous code writes frame bytes piecewise ({', '.join(sorted(raw_writers))}): no suspension point lies between two writes of one frame ({n_sites} call sites in coroutines)")
    elif not unlocked:
        chk.ok(rule, split[0][1].ast, f"{split[0][0].name}() suspends between two writes of a frame, and all {n_sites} ways to the transport hold the send lock")
    else:
        f, a, s_ = split[0]
        chk.violation(rule, s_.ast, K.short(s_.ast), "one self.transport.write() per frame (or: every writer under self._send_lock)",
                      f"{f.name}() suspends (`{K.short(s_.ast, 50)}`) between two writes of the same frame (`{K.short(a.ast, 50)}` ...), while {unlocked[0][0].name}() writes `{K.short(unlocked[0][1], 50)}` without the send lock: a Ping, Pong or short message sent by another task during that wait lands between the header and the payload of the frame in progress - the reader takes it for payload, the stream is desynchronised (reserved bits / unexpected opcode) and the messages are lost")
    chk.expect_count(rule, n_sites, 3, "ways from the writer's coroutines to the transport")


def hunt5_rules(chk, repo, wc, folder):
    """Rules written after the fifth defect hunt (F274-F276)."""
    from rules import C01
    # ---- C11.negotiate.int (F274): the numbers of the permessage-deflate offer are converted under a bounded lexical gate ---------------------------
    K.int_sites(chk, "C11.negotiate.int", repo, folder, ["aiohttp/_websocket/helpers.py"], {},
                "the window-bits value of a `Sec-WebSocket-Extensions` offer is text of the peer (a 5000-digit value fits the header limits): the server answers 500 to the upgrade instead of declining the extension, the client's ws_connect() raises a bare ValueError instead of WSServerHandshakeError",
                gate=C01.int_cannot_raise, min_sites=2)
    # ---- C11.handshake.key (F275): every way base64 text of the peer can fail is caught -----------------------------------------------------------
    n = 0
    for rel in ("aiohttp/web_ws.py", "aiohttp/client_ws.py", "aiohttp/client.py"):
        for fn in repo.module(rel).functions.values():
            for c in prog.calls_in(fn.node):
                if norm.raw(c.func) not in ("base64.b64decode", "base64.standard_b64decode", "binascii.a2b_base64") or getattr(c, "fn", None) is not fn:
                    continue
                n += 1
                hs = [x for _t, h in K.enclosing_try_handlers(c) for x in PC.handler_types(h)]
                if any(x in ("ValueError", "Exception") for x in hs):
                    chk.ok("C11.handshake.key", c, f"{fn.qualname}: `{K.short(c, 40)}` is under a ValueError handler (binascii.Error for bad base64, plain ValueError for a non-ASCII str)")
                else:
                    chk.violation("C11.handshake.key", c, K.short(c), "except ValueError: (binascii.Error is a subclass)",
                                  f"{fn.qualname} decodes base64 text of the peer under a handler for {', '.join(hs) or 'nothing'}: for a str with a non-ASCII character b64decode() raises a plain ValueError, which leaves prepare() - a handshake with such a Sec-WebSocket-Key is answered 500 with a traceback instead of 400")
    chk.expect_count("C11.handshake.key", n, 1, "base64 decodings of handshake header values")
    # ---- C11.closing.pending (F276): close() lets the send tasks that were created but have not started yet go first ---------------------------------
    # The ordering argument of C11.closing rests on the send task queueing for the lock in the step that creates it (eager start).  Where
    # send_frame() has a fallback that creates the task lazily (interpreters before 3.12), close() has to wait for the tasks it knows of.
    sf = K.with_spawn_helpers(wc, "send_frame")
    lazy = [c for c in prog.calls_in(sf.node) if isinstance(c.func, ast.Attribute) and c.func.attr == "create_task"]
    cf = wc.methods["close"]
    if not lazy:
        chk.ok("C11.closing.pending", cf, "send_frame() creates its tasks eagerly only: they queue for the lock in the step that creates them")
    else:
        g = cfg_of(cf.node)
        # where close() takes the send lock: `async with self._send_lock:` or `await self._send_lock.acquire()` (directly or through a local)
        lock = lock_entries(g)
        # the task set itself or a local taken from it (`pending = set(self._background_tasks)`)
        tnames = {"self._background_tasks"} | {n_ for n_, ds in norm.fn_defs(cf.node).defs.items() if any(v is not None and "self._background_tasks" in norm.raw(v) for _d, v in ds)}
        waits = [n_ for n_ in g.nodes if n_.in_finally_copy is None and isinstance(getattr(n_, "ast", None), ast.AST) and n_.kind in ("stmt", "test") and any(
            norm.raw(c.func) in ("asyncio.wait", "asyncio.gather") and any(t in norm.raw(c) for t in tnames) for c in K.node_calls(n_))]
        # skipping the wait is fine when there is nothing to wait for
        def empty_set(a, b, k):
            return a.kind == "test" and k == "F" and norm.raw(a.ast) in tnames
        p_ = K.find_path_edges(g, [g.entry], lambda n_: n_ in lock, lambda n_: n_ in waits, empty_set, EXPLICIT) if lock else None
        if lock and waits and p_ is None:
            chk.ok("C11.closing.pending", waits[0].ast, "close() waits for the send tasks it knows of before it takes the lock: a task created lazily (no eager start before 3.12) is not overtaken by the Close frame")
        elif not lock:
            chk.analysis_error("C11.closing.pending: `async with self._send_lock` (or `await self._send_lock.acquire()`) not found in WebSocketWriter.close")
        else:
            chk.violation("C11.closing.pending", lock[0].ast, "async with self._send_lock:", "if self._background_tasks: await asyncio.wait(self._background_tasks)  before the lock",
                          f"send_frame() has a lazily started task (`{K.short(lazy[0], 40)}`, interpreters without eager_start): a large compressed message passed the closing test, but its task has not queued for the lock when close() runs in the same loop iteration - the Close frame is written first and the message follows Close on the wire (requires-python is >= 3.10)", path=g.fmt_path(p_) if p_ else None)


def run(chk):
    repo = chk.repo
    folder = Folder(repo)
    chk.explanation = (
        "Decided structurally: the shared deflate context (_get_compressor / _compressobj) is reached only from code that holds the send lock "
        "on every path; the coroutine that awaits the compressor is never awaited directly but wrapped in a Task, kept referenced and awaited "
        "through asyncio.shield; the length-encoding thresholds equal 2**(field width) of the struct formats used, and the reader decodes the "
        "same widths; one variable decides both the mask bit and the masking branch and the mask is 4 fresh random bytes; RSV1 is set exactly on "
        "the frames whose payload comes from the compressor, control opcodes never take the compressed path, writer and reader share the "
        "deflate trailer constant, the flush mode follows no-context-takeover; no data frame is written after close."
    )
    chk.not_decided = "payload equality and message order end to end, equality of the compression contexts across histories, segmentation independence of the reader beyond the resumable-state rules shared with C12 (C11.rx.*)."
    chk.explanation += " Also decided: a per-message deflate context is created only without context takeover; the reader's resumable-state, opcode-reset and masking-key rules (shared with C12) are evaluated here as C11.rx.*. After the defect hunt: the Close frame is written under the send lock after _closing was set; per-message windows are clamped to the negotiated one; oversized control frames are refused."
    chk.explanation += " Round 4 / second hunt: the task that takes the send lock starts eagerly; frame lengths are byte counts (memoryview re-shaped); no caller-owned buffer reaches the transport by reference."
    wc = repo.cls(WM, W)
    sf0 = repo.func(WM, f"{W}.send_frame")
    # (round 6) the way send_frame() spawns and shields its task may live in a helper (`await self._run_shielded(coro)`): read through it
    sf = K.with_spawn_helpers(wc, "send_frame")
    wf = repo.func(WM, f"{W}._write_websocket_frame")
    gc = repo.func(WM, f"{W}._get_compressor")

    # ---- C11.lock (T12) ------------------------------------------------------------------------------------
    def holds_lock(call, depth=0) -> bool:
        """The call is lexically under the send lock, or every package call site of its function is."""
        if under_lock(call):
            return True
        if depth > 2 or call.fn is None or not call.fn.name.startswith("_"):
            return False  # a public method (send_frame) is called from other modules and from applications: its callers are not all known
        sites = prog.call_sites(repo, call.fn, [WM])
        return bool(sites) and all(holds_lock(s, depth + 1) for s in sites)

    users = prog.call_sites(repo, gc, [WM])
    if not users:
        raise AnalysisError("C11.lock: no caller of _get_compressor")
    for call in users:
        if holds_lock(call):
            chk.ok("C11.lock", call, f"{call.fn.qualname}: the shared compressor is obtained while the send lock is held (lexically or at every call site)")
        else:
            bad = [s for s in prog.call_sites(repo, call.fn, [WM]) if not holds_lock(s, 1)] or [call]
            for b in bad:
                chk.violation("C11.lock", b, K.short(b), "async with self._send_lock",
                              "the shared deflate context can be used without the send lock: a frame compressed here interleaves with a compression running in the executor and corrupts the stream",
                              path_condition=norm.fmt_cnf(PC.pc(b)))
    # direct uses of the context attribute
    for fn, hits in prog.writers(repo, [WM], "_compressobj").items():
        if fn.name not in ("__init__", "_get_compressor"):
            chk.violation("C11.lock", hits[0][0], K.short(hits[0][0]), f"writer {fn.qualname}", "the shared deflate context is replaced outside _get_compressor")
    for fn in wc.methods.values():
        for n in ast.walk(fn.node):
            if isinstance(n, ast.Attribute) and n.attr == "_compressobj" and isinstance(n.ctx, ast.Load) and fn.name != "_get_compressor":
                chk.violation("C11.lock", n, "self._compressobj", f"read in {fn.qualname}", "the shared deflate context is used without going through the locked accessor")
    # ---- C11.takeover: with context takeover every compressed message goes through the one shared context -------------------------------
    # The peer inflates all messages with a single window. A message deflated by a throw-away context is absent from the sender's shared
    # window but present in the receiver's, so later back-references of the shared context resolve to the wrong bytes.
    for c in prog.calls_in(gc.node):
        if not (isinstance(c.func, ast.Name) and c.func.id == "ZLibCompressor"):
            continue
        st = K.stmt_of(c)
        shared = isinstance(st, ast.Assign) and norm.raw(st.targets[0]) == "self._compressobj"
        if shared:
            chk.ok("C11.takeover", c, "the shared deflate context is created once and kept")
            continue
        cl = PC.pc(c)
        safe = any(all((l.text == "self.notakeover" and l.pos) or (l.text in ("self.compress", "self._compressobj") and not l.pos) for l in clause) for clause in cl)
        if safe:
            chk.ok("C11.takeover", c, "a per-message deflate context is used only without context takeover (or when no shared context exists)")
        else:
            chk.violation("C11.takeover", c, K.short(c, 60), "(self.notakeover | !(self.compress))",
                          "a message is deflated by a throw-away context while context takeover is in force: the receiver's window then contains a message the shared context never saw, and the next message that refers back into the window is inflated to different bytes (silently, or as a decode error)",
                          path_condition=norm.fmt_cnf(cl))
    # the throw-away context must not use a larger window than was negotiated: the peer only has to keep the negotiated one
    clamps = [a for a in ast.walk(gc.node) if isinstance(a, ast.Assign) and isinstance(a.value, ast.Call) and norm.raw(a.value.func) == "min" and any("self.compress" == norm.raw(x) for x in a.value.args)]
    if clamps:
        chk.ok("C11.takeover", clamps[0], "a per-message window is clamped to the negotiated one (min(compress, self.compress))")
    else:
        chk.violation("C11.takeover", gc, "wbits=-compress", "compress = min(compress, self.compress) when a window was negotiated",
                      "a per-message compress=15 on a connection that negotiated max_window_bits=9 deflates with a 32 KiB window: a peer that keeps only the negotiated window fails with `invalid distance too far back`")
    # control frames: the writer refuses what the reader refuses (RFC 6455 5.5: payload <= 125)
    big = [r for r, cname in K.raises_in(sf.node) if PC.has_lit(PC.pc(r), [("len(message) > 125", True), ("len(message) >= 126", True)], True) is not None and PC.has_lit(PC.pc(r), [("opcode >= WS_CONTROL_FRAME_OPCODE", True), ("opcode < WS_CONTROL_FRAME_OPCODE", False), ("opcode > 7", True), ("opcode & 8", True)], True) is not None]
    if big:
        chk.ok("C11.ctl", big[0], "send_frame() refuses a control frame whose payload exceeds 125 bytes (what its own reader rejects)")
    else:
        chk.violation("C11.ctl", sf, "send_frame(opcode >= 8, len(message) > 125)", "raise ValueError", "a 126-byte ping or a close reason of 124+ bytes is emitted as a frame that RFC 6455 forbids and aiohttp's own reader rejects with a protocol error")
    # ---- C11.shield (T12) --------------------------------------------------------------------------------------
    # the coroutines that suspend between advancing the shared deflate context and writing its output: those that await
    # the compressor (which may hand the payload to the executor), directly or through another method of the writer
    susp = {}
    for fn in wc.methods.values():
        aw = [a for a in prog.awaits_in(fn.node) if isinstance(a.value, ast.Call) and isinstance(a.value.func, ast.Attribute) and a.value.func.attr == "compress"]
        if aw:
            susp[fn.name] = fn
    grew = True
    while grew:
        grew = False
        for fn in wc.methods.values():
            if fn.name in susp or fn.name == "send_frame":
                continue
            for a in prog.awaits_in(fn.node):
                t = prog.resolve_call(repo, a.value) if isinstance(a.value, ast.Call) else None
                if t is not None and t.name in susp and t.cls is fn.cls:
                    susp[fn.name] = fn
                    grew = True
    if not susp:
        raise AnalysisError("C11.shield: no coroutine of the writer awaits the compressor")
    als = list(susp.values())
    al = als[0]
    sites = [c for f in als for c in prog.call_sites(repo, f, [WM]) if c.fn is None or c.fn.name not in susp]
    if len(sites) < 1:
        chk.violation("C11.shield", al, f"{al.name}(...)", "0 call sites", "the compress-and-send coroutine has no call site")
    sites = [K.same_node(sf, c) if c.fn is sf0 and sf is not sf0 else c for c in sites]
    for call in sites:
        if isinstance(call.parent, ast.Await):
            chk.violation("C11.shield", call, K.short(call), "Task + asyncio.shield", "compress-and-send is awaited directly: cancelling the sender between compression and write corrupts the shared context")
            continue
        st = K.stmt_of(call)
        coro = st.targets[0].id if isinstance(st, ast.Assign) and isinstance(st.targets[0], ast.Name) else None
        tasks = [s for s in ast.walk(call.fn.node) if isinstance(s, ast.Assign) and coro and (M.contains(s.value, f"asyncio.Task({coro}, ...)") or M.contains(s.value, f"$L.create_task({coro})"))]
        tnames = {s.targets[0].id for s in tasks if isinstance(s.targets[0], ast.Name)}
        shields = [a for a in prog.awaits_in(call.fn.node) if M.match(M.compile_pat("asyncio.shield($T)"), a.value) is not None and norm.raw(a.value.args[0]) in tnames]
        kept = any(M.contains(call.fn.node, f"self._background_tasks.add({t})") for t in tnames)
        if tasks and shields and kept and len(tnames) == 1:
            chk.ok("C11.shield", call, "compress-and-send runs in its own Task, is kept referenced in _background_tasks and awaited only through asyncio.shield")
        else:
            chk.violation("C11.shield", call, K.short(call), f"tasks={len(tasks)} shield={len(shields)} kept={kept}", "the compress-and-send task is not shielded / not kept referenced")
    # the locked coroutine holds the lock around compressor access and write
    wcalls = [c for f in als for c, _b in K.exprs(f, "self._write_websocket_frame(...)")]
    if wcalls and all(under_lock(c) for c in wcalls):
        chk.ok("C11.lock", wcalls[0], "the executor-compressed frame is written while the send lock is still held")
    else:
        chk.violation("C11.lock", al, "self._write_websocket_frame(...)", "inside async with self._send_lock", "compressed output can be written after the lock was released (frames reorder)")

    # ---- C11.len (T14, T13) ----------------------------------------------------------------------------------------
    hm = repo.module(HM)
    fmts = {}
    for nm in ("PACK_LEN1", "PACK_LEN2", "PACK_LEN3", "UNPACK_LEN3", "PACK_RANDBITS", "PACK_CLOSE_CODE", "UNPACK_CLOSE_CODE"):
        v = hm.consts.get(nm)
        b = M.match(M.compile_pat("Struct($F).$M"), v) if v is not None else None
        if b is None or not isinstance(b["F"], ast.Constant):
            raise AnalysisError(f"C11.len: cannot fold struct format of {nm}")
        fmts[nm] = b["F"].value
    # Each of the three RFC 6455 length forms is used for exactly the lengths its field can (and must) carry.  The range is read off the path
    # condition of the packer call, so the order of the branches and the spelling of the tests (`< 126` / `> 125` / `<= 125`, if-elif chain
    # from the small or from the large end, guards) do not matter: 7-bit form for [0, 125], 16-bit form for [126, 2**16 - 1], 64-bit form above.
    want = [("PACK_LEN1", None, "!BB", (0, 125)), ("PACK_LEN2", 126, "!BBH", (126, 2 ** WIDTH["H"] - 1)), ("PACK_LEN3", 127, "!BBQ", (2 ** WIDTH["H"], None))]
    FLIP = {ast.Lt: ast.Gt, ast.Gt: ast.Lt, ast.LtE: ast.GtE, ast.GtE: ast.LtE}

    def length_range(call, subject: str):
        """(lo, hi, not understood): the lengths for which `call` is reached, from the unit literals of its path condition that compare `subject`
        (the text of the length argument, locals resolved) with a constant."""
        lo, hi, unknown = None, None, []
        for lit in PC.units(PC.pc(call)):
            try:
                e = ast.parse(lit.text, mode="eval").body
            except SyntaxError:
                continue
            if not any(norm.raw(x) == subject for x in ast.walk(e)):
                continue  # a test of something else
            bound = None
            if isinstance(e, ast.Compare) and len(e.ops) == 1 and type(e.ops[0]) in FLIP:
                left, op, right = e.left, type(e.ops[0]), e.comparators[0]
                if norm.raw(right) == subject:
                    left, op, right = right, FLIP[op], left
                if norm.raw(left) == subject:
                    try:
                        v = folder.eval(wf.module, right)
                        bound = v if isinstance(v, int) and not isinstance(v, bool) else None
                    except NotConst:
                        bound = None
            if bound is None:
                unknown.append(str(lit))
                continue
            # polarity folded in: !(x < N) is x >= N, ...
            if not lit.pos:
                op = {ast.Lt: ast.GtE, ast.GtE: ast.Lt, ast.Gt: ast.LtE, ast.LtE: ast.Gt}[op]
            if op is ast.Lt:
                hi = bound - 1 if hi is None else min(hi, bound - 1)
            elif op is ast.LtE:
                hi = bound if hi is None else min(hi, bound)
            elif op is ast.Gt:
                lo = bound + 1 if lo is None else max(lo, bound + 1)
            else:
                lo = bound if lo is None else max(lo, bound)
        return lo, hi, unknown

    packers = {p: [c for c, _b in M.find(wf.node, f"{p}(...)")] for p, _m, _f, _r in want}
    if not all(packers.values()):
        chk.violation("C11.len", wf, "if msg_length < 126 / elif msg_length < 65536 / else", f"packers used: {', '.join(p for p, cs in packers.items() if cs) or 'none'}", "frame length encoding no longer has the three RFC 6455 forms")
    else:
        for packer, marker, fmt, (wlo, whi) in want:
            if fmts[packer] != fmt:
                chk.violation("C11.len", wf, packer, f"{packer} with format {fmt}", f"length form {packer} does not have the format {fmt} (has {fmts.get(packer)})")
                continue
            for c in packers[packer]:
                args = [norm.raw(a) for a in c.args]
                length_field = fmt[-1] if fmt != "!BB" else None
                # the argument that carries the length: the 7-bit field itself (or-ed with the mask bit) or the extended length field
                if packer == "PACK_LEN1":
                    b = M.match(M.compile_pat("PACK_LEN1(first_byte, $L | mask_bit)"), c) or M.match(M.compile_pat("PACK_LEN1(first_byte, mask_bit | $L)"), c)
                else:
                    b = M.match(M.compile_pat(f"{packer}(first_byte, {marker} | mask_bit, $L)"), c) or M.match(M.compile_pat(f"{packer}(first_byte, mask_bit | {marker}, $L)"), c)
                subject = norm.text(b["L"], c) if b is not None else None
                lo, hi, unknown = length_range(c, subject) if subject is not None else (None, None, [])
                # the payload length is never negative: no lower bound is the bound 0
                lo = max(lo or 0, 0)
                ok = b is not None and subject == f"len({wf.node.args.args[1].arg})" and not unknown and lo == wlo and hi == whi
                rng = f"[{lo}, {hi if hi is not None else 'inf'}]"
                if ok:
                    chk.ok("C11.len", c, f"length form {rng}: {packer}({', '.join(args)}) with format {fmt}" + (f", threshold {wlo if whi is None else whi + 1} = 2**{WIDTH['H']}" if length_field else ""))
                else:
                    chk.violation("C11.len", c, K.short(c), f"lengths {rng}{' (not understood: ' + ', '.join(unknown) + ')' if unknown else ''}, args {args}",
                                  f"length form {packer} is used for the lengths {rng}, wanted [{wlo}, {whi if whi is not None else 'inf'}]: inconsistent with the width of its length field ({fmt})")
    # reader side
    rf = repo.func(RM, "WebSocketReader._feed_data")
    r126 = [i for i in ast.walk(rf.node) if isinstance(i, ast.If) and norm.raw(i.test) == "len_flag == 126"]
    if r126 and M.contains(r126[0], "self._payload_bytes_to_read = first_byte << 8 | second_byte") and fmts["UNPACK_LEN3"] == "!Q" and M.contains(rf.node, "UNPACK_LEN3($D, start_pos)"):
        el = r126[0].orelse[0] if r126[0].orelse and isinstance(r126[0].orelse[0], ast.If) else None
        if el is not None and norm.raw(el.test) == "len_flag > 126":
            chk.ok("C11.len", r126[0], "reader: 126 -> 2 bytes big-endian, 127 -> 8 bytes (!Q), else the 7-bit value: the same three forms as the writer")
        else:
            chk.violation("C11.len", r126[0], "elif len_flag > 126", "", "reader's length forms differ from the writer's")
    else:
        chk.violation("C11.len", rf, "len_flag == 126 -> 16 bit; > 126 -> !Q", "", "reader's length decoding does not match the writer's struct formats")

    # ---- C11.mask (T5) ---------------------------------------------------------------------------------------------
    # One condition (the writer's use_mask, read directly or through a local) decides the mask bit of the header and the masking of the payload.
    # Recognised by what the definitions and the tests say, not by their shape: `0x80 if use_mask else 0`, `0 if not use_mask else 0x80`, one
    # assignment per branch of an if statement; `if use_mask: <masked> else: <plain>` or `if not use_mask: <plain> else: <masked>`.
    COND = "self.use_mask"

    def mask_bit_follows(cond: str) -> bool:
        """Every definition of the mask bit is 0x80 where `cond` holds and 0 where it does not, and both occur."""
        seen = set()
        for d, v in norm.fn_defs(wf.node).defs.get("mask_bit", []):
            if v is None:
                return False
            cases = [(v.body, norm.cnf(v.test, True, d)), (v.orelse, norm.cnf(v.test, False, d))] if isinstance(v, ast.IfExp) else [(v, [])]
            for e, extra in cases:
                try:
                    val = folder.eval(wf.module, e)
                except NotConst:
                    return False
                us = {(l.text, l.pos) for l in PC.units(PC.simplify(PC.pc(d) + extra))}
                if val == 0x80 and (cond, True) in us:
                    seen.add(True)
                elif val == 0 and val is not False and (cond, False) in us:
                    seen.add(False)
                else:
                    return False
        return seen == {True, False}

    def decided_by(test, ctx, cond: str):
        """True / False: the test is `cond` / its negation (locals resolved); None: something else"""
        cl = norm.cnf(test, True, ctx)
        if len(cl) == 1 and len(cl[0]) == 1 and next(iter(cl[0])).text == cond:
            return next(iter(cl[0])).pos
        return None

    mask_if = []  # (if statement, masked block, plain block) of the statements that choose how the frame is written
    for i in ast.walk(wf.node):
        if isinstance(i, ast.If) and (pol := decided_by(i.test, i, COND)) is not None and any(
                isinstance(c, ast.Call) and norm.raw(c.func) in ("self.transport.write", "websocket_mask") for s_ in i.body + i.orelse for c in ast.walk(s_)):
            mask_if.append((i, i.body, i.orelse) if pol else (i, i.orelse, i.body))
    if mask_bit_follows(COND) and mask_if:
        def masks(block):
            return M.contains(ast.Module(body=block, type_ignores=[]), "PACK_RANDBITS(self.get_random_bits())") and \
                any(M.contains(s, "websocket_mask(mask, $A)") for s in block) and any(M.contains(s, "self.transport.write(header + mask + $A)") for s in block)
        good = [m for m in mask_if if masks(m[1])]
        if good and fmts["PACK_RANDBITS"] == "!L":
            chk.ok("C11.mask", good[0][0], "mask bit and masking branch are decided by the same `use_mask`; the mask is a fresh 32-bit random value, applied before the write and sent after the header")
        else:
            chk.violation("C11.mask", mask_if[0][0], "if use_mask: mask = PACK_RANDBITS(...); websocket_mask(mask, arr); write(header + mask + arr)", "", "masking branch changed: mask not fresh / not applied / not sent")
        for _i, _masked, plain in mask_if:
            for s in ast.walk(ast.Module(body=plain, type_ignores=[])):
                if isinstance(s, ast.Call) and norm.raw(s.func) == "websocket_mask":
                    chk.violation("C11.mask", s, K.short(s), "masking only when the mask bit is set", "payload is masked although the mask bit is clear")
    else:
        chk.violation("C11.mask", wf, "mask_bit = 0x80 if use_mask else 0 ... if use_mask:", "", "the mask bit and the masking branch are no longer decided by one variable")
    try:
        if folder.name(hm, "MASK_LEN") == 4:
            chk.ok("C11.mask", wf, "MASK_LEN == 4")
    except NotConst:
        pass
    # ---- C11.rsv (T5) ------------------------------------------------------------------------------------------------
    nw = 0
    for fn in wc.methods.values():
        for call, _b in K.exprs(fn, "self._write_websocket_frame($P, $O, $R)"):
            nw += 1
            p, r = call.args[0], call.args[2]
            from_compressor = "compressobj.compress" in norm.raw(p) or "compressobj.flush" in norm.raw(p)
            try:
                rv = folder.eval(fn.module, r)
            except NotConst:
                rv = None
            if from_compressor and rv == 0x40:
                ok2 = "removesuffix(WS_DEFLATE_TRAILING)" in norm.raw(p) and "Z_FULL_FLUSH if self.notakeover else ZLibBackend.Z_SYNC_FLUSH" in norm.raw(p)
                if ok2:
                    chk.ok("C11.rsv", call, f"{fn.name}: compressed payload <=> RSV1 (0x40); trailer stripped with the shared constant; flush mode follows notakeover")
                else:
                    chk.violation("C11.rsv", call, K.short(call, 70), "removesuffix(WS_DEFLATE_TRAILING) + Z_FULL_FLUSH iff notakeover", f"{fn.name}: compressed frame not finished as RFC 7692 7.2.1 requires")
            elif not from_compressor and rv == 0:
                chk.ok("C11.rsv", call, f"{fn.name}: raw payload <=> RSV1 clear")
            else:
                chk.violation("C11.rsv", call, K.short(call, 70), f"rsv={rv} compressed={from_compressor}", f"{fn.name}: RSV1 does not tell the truth about the payload (reader inflates raw data or delivers deflate bytes)")
    chk.expect_count("C11.rsv", nw, 3, "_write_websocket_frame call sites")
    # control opcodes never compressed
    compressed = {fn.name for fn in wc.methods.values() for call, _b in K.exprs(fn, "self._write_websocket_frame($P, $O, $R)")
                  if "compressobj.compress" in norm.raw(call.args[0]) or "compressobj.flush" in norm.raw(call.args[0])} - {"send_frame"}
    grew = True
    while grew:
        grew = False
        for fn in wc.methods.values():
            if fn.name in compressed or fn.name == "send_frame":
                continue
            if any((t := prog.resolve_call(repo, c)) is not None and t.cls is fn.cls and t.name in compressed for c in prog.calls_in(fn.node)):
                compressed.add(fn.name)
                grew = True
    comp_calls = [c for c in prog.calls_in(sf.node) if (t := prog.resolve_call(repo, c)) is not None and t.cls is sf.cls and t.name in compressed]
    if len(comp_calls) < 2:
        chk.analysis_error("C11.rsv: compressed send paths not found in send_frame")
    for c in comp_calls:
        K.require_lits(chk, "C11.rsv", c, [([("opcode < WS_CONTROL_FRAME_OPCODE", True), ("opcode >= WS_CONTROL_FRAME_OPCODE", False)], True, "data opcode")],
                       "control frames (opcode >= 8) never take a compressed path")
    try:
        if folder.name(repo.module(WM), "WS_CONTROL_FRAME_OPCODE") == 8:
            chk.ok("C11.rsv", sf, "WS_CONTROL_FRAME_OPCODE folds to 8")
        else:
            chk.violation("C11.rsv", sf, "WS_CONTROL_FRAME_OPCODE", "8", "control/data opcode boundary is not 8")
    except NotConst as e:
        raise AnalysisError(f"C11.rsv: {e}")
    rd = repo.func(RM, "WebSocketReader._handle_frame")
    if M.contains(rd.node, "$P + WS_DEFLATE_TRAILING"):
        r1 = repo.resolve_name(repo.module(RM), "WS_DEFLATE_TRAILING")
        r2 = repo.resolve_name(repo.module(WM), "WS_DEFLATE_TRAILING")
        if r1 and r2 and r1[2] is r2[2]:
            chk.ok("C11.rsv", rd, "reader appends the very constant the writer strips (WS_DEFLATE_TRAILING)")
        else:
            chk.violation("C11.rsv", rd, "WS_DEFLATE_TRAILING", "same constant in reader and writer", "reader and writer disagree on the deflate trailer")
    else:
        chk.violation("C11.rsv", rd, "assembled_payload + WS_DEFLATE_TRAILING", "", "reader does not restore the deflate trailer")
    # ---- C11.closing -------------------------------------------------------------------------------------------------
    n = K.find_rejection(chk, "C11.closing", sf, [("self._closing", True, "close frame already sent"), ("opcode & WSMsgType.CLOSE", False, "not a close frame")], None,
                         "no frame after close", strict_extra=True, allowed_extra=[])
    if n is not None:
        gsf = cfg_of(sf.node)
        ctest = [x for x in gsf.nodes if x.kind == "test" and "self._closing" in norm.raw(x.ast)]
        effects = [x for x in gsf.nodes if x.in_finally_copy is None and isinstance(x.ast, ast.AST) and (K.node_suspends(x, repo) or K.node_has(x, "self._write_websocket_frame(...)") or K.node_has(x, "self._get_compressor(...)"))]
        pth = gsf.find_path([gsf.entry], lambda x: x in effects, lambda x: x in ctest, EXPLICIT)
        if ctest and pth is None:
            chk.ok("C11.closing", n, "send_frame tests the closing flag before it suspends, compresses or writes anything")
        else:
            chk.violation("C11.closing", n, K.short(n), "closing test before any await / write", "work happens before the closing test", path=gsf.fmt_path(pth) if pth else "")
    cf = repo.func(WM, f"{W}.close")
    fin = [s for s, _b in K.stmts(cf, "self._closing = True") if K.in_finally(s) is not None]
    aw0 = min((a.lineno for a in prog.awaits_in(cf.node)), default=10**9)
    early = [s for s, _b in K.stmts(cf, "self._closing = True") if not PC.pc(s) and s.lineno < aw0 and s.parent is cf.node]
    if early:
        chk.ok("C11.closing", early[0], "close(): _closing is set before the first suspension point (no data frame can be accepted while the Close frame is on its way)")
    elif fin:
        chk.ok("C11.closing", fin[0], "close(): _closing is set in a finally (also when sending the close frame failed or was cancelled)")
    else:
        chk.violation("C11.closing", cf, "finally: self._closing = True", "", "a failed/cancelled close leaves the writer open for data frames")
    # no data frame after Close (RFC 6455 5.5.1): frames that passed the closing test and are compressing / waiting for the send lock must reach
    # the wire before the Close frame, so close() goes through the same lock
    closes = [c for c, _b in K.exprs(cf, "self.send_frame(...)")]
    if closes and all(under_lock(c) for c in closes) and (early or any(s_.lineno < closes[0].lineno for s_, _b in K.stmts(cf, "self._closing = True"))):
        chk.ok("C11.closing", closes[0], "close(): the Close frame is written under the send lock, after _closing was set: frames already inside send_frame() go first, none can follow")
    else:
        chk.violation("C11.closing", closes[0] if closes else cf, K.short(closes[0], 60) if closes else "send_frame(CLOSE)", "self._closing = True; async with self._send_lock: send_frame(CLOSE)",
                      "the Close frame is written without the send lock and _closing is set only afterwards: a large compressed message still in the executor (or a small one queued on the lock) is written *after* Close - the peer, which stops reading at Close, loses it although send_bytes() returned normally")
    # a frame that passed the closing test joins the send-lock queue in the same synchronous step: a task that takes the lock must start eagerly
    spawns = [c for c in prog.calls_in(sf.node) if norm.raw(c.func) in ("asyncio.Task", "asyncio.create_task", "asyncio.ensure_future", "loop.create_task", "asyncio.get_running_loop().create_task", "self._loop.create_task")
              or (isinstance(c.func, ast.Attribute) and c.func.attr == "create_task")]
    nsp = 0
    for c in spawns:
        nsp += 1
        kw = {k.arg: k.value for k in c.keywords}
        eager = norm.raw(c.func) == "asyncio.Task" and isinstance(kw.get("eager_start"), ast.Constant) and kw["eager_start"].value is True
        old = PC.has_lit(PC.pc(c), [("sys.version_info >= (3, 12)", False), ("sys.version_info < (3, 12)", True)], True) is not None
        if eager:
            chk.ok("C11.closing", c, "the shielded send task starts eagerly: it queues on the send lock before send_frame() can be overtaken by close()")
        elif old:
            chk.ok("C11.closing", c, "fallback for interpreters without eager tasks (< 3.12) only")
        else:
            chk.violation("C11.closing", c, K.short(c), "asyncio.Task(coro, loop=loop, eager_start=True)",
                          "the task that takes the send lock for a large compressed frame only starts on the next loop iteration: the frame has already passed the `_closing` test, a close() issued in between finds the lock free and writes the Close frame first, and the data frame follows Close on the wire")
    chk.expect_count("C11.closing.spawn", nsp, 2, "task creations in send_frame()")
    # ---- C11.lock (ownership): the send lock is per writer, so the deflate context it guards must be per writer too ----------------------------
    gc = repo.func(WM, f"{W}._get_compressor")
    nret = 0
    for r in [r for r in ast.walk(gc.node) if isinstance(r, ast.Return) and r.value is not None]:
        nret += 1
        v = norm.subst(r.value, r)
        own = (isinstance(v, ast.Call) and norm.raw(v.func) == "ZLibCompressor") or (isinstance(v, ast.Attribute) and isinstance(v.value, ast.Name) and v.value.id == "self")
        if own:
            chk.ok("C11.lock", r, f"_get_compressor(): `{K.short(v, 40)}` is a context of this writer (its own attribute or freshly built for the message)")
        else:
            chk.violation("C11.lock", r, K.short(r, 60), "self._compressobj or a ZLibCompressor built for this message",
                          "_get_compressor() hands out a deflate context that lives outside the writer (module-level / shared between connections): _send_lock and the shield are per writer, so while one connection's message over 16 KiB is being compressed in the executor another connection compresses and flushes on the same zlib object - its frame carries the tail of the other connection's message, and the large message loses it")
    chk.expect_count("C11.lock.owner", nret, 2, "return statements of _get_compressor")
    # ---- C11.bytelen: frame lengths are byte counts; len() of a memoryview counts items ---------------------------------------------------
    bytelen(chk, repo, sf, "message", "C11.bytelen")
    frame_atomic(chk, repo, wc)
    hunt5_rules(chk, repo, wc, folder)
    # ---- C11.copy: what reaches the transport is not a buffer the caller can still change ---------------------------------------------
    wf = repo.func(WM, f"{W}._write_websocket_frame")
    params = {a.arg for a in wf.node.args.args[1:]}
    ncp = 0
    for c in prog.calls_in(wf.node):
        if norm.raw(c.func) != "self.transport.write" or not c.args:
            continue
        ncp += 1
        a = c.args[0]
        byref = isinstance(a, ast.Name) and a.id in params
        if byref:
            chk.violation("C11.copy", c, K.short(c), f"self.transport.write({a.id} if type({a.id}) is bytes else bytes({a.id}))",
                          f"the caller's own object `{a.id}` is handed to the transport, which (CPython 3.12+ selector transport) keeps a reference until the bytes are sent: send_bytes(bytearray) returns before that, a loop that refills its buffer overwrites frames not yet on the wire - the peer receives payloads of later messages under earlier headers")
        else:
            chk.ok("C11.copy", c, f"`{K.short(a, 50)}` is a new bytes object (or provably immutable)")
    chk.expect_count("C11.copy", ncp, 4, "transport.write calls in _write_websocket_frame")
    # a send that runs as its own (shielded) task outlives a cancelled caller: the payload it will read later must not be the caller's buffer
    gsf = cfg_of(sf.node)
    par0 = sf.node.args.args[1].arg
    MAKERS = ("asyncio.Task", "loop.create_task", "asyncio.create_task", "asyncio.ensure_future")

    def _is_maker(c):
        return isinstance(c, ast.Call) and (norm.raw(c.func) in MAKERS or (isinstance(c.func, ast.Attribute) and c.func.attr in ("create_task", "ensure_future")))

    def _own_send(c):
        return isinstance(c, ast.Call) and norm.raw(c.func).startswith("self._send_") and bool(c.args)

    def _immutable(e, depth=1):
        """bytes(x) / (x if type(x) is bytes else bytes(x)) / a local whose only definition is one of these"""
        if isinstance(e, ast.Call) and norm.raw(e.func) == "bytes":
            return True
        if isinstance(e, ast.IfExp) and "bytes" in norm.raw(e.test) and (_immutable(e.body, 0) or _immutable(e.orelse, 0)):
            return True
        if depth and isinstance(e, ast.Name) and e.id != par0:
            vals = [v for _d, v in norm.fn_defs(sf.node).defs.get(e.id, []) if v is not None]
            return len(vals) == 1 and _immutable(vals[0], 0)
        return False

    tasks = []  # (cfg node, the coroutine call)
    for n in gsf.nodes:
        if n.kind != "stmt" or not isinstance(n.ast, ast.Assign):
            continue
        v = n.ast.value
        # coro = self._send_x(payload, ..); Task(coro)      or      task = create_task(self._send_x(payload, ..))
        if _own_send(v) and any(_is_maker(c) and any(isinstance(a, ast.Name) and a.id == norm.raw(n.ast.targets[0]) for a in c.args) for c in ast.walk(sf.node)):
            tasks.append((n, v))
        else:
            for c in ast.walk(v):
                if _is_maker(c):
                    tasks += [(n, a) for a in c.args if _own_send(a)]
    copies = [n for n in gsf.nodes if n.kind == "stmt" and isinstance(n.ast, ast.Assign) and norm.raw(n.ast.targets[0]) == par0 and norm.raw(n.ast.value) == f"bytes({par0})"]
    tests = [n for n in gsf.nodes if n.kind == "test" and norm.raw(n.ast) in (f"type({par0}) is not bytes", f"not type({par0}) is bytes", f"not isinstance({par0}, bytes)")]
    if not tasks:
        chk.analysis_error("C11.copy: the coroutine that send_frame() runs as a task was not found")
    for t, call in tasks:
        a0 = call.args[0]
        if _immutable(a0):
            chk.ok("C11.copy", t.ast, f"`{K.short(t.ast, 60)}`: the task gets `{K.short(a0, 40)}`, an immutable copy")
            continue
        p1 = p2 = None
        if isinstance(a0, ast.Name) and a0.id == par0:
            p1 = gsf.find_path([gsf.entry], lambda n: n is t, lambda n: n in copies or n in tests, EXPLICIT)
            p2 = gsf.find_path(None, lambda n: n is t, lambda n: n in copies, EXPLICIT, start_edges=[(x, "T") for x in tests]) if tests else None
            if p1 is None and p2 is None:
                chk.ok("C11.copy", t.ast, f"`{K.short(t.ast, 60)}`: the task gets an immutable copy of a payload that is not bytes")
                continue
        chk.violation("C11.copy", t.ast, K.short(t.ast, 70), f"if type({par0}) is not bytes: {par0} = bytes({par0})",
                      "the shielded compress-and-send task keeps the caller's buffer: when the sender is cancelled (wait_for timeout) while the task waits for the lock or the executor, send_frame() returns, the caller refills its bytearray and the task later compresses and sends the new content under the old message",
                      path=gsf.fmt_path(p1 or p2) if (p1 or p2) else "")
    # ---- C11.rx: "however the frames are segmented in transit" - the reader's resumable-state rules are shared with C12 ----
    from rules import C12

    chk.include(C12.run, ("C12.rp", "C12.reset", "C12.mask"), ("C12.", "C11.rx."))
    # (round 7, seed C11-7) frames held back by flow control are part of the sequence that was sent (rule shared with C12 / C13)
    C12.hold_rule(chk, repo, "C11.rx.hold", "the frames held back by flow control are lost: the receiver gets a correct prefix of the messages that were sent and then the end of the stream (`received 20 of 47 messages`), while the same frames read one per segment all arrive")


def bytelen(chk, repo, fn, param: str, rule: str):
    """Entry points that frame a caller-supplied buffer by its len(): a memoryview with items wider than one byte must be re-shaped first
    (len() counts items, the wire counts bytes)."""
    shape_tests = {id(x) for st in ast.walk(fn.node) if isinstance(st, ast.If) and "nbytes" in norm.raw(st.test) for x in ast.walk(st.test)}
    uses = [c for c in ast.walk(fn.node) if isinstance(c, ast.Call) and norm.raw(c.func) == "len" and c.args and norm.raw(c.args[0]) == param and id(c) not in shape_tests]
    own = set(fn.cls.methods) if getattr(fn, "cls", None) is not None else set()
    passed = [c for c in prog.calls_in(fn.node) if any(isinstance(a, ast.Name) and a.id == param for a in c.args) and isinstance(c.func, ast.Attribute) and norm.raw(c.func.value) == "self" and c.func.attr in own]
    first = min([c.lineno for c in uses + passed], default=None)
    if first is None:
        chk.analysis_error(f"{rule}: {fn.qualname} no longer measures or forwards `{param}`")
        return
    fixes = [st for st in fn.node.body if isinstance(st, ast.If) and st.lineno < first and ("memoryview" in norm.raw(st.test) or "nbytes" in norm.raw(st.test))
             and any(isinstance(x, ast.Assign) and norm.raw(x.targets[0]) == param and (".cast(" in norm.raw(x.value) or norm.raw(x.value).startswith("bytes(")) for x in ast.walk(st))]
    fixes += [st for st in fn.node.body if isinstance(st, ast.Assign) and st.lineno < first and norm.raw(st.targets[0]) == param and norm.raw(st.value).startswith("bytes(")]
    if fixes:
        chk.ok(rule, fixes[0], f"{fn.qualname}: `{param}` is re-shaped to bytes items before its len() is used for framing")
    else:
        chk.violation(rule, uses[0] if uses else passed[0], K.short(uses[0] if uses else passed[0]), f"if isinstance({param}, memoryview) and {param}.nbytes != len({param}): {param} = {param}.cast('B')",
                      f"{fn.qualname} frames `{param}` by len(): for a memoryview whose items are wider than one byte (array('I'), numpy) that is the item count, the header announces fewer bytes than are written and the peer parses the surplus payload as frame headers")
