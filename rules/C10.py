"""C10 Parsers are total and enforce their configured limits (DESIGN 5/C10)."""
from __future__ import annotations

import ast

from sa import match as M, norm, pc as PC, prog, rulekit as K
from sa.consteval import Folder, NotConst, RegexConst
from sa.effects import Effects
from sa.loader import AnalysisError
from rules import C01, C03

MOD = "aiohttp/http_parser.py"
PROTO = "aiohttp/web_protocol.py"
CPROTO = "aiohttp/client_proto.py"


def run(chk):
    repo = chk.repo
    folder = Folder(repo)
    errs = C01.http_error_classes(repo)
    chk.explanation = (
        "Decided statically: (total) the set of exception classes that can leave HttpRequestParser.feed_data/feed_eof - explicit raises, "
        "re-raises, resolved callees with virtual dispatch on the entry class, and the external-raiser table (int() without lexical gate, "
        "tuple-unpacking of split(), strict decode, yarl construction and lazily validated accessors, struct) minus enclosing handlers - is "
        "contained in the HttpProcessingError hierarchy, and every escaping class is caught by the handler that maps to 400 (server) / to a "
        "client error (client); (retention) every store of input-derived bytes into _tail/_lines/_chunk_tail/_trailer_lines is bounded by a "
        "limit check before the next exit, at re-entry, or by an allow-listed pause; (limits) = C03.rp/rp2/rp3."
    )
    chk.not_decided = "absence of hangs and of super-linear work in general (decided only: no constant pattern has a nested unbounded repetition, C10.regex.linear); exceptions of constructs outside the external-raiser table (e.g. IndexError on attacker-positioned indexes)."
    chk.explanation += " Also decided: the obs-fold loop compares a running total with max_field_size. After the defect hunt: framing errors are published on the body stream in their wrapped form; limit violations inside a chunked body are re-raised by the head parser."
    chk.explanation += " Second hunt: yarl's IndexError (empty host after a bracketed userinfo) is in the raiser table and must be converted like ValueError."
    chk.assumptions.append("external-raiser table of DESIGN section 2 is complete for what these parsers call; everything else is assumed not to raise")
    eff = Effects(repo, int_gate=lambda c: C01.int_cannot_raise(c, folder))

    # ---- C10.total -----------------------------------------------------------------------------------
    rq = repo.cls(MOD, "HttpRequestParser")
    rs = repo.cls(MOD, "HttpResponseParser")
    req_escapes = {}
    for m in ("feed_data", "feed_eof"):
        f = repo.method(rq, m)
        es = eff.escapes(f, rq)
        req_escapes[m] = es
        bad = [e for e in es if e.cls.split(".")[-1] not in errs]
        for e in bad:
            chk.violation("C10.total.request", e.site, K.short(K.stmt_of(e.site) or e.site), f"escapes as {e.cls}",
                          f"HttpRequestParser.{m}: {e.cls} ({e.why}) can leave the parser: it is not an HTTP protocol error, the server does not answer 400",
                          call_chain=" > ".join(e.chain))
        if not bad:
            chk.ok("C10.total.request", f, f"HttpRequestParser.{m}: {len(es)} escaping raise sites, classes {sorted({e.cls for e in es})} all within HttpProcessingError")
    # the request object reads the target's host outside any protection: what it reads must have been forced (and failed) inside the parser
    from rules import C05 as _C05

    _C05.url_validated(chk, repo, errs, "C10.total.url")
    if len(req_escapes["feed_data"]) < 20:
        chk.analysis_error(f"C10.total.request: only {len(req_escapes['feed_data'])} escaping sites seen in HttpRequestParser.feed_data (30+ confirmed): call resolution lost the parser")
    # the server's handler catches each escaping class
    for q in ("RequestHandler.data_received", "RequestHandler.finish_response"):
        f = repo.func(PROTO, q)
        for call, _b in K.exprs(f, "self._parser.feed_data($D, ...)"):
            hs = [h for _t, h in K.enclosing_try_handlers(call)]
            missing = sorted({e.cls for e in req_escapes["feed_data"] if not any(eff.caught_by(e.cls, h) for h in hs)})
            if missing:
                chk.violation("C10.total.server", call, K.short(call), f"handler for {missing}",
                              f"{q}: parser errors of class {missing} are not caught by the handler that produces the 400 response (they escape into the event loop)")
            else:
                chk.ok("C10.total.server", call, f"{q}: every class the request parser can raise is caught by `except {' / '.join(t for h in hs for t in PC.handler_types(h))}`")
    # client side: mapping, not containment
    f = repo.func(CPROTO, "ResponseHandler.data_received")
    calls = K.exprs(f, "self._parser.feed_data($D, ...)")
    if not calls:
        raise AnalysisError("C10.total.client: response parser feed not found")
    res_es = eff.escapes(repo.method(rs, "feed_data"), rs)
    for call, _b in calls:
        hs = [h for _t, h in K.enclosing_try_handlers(call)]
        missing = sorted({e.cls for e in res_es if not any(eff.caught_by(e.cls, h) for h in hs)})
        maps = any(M.contains(h, "self.set_exception($E, ...)") for h in hs)
        closes = any(M.contains(h, "self.transport.close()") for h in hs)
        if missing or not maps or not closes:
            chk.violation("C10.total.client", call, K.short(call), f"uncaught={missing} set_exception={maps} transport.close={closes}",
                          "client: a response-parser error is not turned into a client error on the connection (and the transport closed)")
        else:
            chk.ok("C10.total.client", call, f"client: all {len({e.cls for e in res_es})} classes the response parser raises are mapped to HttpProcessingError via set_exception and the transport is closed")
    cl = repo.func(CPROTO, "ResponseHandler.connection_lost")
    for call, _b in K.exprs(cl, "self._parser.feed_eof()"):
        hs = [h for _t, h in K.enclosing_try_handlers(call)]
        es = eff.escapes(repo.method(rs, "feed_eof"), rs)
        missing = sorted({e.cls for e in es if not any(eff.caught_by(e.cls, h) for h in hs)})
        if missing:
            chk.violation("C10.total.client", call, K.short(call), f"handler for {missing}", "connection_lost(): feed_eof errors escape into the event loop")
        else:
            chk.ok("C10.total.client", call, "connection_lost(): errors of feed_eof() are caught and reported on the payload")
    chk.extra["effects_stats"] = dict(eff.stats)

    # ---- C10.retention ----------------------------------------------------------------------------------
    retention(chk, repo)
    fold_limit(chk, repo)
    body_error_rules(chk, repo)
    message_text_rule(chk, repo)

    # ---- C10.limits (= C03.rp, rp2, rp3) -------------------------------------------------------------------
    hp = repo.func(MOD, "HttpParser.feed_data")
    pp = repo.func(MOD, "HttpPayloadParser.feed_data")
    for fn, nm in ((hp, "message-head parser"), (pp, "body parser")):
        _c, bufs, offs, loop = C03.rp_rule(chk, "C10.limits.rp", repo, fn, f"{nm}: limit decisions are independent of call boundaries")
    C03.limits_rule(chk, "C10.limits.rp2", hp, "start line / header line limits", "_tail")
    C03.limits_rule(chk, "C10.limits.rp2", pp, "chunk-size / trailer line limits", "_chunk_tail")
    # configured limits reach the parser: RequestHandler passes its arguments through
    ctor = K.exprs(repo.func(PROTO, "RequestHandler.__init__"), "HttpRequestParser($A, ...)")
    if ctor:
        kw = {k.arg: norm.raw(k.value) for k in ctor[0][0].keywords}
        want = {"max_line_size": "max_line_size", "max_field_size": "max_field_size", "max_headers": "max_headers"}
        bad = {k: kw.get(k) for k, v in want.items() if kw.get(k) != v}
        if bad:
            chk.violation("C10.limits.config", ctor[0][0], K.short(ctor[0][0], 60), str(bad), "the server does not hand its configured limits to the request parser")
        else:
            chk.ok("C10.limits.config", ctor[0][0], "RequestHandler passes max_line_size / max_field_size / max_headers to the parser unchanged")
    for call, _b in K.exprs(hp, "HttpPayloadParser($P, ...)"):
        kw = {k.arg: norm.raw(k.value) for k in call.keywords}
        want = {"max_line_size": "self.max_line_size", "max_field_size": "self.max_field_size", "max_trailers": "max_trailers"}
        bad = {k: kw.get(k) for k, v in want.items() if kw.get(k) != v}
        if bad:
            chk.violation("C10.limits.config", call, K.short(call, 60), str(bad), "the body parser does not inherit the head parser's limits")
        else:
            chk.ok("C10.limits.config", call, "body parser inherits max_line_size / max_field_size / trailer budget")
    mt = [d for d in norm.fn_defs(hp.node).def_nodes("max_trailers")]
    if mt and all(norm.raw(getattr(d, "value", None)) == "self.max_headers - len(self._lines)" for d in mt if getattr(d, "value", None) is not None):
        chk.ok("C10.limits.config", mt[0], "trailer budget = max_headers - header lines of this message")
    else:
        chk.violation("C10.limits.config", hp, "max_trailers = self.max_headers - len(self._lines)", "trailer budget", "the number of trailer fields is not bounded by the header budget")
    hunt3_rules(chk, repo, hp)
    hunt4_rules(chk, repo)
    regex_cost_rule(chk, repo, folder)
    hunt5_rules(chk, repo)
    round7_rules(chk, repo)


_RE_FUNCS = ("re.compile", "re.match", "re.fullmatch", "re.search", "re.sub", "re.subn", "re.split", "re.findall", "re.finditer")


def regex_cost_rule(chk, repo, folder, rule="C10.regex.linear"):
    """Rule written after seeding round 6 (seed C10-6): no pattern applied to peer input has a nested unbounded repetition.
    Python's matcher backtracks: `(?:[plain]+|%XX)+` tries every way to split a run of n plain characters between the inner and the outer
    loop before it reports a mismatch - 2**n steps for a 40-byte Host value followed by one character a host cannot contain.  The hazard is a
    property of the pattern's syntax tree (sa.regexlang.backtracking_hazards); every pattern that can be folded to a constant is examined."""
    from sa import regexlang
    if not regexlang._hazard_selfcheck():
        chk.analysis_error(f"{rule}: the hazard test does not separate its own positive and negative examples")
        return
    n = unfolded = 0
    sites = []
    for rel in repo.rels():
        mod = repo.module(rel)
        for c in ast.walk(mod.tree):
            if isinstance(c, ast.Call) and norm.raw(c.func) in _RE_FUNCS and c.args:
                # a pattern chosen by interpreter version (`a if sys.version_info < (3, 11) else b`): both are examined
                alts = [c.args[0].body, c.args[0].orelse] if isinstance(c.args[0], ast.IfExp) else [c.args[0]]
                sites += [(mod, c, a) for a in alts]
    for mod, c, parg in sites:
        if True:
            try:
                pat = folder.eval(mod, parg)
                flags = 0
                if norm.raw(c.func) == "re.compile":
                    fl = c.args[1] if len(c.args) > 1 else next((k.value for k in c.keywords if k.arg == "flags"), None)
                    flags = int(folder.eval(mod, fl)) if fl is not None else 0
            except (NotConst, TypeError, ValueError):
                unfolded += 1
                continue
            if isinstance(pat, RegexConst):
                pat, flags = pat.pattern, pat.flags
            if not isinstance(pat, (str, bytes)):
                unfolded += 1
                continue
            n += 1
            try:
                hz = regexlang.backtracking_hazards(pat, flags)
            except Exception as e:  # a pattern the stdlib parser refuses is someone else's finding
                unfolded += 1
                continue
            if hz and "nested" not in hz:
                chk.violation(rule, c, K.short(c, 100), "no unbounded repetition of the same characters right behind a lazy group: cut the run off first, or make the group greedy up to the separator",
                              f"in the pattern {pat!r:.120} a lazy repetition is followed by an unbounded repetition of characters it can match itself, and by something that can fail: the lazy group tries the rest after every character, and the rest scans the whole run before it fails - quadratic in the length of one header value (`Forwarded: for=a` + 8000 blanks + `b`: 0.3 s; 125 such fields, all within the default limits: half a minute of blocked event loop for one request)")
            elif hz:
                chk.violation(rule, c, K.short(c, 100), "an inner repetition that cannot be re-split by the outer one: (?:[plain]|%XX)+ instead of (?:[plain]+|%XX)+",
                              f"the pattern {pat!r:.120} repeats a group that can itself match a run of characters in one or in several rounds: a mismatch after n such characters costs 2**n steps - one short request line or header value (40 ordinary characters and a character the pattern refuses) keeps the event loop busy for hours")
            else:
                chk.ok(rule, c, f"{pat!r:.60}: no nested unbounded repetition")
    chk.expect_count(rule, n, 40, "patterns of the package folded to constants")
    chk.note = getattr(chk, "note", "")
    if unfolded:
        chk.ok(rule, repo.module(MOD).tree, f"{unfolded} pattern expression(s) are built at run time (re.escape of a boundary, a template) and are not examined")


def round7_rules(chk, repo):
    """Rule written after seeding round 7 (seed C10-7): a number parsed from hex text of the peer is not written out in decimal.
    int(text, 16) has no digit limit, but the conversion of the result to a decimal string has (4300 digits since CPython 3.11): a
    chunk-size line of 3572 hex digits - inside max_line_size - makes `f"... {size} ..."` raise ValueError while the *error message* is built,
    and that ValueError is not an HTTP protocol error."""
    n = 0
    for rel in (MOD, "aiohttp/web_protocol.py", "aiohttp/client_proto.py"):
        mod = repo.module(rel)
        for fn in mod.functions.values():
            big = {a.targets[0].id: a for a in ast.walk(fn.node) if isinstance(a, ast.Assign) and isinstance(a.targets[0], ast.Name) and isinstance(a.value, ast.Call)
                   and isinstance(a.value.func, ast.Name) and a.value.func.id == "int" and len(a.value.args) > 1 and getattr(a, "fn", None) is fn}
            if not big:
                continue
            for x in ast.walk(fn.node):
                nm = None
                if isinstance(x, ast.FormattedValue) and isinstance(x.value, ast.Name) and x.value.id in big:
                    spec = norm.raw(x.format_spec) if x.format_spec is not None else ""
                    if any(k in spec for k in ("x", "X", "o", "b")) and "d" not in spec:
                        continue
                    nm = x.value.id
                elif isinstance(x, ast.Call) and norm.raw(x.func) in ("str", "repr", "format") and x.args and isinstance(x.args[0], ast.Name) and x.args[0].id in big:
                    nm = x.args[0].id
                elif isinstance(x, ast.BinOp) and isinstance(x.op, ast.Mod) and isinstance(x.left, ast.Constant) and isinstance(x.left.value, (str, bytes)) and any(isinstance(y, ast.Name) and y.id in big for y in ast.walk(x.right)):
                    nm = next(y.id for y in ast.walk(x.right) if isinstance(y, ast.Name) and y.id in big)
                if nm is None:
                    continue
                n += 1
                st = K.stmt_of(x)
                bounded = any(l.pos and any(l.text.startswith(f"{nm} {op} ") for op in ("<", "<=")) or (not l.pos and any(l.text.startswith(f"{nm} {op} ") for op in (">", ">="))) for l in PC.units(PC.pc(st, raw=True)))
                handled = any(any(t_ in ("ValueError", "Exception") for t_ in PC.handler_types(h)) for _t, h in K.enclosing_try_handlers(st))
                if bounded or handled:
                    chk.ok("C10.total.decimal", x, f"{fn.qualname}: `{nm}` is written out only below a bound")
                else:
                    chk.violation("C10.total.decimal", st, K.short(st, 80), f"format {nm} in hex ({{{nm}:x}}) or leave it out of the message",
                                  f"{fn.qualname}: `{nm}` comes from int(<text of the peer>, 16) - any number of digits - and is formatted in decimal: for a chunk-size line of 3572 or more hex digits (well under max_line_size) the conversion raises ValueError before the protocol error is even built; HttpParser.feed_data() takes it for a non-protocol error, the body is marked complete and the server answers 500 instead of 400")
    if n == 0:
        chk.ok("C10.total.decimal", repo.module(MOD).tree, "no number parsed from hex text is formatted in decimal")


def hunt5_rules(chk, repo):
    """Rules written after the fifth defect hunt (F324, F325): the header-value parsers of the package behind the message parsers."""
    # ---- C10.scan.progress: a scanning loop moves forward -----------------------------------------------------------------------------------------------------
    # `pos = s.find(sep, pos) + 1` restarts the scan at 0 when the separator is not found (-1 + 1): the loop never ends, and it never yields -
    # `Forwarded: x` stops the whole server.  A position computed from find() is used only where `not found` has been dealt with.
    n = 0
    for rel in repo.rels():
        mod = repo.module(rel)
        for fn in mod.functions.values():
            for lp in [l for l in ast.walk(fn.node) if isinstance(l, ast.While)]:
                for a in ast.walk(lp):
                    if not isinstance(a, (ast.Assign, ast.AugAssign)) or getattr(a, "fn", None) is not fn:
                        continue
                    tgt = a.targets[0] if isinstance(a, ast.Assign) else a.target
                    if not isinstance(tgt, ast.Name) or tgt.id not in {x.id for x in ast.walk(lp.test) if isinstance(x, ast.Name)}:
                        continue
                    finds = [c for c in ast.walk(a.value) if isinstance(c, ast.Call) and isinstance(c.func, ast.Attribute) and c.func.attr in ("find", "rfind")]
                    names = [x for x in ast.walk(a.value) if isinstance(x, ast.Name)]
                    viaf = [x for x in names if any(v is not None and isinstance(v, ast.Call) and isinstance(v.func, ast.Attribute) and v.func.attr in ("find", "rfind") for _d, v in norm.fn_defs(fn.node).defs.get(x.id, []))]
                    if not finds and not viaf:
                        continue
                    n += 1
                    if finds and isinstance(a.value, ast.BoolOp) and isinstance(a.value.op, ast.Or) and isinstance(a.value.values[0], ast.BinOp):
                        chk.ok("C10.scan.progress", a, f"{fn.qualname}: `find() + 1 or <end>`: `not found` (0) falls through to the end of the input")
                        continue
                    if finds and isinstance(a.value, (ast.BinOp,)):
                        chk.violation("C10.scan.progress", a, K.short(a), "end = s.find(sep, pos); if end < 0: end = len(s); ...; pos = end + 1",
                                      f"{fn.qualname}: the loop position is find() + k with no test of `not found`: -1 + 1 restarts the scan at 0 and the loop never ends nor yields - one request with `Forwarded: x` (or `for=a;b`, `for=\"a\";q`) hangs BaseRequest.forwarded and with it the whole server: no other connection is answered")
                        continue
                    def dealt(x):
                        # an `if` / conditional expression of the loop asks whether the result is negative, or the assignment itself is under
                        # a comparison of the result with a valid position (`pos == start_pos`, `pos >= start_pos`)
                        if any(isinstance(i, (ast.If, ast.IfExp)) and x.id in norm.raw(i.test) and any(t in norm.raw(i.test) for t in ("< 0", ">= 0", "== -1", "!= -1", "> -1")) for i in ast.walk(lp)):
                            return True
                        for l in PC.units(PC.pc(a, raw=True)):
                            try:
                                e = ast.parse(l.text, mode="eval").body
                            except SyntaxError:
                                continue
                            if l.pos and isinstance(e, ast.Compare) and isinstance(e.left, ast.Name) and e.left.id == x.id and isinstance(e.ops[0], (ast.Eq, ast.GtE, ast.Gt)):
                                return True
                        # ... or a disjunct of an enclosing test does (the other disjunct being another way of saying `found`)
                        for i in prog.enclosing(a, (ast.If,)):
                            if any(isinstance(e, ast.Compare) and isinstance(e.left, ast.Name) and e.left.id == x.id and isinstance(e.ops[0], (ast.Eq, ast.GtE, ast.Gt)) for e in ast.walk(i.test)):
                                return True
                        return False
                    handled = all(dealt(x) for x in viaf)
                    if handled:
                        chk.ok("C10.scan.progress", a, f"{fn.qualname}: the position comes from a find() result whose `not found` (-1) is handled in the loop")
                    else:
                        chk.violation("C10.scan.progress", a, K.short(a), "if end < 0: end = len(s)", f"{fn.qualname}: the loop position is computed from a find() result that may be -1: the scan can move backwards and never end")
    chk.expect_count("C10.scan.progress", n, 1, "loop positions computed from str.find()")
    # ---- C10.total.header: header values are not handed to the parser of the email package ---------------------------------------------------------------------
    bad = []
    for rel in repo.rels():
        mod = repo.module(rel)
        for x in ast.walk(mod.tree):
            if isinstance(x, ast.ImportFrom) and x.module and x.module.startswith("email.") and x.module.split(".")[1] in ("parser", "message", "feedparser", "policy", "headerregistry", "_header_value_parser"):
                bad.append((mod, x))
            elif isinstance(x, ast.Call) and norm.raw(x.func) in ("email.message_from_string", "email.message_from_bytes"):
                bad.append((mod, x))
    if bad:
        for mod, x in bad:
            chk.violation("C10.total.header", x, K.short(x), "a linear splitter of the package (parse_mimetype / parse_header_parameters)",
                          f"{mod.rel} parses a header value of the peer with the email package: its header parser raises IndexError (`Content-Type: text/plain; charset*`) and RecursionError (600 `(`) - neither an HTTP error nor a ClientError: request.text() / .json() / .post() answer 500, resp.json() raises the bare exception - and it is quadratic in the number of `;` (an 8 kB Content-Type costs 0.5 s of blocked event loop, the 126 joined fields the client's lax parser admits cost hours)")
    else:
        chk.ok("C10.total.header", repo.module("aiohttp/helpers.py").tree, "no module of the package hands a header value to the email package's parser (parse_content_type() uses the linear parameter splitter)")


def hunt3_rules(chk, repo, hp):
    """Rules written after the third defect hunt (F184-F186)."""
    from sa.dtable import Evaluator
    # ---- C10.limits.config: every client response parser is configured with the session's limits ----------------------------------------------
    LIM = ("max_line_size", "max_field_size", "max_headers")
    n = 0
    for m in repo.all_modules():
        if m.rel.endswith(("test_utils.py", "pytest_plugin.py")):
            continue
        for fn in m.functions.values():
            for c in prog.calls_in(fn.node):
                if not (isinstance(c.func, ast.Attribute) and c.func.attr == "set_response_params"):
                    continue
                n += 1
                kws = {k.arg for k in c.keywords}
                if any(k.arg is None and norm.raw(k.value).endswith("._response_params") for k in c.keywords) or all(l in kws for l in LIM):
                    chk.ok("C10.limits.config", c, f"{fn.qualname}: the response parser gets the request's max_line_size / max_field_size / max_headers")
                else:
                    chk.violation("C10.limits.config", c, K.short(c, 60), ", ".join(l for l in LIM if l not in kws),
                                  f"{fn.qualname} configures a response parser without the session's limits: the answer of the proxy to CONNECT is parsed with the built-in 8190 / 128 whatever max_line_size / max_field_size / max_headers the session was given")
    chk.expect_count("C10.limits.config", n, 2, "set_response_params() call sites")
    # ---- C10.total.leadcrlf: the blank line before a start line is skipped in both line disciplines --------------------------------------------
    skip = [i for i in ast.walk(hp.node) if isinstance(i, ast.If) and i.body and isinstance(i.body[-1], ast.Continue) and "self._lines" in norm.raw(i.test) and M.contains(i.test, "pos == start_pos")]
    if not skip:
        chk.analysis_error("C10.total.leadcrlf: the blank-line skip (`if ... pos == start_pos ...: continue`) of HttpParser.feed_data was not found")
    else:
        t = skip[0].test  # as written: norm.subst would replace the parameter SEP by its default, and SEP is one of the table's axes
        calls = {norm.raw(c) for c in ast.walk(t) if isinstance(c, ast.Call)} | {norm.raw(c) for c in ast.walk(skip[0].test) if isinstance(c, ast.Call)}
        rows = {}
        try:
            # strict: lines end in CRLF, blank line <=> pos == start_pos.  lax: lines end in LF, a blank CRLF line has pos == start_pos + 1
            for name, env in (("strict CRLF", {"SEP": b"\r\n", "pos": 0, "crlf": True}), ("lax LF", {"SEP": b"\n", "pos": 0, "crlf": False}), ("lax CRLF", {"SEP": b"\n", "pos": 1, "crlf": True}),
                              ("lax text", {"SEP": b"\n", "pos": 16, "crlf": False}), ("strict text", {"SEP": b"\r\n", "pos": 15, "crlf": False})):
                e = {"self._lines": [], "start_pos": 0, "SEP": env["SEP"], "pos": env["pos"], "data_len": 40}
                for c in calls:
                    if "startswith" in c and "\\r\\n" in c:
                        e[c] = env["crlf"]
                    elif ".find(" in c:
                        e[c] = env["pos"]  # `pos` spelled out: data.find(SEP, start_pos)
                rows[name] = bool(Evaluator(e).ev(t))
        except AnalysisError as ex:
            rows = {"error": str(ex)}
        want = {"strict CRLF": True, "lax LF": True, "lax CRLF": True, "lax text": False, "strict text": False}
        if rows == want:
            chk.ok("C10.total.leadcrlf", skip[0], "feed_data(): a blank line before the start line is skipped whether lines are split at CRLF (strict) or at LF (lax, CR left in the line)")
        elif "error" in rows:
            chk.analysis_error(f"C10.total.leadcrlf: the blank-line skip test could not be evaluated: {rows['error']}")
        else:
            chk.violation("C10.total.leadcrlf", skip[0], K.short(skip[0], 70), "or (SEP == b'\\n' and data.startswith(b'\\r\\n', start_pos))",
                          f"blank-line skip by line discipline {rows}: the lax response parser splits at LF, so the CRLF a server sends before its status line leaves `\\r` as the start line - BadStatusLine for a response the strict parser and RFC 9112 2.2 accept")
    # ---- C10.total.lower: str.lower() is compared with a coding / token name only on ASCII text --------------------------------------------
    mod = repo.module(MOD)
    nl = 0
    for fn in mod.functions.values():
        for cmpn in [c for c in ast.walk(fn.node) if isinstance(c, ast.Compare)]:
            left = cmpn.left
            if not (isinstance(left, ast.Call) and isinstance(left.func, ast.Attribute) and left.func.attr == "lower" and not left.args):
                continue
            subj = norm.raw(left.func.value)
            if subj in ("name",) and fn.qualname.endswith("parse_headers"):
                continue  # field names matched the token grammar (ASCII) before they get here
            nl += 1
            asc = f"{subj}.isascii()"
            ok = False
            cur = cmpn
            while getattr(cur, "parent", None) is not None and not isinstance(cur, ast.stmt):
                par = cur.parent
                if isinstance(par, ast.BoolOp) and isinstance(par.op, ast.And) and any(norm.raw(v) == asc for v in par.values[: par.values.index(cur)]):
                    ok = True
                if isinstance(par, ast.comprehension) and any(asc in norm.raw(i) for i in par.ifs):
                    ok = True
                if isinstance(par, (ast.GeneratorExp, ast.ListComp, ast.SetComp)) and any(asc in norm.raw(i) for g_ in par.generators for i in g_.ifs):
                    ok = True
                cur = par
            if not ok and isinstance(cur, ast.stmt) and any(l.pos and l.text == asc for l in PC.units(PC.pc(cur, raw=True))):
                ok = True
            if ok:
                chk.ok("C10.total.lower", cmpn, f"{fn.qualname}: `{K.short(cmpn, 50)}` only after {asc}")
            else:
                chk.violation("C10.total.lower", cmpn, K.short(cmpn, 60), asc + " and ...",
                              f"{fn.qualname} lower-cases a header token before comparing it: str.lower() maps some non-ASCII characters to ASCII (KELVIN SIGN U+212A -> `k`), so `chun\u212aed` is taken for `chunked` here while every other HTTP implementation sees an unknown coding")
    chk.expect_count("C10.total.lower", nl, 5, "comparisons of <token>.lower() in http_parser.py")


def hunt4_rules(chk, repo):
    """Rule written after the fourth defect hunt (F256): a parser that raised is not fed again."""
    WP = "aiohttp/web_protocol.py"
    dr = repo.func(WP, "RequestHandler.data_received")
    feeds = [c for c in prog.calls_in(dr.node) if norm.raw(c.func) == "self._parser.feed_data"]
    if not feeds:
        chk.analysis_error("C10.retention.latch: RequestHandler.data_received no longer feeds self._parser")
        return
    for c in feeds:
        hs = [h for t_, h in K.enclosing_try_handlers(c) if prog.in_body_of(c, t_, "body") and "HttpProcessingError" in PC.handler_types(h)]
        latches = {norm.raw(a.targets[0]) for h in hs for a in ast.walk(h) if isinstance(a, ast.Assign) and isinstance(a.value, ast.Constant) and a.value.value is True and norm.raw(a.targets[0]).startswith("self._")}
        guarded = [l_ for l_ in latches if PC.has_lit(PC.pc(K.stmt_of(c), raw=True), l_, False) is not None]
        if guarded:
            chk.ok("C10.retention.latch", c, f"data_received(): once feed_data() has raised ({guarded[0]} set) the parser is not fed again - the queued 400 closes the connection")
        else:
            chk.violation("C10.retention.latch", c, K.short(c, 50), "if self._parse_failed: return   (flag set in `except HttpProcessingError`)",
                          "after feed_data() raised (LineTooLong, too many headers) every later read is fed to the same parser again: it prepends what it retained, raises again and queues another 400 - behind a slow pipelined request one endless request line grows the retained tail to megabytes against max_line_size=8190 and queues a 400 per read")


def _len_gt(lit, subject: str) -> bool:
    """lit text is `len(<subject>...) ... > L` or `<count expr of subject> > L`."""
    try:
        e = ast.parse(lit.text, mode="eval").body
    except SyntaxError:
        return False
    if isinstance(e, ast.Compare) and isinstance(e.ops[0], ast.Gt):
        return f"len({subject})" in norm.raw(e.left)
    return False


def retention(chk, repo, rule="C10.retention"):
    mod = repo.module(MOD)
    targets = {"_tail": "HttpParser", "_lines": "HttpParser", "_chunk_tail": "HttpPayloadParser", "_trailer_lines": "HttpPayloadParser"}
    n_sites = 0
    for attr, cname in targets.items():
        for fn, hits in prog.writers(repo, [MOD], attr).items():
            if fn.qualname.split(".")[0] != cname or fn.name == "__init__":
                continue
            for node, kind in hits:
                st = K.stmt_of(node)
                # what is stored?
                if kind == "assign":
                    vals = []
                    if isinstance(st, ast.Assign):
                        for t in st.targets:
                            if isinstance(t, ast.Tuple) and isinstance(st.value, ast.Tuple):
                                for tt, vv in zip(t.elts, st.value.elts):
                                    if norm.raw(tt) == f"self.{attr}":
                                        vals.append(vv)
                            elif norm.raw(t) == f"self.{attr}":
                                vals.append(st.value)
                    if all(isinstance(v, ast.Constant) and not v.value for v in vals):
                        continue  # cleared
                    val = vals[0] if vals else None
                elif kind == "call:append":
                    val = node.args[0]
                elif kind in ("call:clear", "call:pop"):
                    continue
                else:
                    val = None
                n_sites += 1
                cl = PC.pc(st)
                vtxt = norm.raw(val) if val is not None else ""
                reasons = []
                # (a) the stored value was length-checked before - directly, or through a local that starts as len(<value>) and is only
                # ever decreased (`line_len = len(line); line_len -= line.endswith(b"\r")`): an upper bound of the stored length while the
                # value itself only shrinks (rstrip)
                def _bound_local(l):
                    try:
                        e = ast.parse(l.text, mode="eval").body
                    except SyntaxError:
                        return False
                    if not (isinstance(e, ast.Compare) and isinstance(e.ops[0], ast.Gt) and isinstance(e.left, ast.Name)):
                        return False
                    ds = norm.fn_defs(fn.node).defs.get(e.left.id, [])
                    first = [v for d, v in ds if isinstance(d, ast.Assign) and v is not None]
                    rest = [d for d, v in ds if not isinstance(d, ast.Assign)]
                    return bool(first) and all(norm.raw(v) == f"len({vtxt})" for v in first) and all(isinstance(d, ast.AugAssign) and isinstance(d.op, ast.Sub) for d in rest)
                vtxts = {vtxt, norm.text(val, st)} if val is not None else set()  # a local that was measured stands for its value in the path condition
                if val is not None and any((not l.pos) and (any(_len_gt(l, v_) for v_ in vtxts) or _bound_local(l)) for l in PC.units(cl)):
                    reasons.append(f"`{vtxt}` passed its length limit before being stored")
                if val is not None and any(l.pos and M.match_text("len($C) < len($S)", l.text) is not None for l in PC.units(cl)):
                    reasons.append("at most a partial line terminator is stored")
                # (b)/(c) a limit on the container follows before the next exit
                blk = PC._block_of(st)
                later = blk[blk.index(st) + 1:] if blk else []
                follow = []
                for s2 in later:
                    if isinstance(s2, ast.If) and PC.terminates(s2.body) and any(isinstance(x, ast.Raise) for x in s2.body):
                        for c in norm.cnf(s2.test, True, s2):
                            for l in c:
                                if l.pos and _len_gt(l, f"self.{attr}"):
                                    follow.append(l.text)
                    if isinstance(s2, (ast.Return, ast.Break, ast.Continue)):
                        break
                if follow:
                    reasons.append("followed by the limit check " + " / ".join(follow))
                # (a check at re-entry only - first thing the next call does - is not enough: until then the over-long partial line is held, and a
                #  peer that stalls after it gets no 400: F257)
                # (e) allow-list: pauses bound the retained bytes by one transport read
                if PC.has_lit(cl, "self._paused", True) is not None:
                    reasons.append("stored while the reader is paused: reading from the transport is paused too, the remainder is at most one read (allow-listed)")
                if any(len(c) == 1 and "_msg_in_flight" in next(iter(c)).text for c in cl) or any("self._msg_in_flight < self._max_msg_queue_size" in l.text and not l.pos for c in cl for l in c):
                    reasons.append("queue-full branch: the protocol pauses the transport, the remainder is at most one read (allow-listed)")
                if fn.name == "feed_eof":
                    reasons.append("end of input: nothing can be appended afterwards")
                if attr == "_lines" and kind == "call:append" and fn.name == "feed_data":
                    # needs both the length and the count bound
                    if not (any("passed its length" in r for r in reasons) and follow):
                        reasons = []
                if reasons:
                    chk.ok(rule, st, f"retained `{attr}` <- `{K.short(st, 50)}`: " + "; ".join(reasons))
                else:
                    chk.violation(rule, st, K.short(st), f"limit check for self.{attr}",
                                  f"input-derived bytes are retained in self.{attr} without a limit check before the next exit or at re-entry: memory held for an incomplete line/header block is unbounded",
                                  path_condition=norm.fmt_cnf(cl)[:600])
    chk.expect_count(rule, n_sites, 9, "stores into the retention buffers")


def fold_limit(chk, repo, rule="C10.fold"):
    """Obsolete line folding (lax mode) joins continuation lines into one field value: the field-size limit must be applied to the
    accumulated size, i.e. the compared quantity is carried and increased across the iterations of the folding loop."""
    hp = repo.func(MOD, "HeadersParser.parse_headers")
    loops = [w for w in ast.walk(hp.node) if isinstance(w, ast.While) and norm.raw(w.test) == "continuation"]
    if not loops:
        raise AnalysisError("C10.fold: the `while continuation` folding loop of HeadersParser.parse_headers was not found")
    loop = loops[0]
    rz = [r for r, _c in K.raises_in(loop) if any(l is loop for l in K.loop_ancestors(r))]
    tests = [i for i in ast.walk(loop) if isinstance(i, ast.If) and any(r in list(ast.walk(i)) for r in rz) and "max_field_size" in norm.raw(i.test)]
    if not tests:
        chk.violation(rule, loop, "while continuation: ...", "if <accumulated size> > self.max_field_size: raise LineTooLong", "a folded field value is accumulated without a size limit inside the folding loop")
        return
    ok, seen = K.cumulative_in_loop(loop, tests[0].test)
    if ok:
        chk.ok(rule, tests[0], f"the folding loop compares a running total with max_field_size (`{norm.raw(tests[0].test)}`)")
    else:
        chk.violation(rule, tests[0], norm.raw(tests[0].test), "a quantity increased in every iteration (running total of the folded value)",
                      "the size test inside the folding loop looks at one continuation line at a time: a field folded over many lines grows to about max_headers x max_field_size although every single test passes")


def body_error_rules(chk, repo):
    """C10.payloaderr (F66): an error found in the chunk framing is published on the body stream in the documented wrapped form
    (payload_exception: ClientPayloadError / RequestPayloadError) - a reader already waiting for body data is woken with what is stored there.
    C10.swallow (F67): a syntax or limit violation inside a chunked body / its trailers loses the message boundary, so the head parser must
    re-raise it (400 / connection error) instead of storing it on the stream and going on to parse the following bytes as a new message."""
    pp = repo.cls(MOD, "HttpPayloadParser")
    raw = []
    for m in pp.methods.values():
        for c in prog.calls_in(m.node):
            if isinstance(c.func, ast.Name) and c.func.id == "set_exception" and c.args and norm.raw(c.args[0]) == "self.payload":
                wraps = any(isinstance(n, ast.Attribute) and n.attr in ("_payload_exception", "payload_exception") for n in ast.walk(m.node))
                (raw if not wraps else []).append((m, c))
                if wraps:
                    chk.ok("C10.payloaderr", c, f"HttpPayloadParser.{m.name}(): the error is stored on the body stream in its wrapped (payload_exception) form")
    for m, c in raw:
        chk.violation("C10.payloaderr", c, K.short(c, 60), "wrapped with the configured payload_exception",
                      f"HttpPayloadParser.{m.name}() stores the bare framing error on the body stream before raising; a consumer already awaiting the body (resp.read(), request.read()) is woken with TransferEncodingError - not a ClientError / not web.RequestPayloadError - while the same bytes in one read give the wrapped error")
    hp = repo.func(MOD, "HttpParser.feed_data")
    hs = [h for t in ast.walk(hp.node) if isinstance(t, ast.Try) for h in t.handlers if PC.handler_types(h) == ["Exception"] and any("_payload_parser.feed_data" in norm.raw(x) for x in t.body)]
    if not hs:
        chk.analysis_error("C10.swallow: handler around the body parser call not found in HttpParser.feed_data")
    for h in hs:
        rr = [r for r in ast.walk(h) if isinstance(r, ast.Raise) and r.exc is None]
        tests = [i for i in ast.walk(h) if isinstance(i, ast.If) and any(r in list(ast.walk(i)) for r in rr)]
        covered = any("BadHttpMessage" in norm.raw(i.test) or all(n in norm.raw(i.test) for n in ("LineTooLong", "TransferEncodingError", "InvalidHeader")) for i in tests)
        if rr and covered:
            chk.ok("C10.swallow", rr[0], "every protocol error of the body parser except a pure decoding failure is re-raised by the head parser")
        else:
            chk.violation("C10.swallow", tests[0] if tests else h, K.short(tests[0].test if tests else h, 70), "re-raise every BadHttpMessage except ContentEncodingError",
                          "limit violations inside a chunked body (over-long chunk-size line or extension, over-long trailer field, too many trailers) are stored on the body stream and swallowed: the rest of the read is dropped, the body parser forgotten, and the next read - bytes the sender put *inside* the body - is parsed as a new request")



REPR_CLASSES = {"BadStatusLine", "BadHttpMethod", "InvalidHeader", "LineTooLong"}  # format their argument with !r: surrogates are escaped


def message_text_rule(chk, repo, rule="C10.errtext"):
    """The message of a parse error becomes the text of the 400 response, which is encoded as UTF-8.  Wire bytes decoded with
    `surrogateescape` contain lone surrogates that UTF-8 refuses: such text may reach an error message only through a class that formats it
    with repr(); otherwise the server raises UnicodeEncodeError while building the 400 and the peer gets no answer at all."""
    mod = repo.module(MOD)
    n = 0
    for fn in [f for c in mod.classes.values() for f in c.methods.values()] + list(mod.functions.values()):
        defs = norm.fn_defs(fn.node).defs
        for call in prog.calls_in(fn.node):
            cname = norm.raw(call.func)
            if not (cname.endswith("Error") or cname in ("BadHttpMessage", "BadStatusLine", "BadHttpMethod", "InvalidHeader", "LineTooLong")) or "." in cname:
                continue
            for a in list(call.args) + [k.value for k in call.keywords]:
                exprs = [a] + [v for x in ast.walk(a) if isinstance(x, ast.Name) for _d, v in defs.get(x.id, []) if v is not None]
                se = [d for e in exprs for d in ast.walk(e) if isinstance(d, ast.Call) and isinstance(d.func, ast.Attribute) and d.func.attr == "decode"
                      and any(isinstance(x, ast.Constant) and x.value == "surrogateescape" for x in list(d.args) + [k.value for k in d.keywords])]
                if not se:
                    continue
                n += 1
                neutralised = any(isinstance(x, ast.Attribute) and x.attr == "decode" and isinstance(x.value, ast.Call) and isinstance(x.value.func, ast.Attribute) and x.value.func.attr == "encode" for e in exprs for x in ast.walk(e))
                # text that passed the token gate is pure ASCII (C01.lex.name decides TOKENRE == tchar+)
                gated = any(isinstance(x, ast.Name) and PC.has_lit(PC.pc(call, raw=True), f"TOKENRE.fullmatch({x.id})", True) is not None for x in ast.walk(a))
                if cname in REPR_CLASSES or neutralised or gated:
                    chk.ok(rule, call, f"{fn.name}(): surrogate-escaped wire text reaches {cname} only through repr() / a latin-1 re-decoding")
                else:
                    chk.violation(rule, call, K.short(call, 70), "decode(..., 'backslashreplace') or a class that formats its argument with !r",
                                  f"{fn.name}(): {cname} takes its message verbatim and gets text decoded with `surrogateescape`: a non-ASCII byte in the offending line (chunk-size line `\\xffzz`) puts a lone surrogate into the message, building the 400 response raises UnicodeEncodeError, and the peer gets no response at all")
    chk.expect_count(rule, n, 3, "error messages built from surrogate-escaped wire text")
