"""C07 Connection pool: limits hold, nothing leaks, no waiter is forgotten (DESIGN 5/C07)."""
from __future__ import annotations

import ast
import itertools

from sa import match as M, norm, pc as PC, prog, rulekit as K
from sa.cfg import CANCEL, EXPLICIT, cfg_of
from sa.dtable import Evaluator
from sa.loader import AnalysisError

MOD = "aiohttp/connector.py"
CLS = "BaseConnector"

OWNERS = {
    "_acquired": {
        f"{CLS}.__init__": "creates the set",
        f"{CLS}.connect": "reserves a placeholder and swaps it for the real connection",
        f"{CLS}._get": "marks a pooled connection as acquired",
        f"{CLS}._release_acquired": "the one place that gives a slot back",
        f"{CLS}._close_immediately": "clears everything on close",
    },
    "_acquired_per_host": {
        f"{CLS}.__init__": "creates the table",
        f"{CLS}.connect": "placeholder / swap per host",
        f"{CLS}._get": "pooled connection per host",
        f"{CLS}._release_acquired": "gives the per-host slot back",
        f"{CLS}._close_immediately": "clears everything on close (together with _acquired)",
    },
    "_waiters": {
        f"{CLS}.__init__": "creates the queue table",
        f"{CLS}._wait_for_available_connection": "a waiter enqueues and dequeues itself",
        f"{CLS}._release_waiter": "pops the waiter it wakes",
        f"{CLS}._close_immediately": "cancels and clears on close",
    },
    "_conns": {
        f"{CLS}.__init__": "creates the pool",
        f"{CLS}._release": "returns a reusable connection",
        f"{CLS}._get": "takes a connection out / drops dead ones",
        f"{CLS}._cleanup": "expires idle connections",
        f"{CLS}._close_immediately": "clears on close",
    },
}


def run(chk):
    repo = chk.repo
    chk.explanation = (
        "Decided structurally on aiohttp/connector.py: single owners of the accounting containers; a reserved slot is swapped or "
        "released on every exit incl. cancellation at any await; no suspension between the capacity test and the reservation nor "
        "during the swap; every release wakes a waiter; a woken-then-cancelled waiter hands the wake on; the waiter dequeues itself "
        "in a finally and re-registers in the live queue; close closes every connection and cancels every waiter; the capacity "
        "function equals min(limit-|acquired|, limit_per_host-|acquired_host|) with 0 = unlimited on a 4^4 grid."
    )
    chk.not_decided = "fairness, the numeric invariant |acquired| <= limit as an inequality over all schedules, timing."
    chk.explanation += " After the defect hunt: a woken waiter that cannot use the slot passes the wake-up on; re-acquiring a pooled connection is gated by the capacity test; a created or re-acquired connection is closed or tracked on every exit."
    chk.explanation += " Round 4 / second hunt: nothing suspends between pool removal and accounting; the waiter search covers all queues; a closed connector refuses connect() and re-queuing; acquired connections with unsent data are aborted on close; the digest middleware releases the challenge response before its retry. Known: a woken waiter's slot is not reserved (F121)."
    chk.assumptions.append("asyncio delivers CancelledError at the current await only; Future.set_result/cancel semantics as documented")
    cls = repo.cls(MOD, CLS)
    connect = repo.func(MOD, f"{CLS}.connect")
    get = repo.func(MOD, f"{CLS}._get")
    wait = repo.func(MOD, f"{CLS}._wait_for_available_connection")
    relw = repo.func(MOD, f"{CLS}._release_waiter")
    rela = repo.func(MOD, f"{CLS}._release_acquired")
    rel = repo.func(MOD, f"{CLS}._release")
    closei = repo.func(MOD, f"{CLS}._close_immediately")
    avail = repo.func(MOD, f"{CLS}._available_connections")

    # ---- C07.owners (T4) -----------------------------------------------------------------------
    for attr, allowed in OWNERS.items():
        K.owners(chk, "C07.owners", repo, [MOD], attr, allowed, "pool accounting has a single set of writers")

    # ---- C07.placeholder (T2c) -------------------------------------------------------------------
    n_add = 0
    for fn in cls.methods.values():
        g = cfg_of(fn.node)
        for node in K.cfg_nodes(fn, lambda n: K.node_has(n, "self._acquired.add($P)")):
            (call, b), = list(K.node_find(node, "self._acquired.add($P)"))[:1]
            p = b["P"]
            ptxt = norm.raw(p)
            n_add += 1

            def via(n, ptxt=ptxt):
                # self._release(key, p, ...) un-counts p first thing unless the connector was closed (then close already cleared the sets)
                for pat in ("self._acquired.remove($Q)", "self._release_acquired($K, $Q)", "self._release($K, $Q, ...)"):
                    for _c, bb in K.node_find(n, pat):
                        if norm.raw(bb["Q"]) == ptxt:
                            return True
                if n.kind == "stmt" and isinstance(n.ast, ast.Return) and n.ast.value is not None:
                    for _c, bb in M.find(n.ast.value, "Connection($A, $B, $Q, ...)"):
                        if norm.raw(bb["Q"]) == ptxt:
                            return True
                return False

            def exempt(n):
                # connector closed meanwhile: _close_immediately() already cleared the accounting
                if n.kind == "stmt" and isinstance(n.ast, ast.Raise):
                    return PC.has_lit(PC.pc(n.ast), "self._closed", True) is not None
                return False

            K.must_pass(chk, "C07.placeholder", fn, [node], via, f"slot reserved by `{K.short(call)}` is swapped, handed out or released on every exit (cancellation included)",
                        model=CANCEL, exempt=exempt, construct=K.short(call), missing="release of the reserved slot")
    chk.expect_count("C07.placeholder", n_add, 3, "reservations `self._acquired.add(...)`")

    # ---- C07.gate: reservation only after the capacity test -----------------------------------------
    g = cfg_of(connect.node)
    ph_nodes = [n for n in K.nodes_matching(connect, "self._acquired.add($P)") if _is_placeholder(n)]
    if not ph_nodes:
        chk.violation("C07.gate", connect, "self._acquired.add(placeholder)", "placeholder reservation", "no placeholder reservation found in connect()")
    else:
        def cap_test(n):
            if n.kind != "test":
                return False
            for c in norm.cnf(n.ast, True, n.ast):
                for lit in c:
                    if M.match_text("self._available_connections($K) > 0", lit.text) or M.match_text("self._available_connections($K) < 1", lit.text) \
                            or M.match_text("self._available_connections($K) > 1", lit.text) is None and M.match_text("self._available_connections($K) == 0", lit.text):
                        return True
            return False
        path = g.find_path([g.entry], lambda n: n in ph_nodes, cap_test, EXPLICIT)
        if path is None:
            chk.ok("C07.gate", ph_nodes[0].ast, "every path from entry to the placeholder reservation evaluates the capacity test `_available_connections(key) <= 0`")
        else:
            chk.violation("C07.gate", ph_nodes[0].ast, K.short(ph_nodes[0].ast), "(self._available_connections(key) <= 0) test",
                          "a path reaches the placeholder reservation without the capacity test", path=g.fmt_path(path))
        # re-acquiring an idle pooled connection puts one more connection in use, exactly like the placeholder reservation: every call of
        # _get() (which adds to _acquired) is reached only after a capacity test as well
        gets = [n for n in K.nodes_matching(connect, "self._get($K, $T)") if n.in_finally_copy is None]
        if not gets:
            chk.analysis_error("C07.gate: no call of _get() in connect()")
        for gn in gets:
            pth = g.find_path([g.entry], lambda n, gn=gn: n is gn, cap_test, EXPLICIT)
            if pth is None:
                chk.ok("C07.gate", gn.ast, f"the pool is consulted (line {gn.lineno}) only after the capacity test")
            else:
                chk.violation("C07.gate", gn.ast, K.short(gn.ast, 60), "(self._available_connections(key) > 0) test before re-acquiring a pooled connection",
                              "connect() re-acquires an idle pooled connection without consulting the limits: with limit=1, an idle connection to A in the pool and a request to B in flight, a new request to A goes out at once - two connections in use (and the request jumps the waiter queue)",
                              path=g.fmt_path(pth))
        # the waiting branch must be taken exactly when no capacity: T-edge leads to the wait
        tests = [n for n in g.nodes if cap_test(n)]
        for t in tests:
            cl = norm.cnf(t.ast, True, t.ast)
            waits = K.nodes_matching(connect, "self._wait_for_available_connection($K, $T)")
            if not waits:
                chk.violation("C07.gate", t.ast, K.short(t.ast), "await self._wait_for_available_connection(...)", "capacity test does not lead to the waiter queue")
                continue
            wpc = PC.pc(waits[0].ast)
            if PC.has_lit(wpc, "self._available_connections($K) > 0", False) is not None or PC.has_lit(wpc, "self._available_connections($K) < 1", True) is not None:
                chk.ok("C07.gate", waits[0].ast, "the waiter queue is entered exactly under `not (_available_connections(key) > 0)`")
            else:
                chk.violation("C07.gate", waits[0].ast, K.short(waits[0].ast), "!(self._available_connections(key) > 0)",
                              "the wait for a slot is not guarded by `no capacity` (off-by-one or inverted test lets a request through or blocks it)",
                              path_condition=norm.fmt_cnf(wpc))

    # ---- C07.leak: a connection that exists but is not tracked yet is closed on every exceptional exit --------------------------------------
    # between `proto = await self._create_connection(...)` and `self._acquired.add(proto)` nobody but this frame knows the connection: if a
    # trace callback raises or the caller is cancelled there, dropping only the placeholder leaves the socket open for ever (close() of the
    # connector cannot find it)
    created = [n for n in g.nodes if n.in_finally_copy is None and n.kind == "stmt" and isinstance(n.ast, ast.Assign) and "self._create_connection(" in norm.raw(n.ast.value)]
    if not created:
        chk.analysis_error("C07.leak: `proto = await self._create_connection(...)` not found in connect()")
    else:
        pname = norm.raw(created[0].ast.targets[0])
        owned = lambda n: K.node_has(n, f"{pname}.close()") or K.node_has(n, f"self._acquired.add({pname})") or K.node_has(n, f"self._release($K, {pname}, ...)")
        K.must_pass(chk, "C07.leak", connect, None, owned, "connect(): a freshly created connection is closed or tracked on every exit, cancellation included",
                    model=CANCEL, start_edges=[(created[0], "n")], construct=K.short(created[0].ast, 60), missing=f"{pname}.close() on the exceptional exits before {pname} is tracked")
    gg = cfg_of(get.node)
    popped = [n for n in gg.nodes if n.in_finally_copy is None and K.node_has(n, "self._acquired.add(proto)")]
    if popped:
        closes = lambda n: K.node_has(n, "self._release($K, proto, should_close=True)") or K.node_has(n, "proto.close()") or (n.kind == "stmt" and isinstance(n.ast, ast.Return) and n.ast.value is not None and "proto" in norm.raw(n.ast.value))
        K.must_pass(chk, "C07.leak", get, None, closes, "_get(): a pooled connection taken out of the pool is handed out or closed on every exit, cancellation included",
                    model=CANCEL, start_edges=[(popped[0], "n")], construct="self._acquired.add(proto)", missing="close of the connection when the reuse trace fails")
    # ---- C07.atomic (T3) ---------------------------------------------------------------------------
    none_returns_ok = _get_none_summary(chk, repo, get)

    # `(conn := await self._get(...)) is not None` - or, hoisted, `conn = await self._get(...)` followed by `if conn is not None:` - : the None
    # branch of _get() never suspended (summary above), the other branch leaves the region with the connection
    got_names = {n.ast.targets[0].id for n in g.nodes if n.kind == "stmt" and isinstance(n.ast, ast.Assign) and isinstance(n.ast.targets[0], ast.Name) and K.node_has(n, "await self._get($K, $T)")}

    def _is_get_test(n):
        if n.kind != "test":
            return False
        if K.node_has(n, "await self._get($K, $T)"):
            return True
        t = norm.raw(n.ast)
        return any(t == f"{x} is not None" for x in got_names)

    def edge_filter(n, kind):
        if _is_get_test(n):
            # true branch = conn is not None -> leaves the region (returns conn)
            return kind == "F"
        return True

    def summarised(n):
        if not none_returns_ok:
            return False
        if n.kind == "test" and K.node_has(n, "await self._get($K, $T)") and M.contains(n.ast, "$X is not None"):
            return True
        return n.kind == "stmt" and isinstance(n.ast, ast.Assign) and isinstance(n.ast.targets[0], ast.Name) and n.ast.targets[0].id in got_names and K.node_has(n, "await self._get($K, $T)")

    if ph_nodes:
        # the edge on which "capacity is available" has just been established: the outcome of a test that is *only* the capacity comparison
        starts = []
        for t in [n for n in g.nodes if n.kind == "test" and K.node_has(n, "self._available_connections($K)")]:
            cl = norm.cnf_raw(t.ast, True)
            if len(cl) == 1 and len(cl[0]) == 1:
                lit = next(iter(cl[0]))
                avail_when_true = (M.match_text("self._available_connections($K) > 0", lit.text) is not None) == lit.pos
                starts.append((t, "T" if avail_when_true else "F"))
        if not starts:
            chk.analysis_error("C07.atomic.reserve: no plain capacity test found in connect()")
        waits = K.nodes_matching(connect, "self._wait_for_available_connection($K, $T)")
        _atomic(chk, "C07.atomic.reserve", connect, repo, start_edges=starts + [(w, "n") for w in waits], b_pred=lambda n: n in ph_nodes,
                what="no other task can run between the capacity test (or the wake-up) and the placeholder reservation",
                edge_filter=edge_filter, summarised=summarised)
    # inside the waiter: nothing suspends after the final availability test
    gw = cfg_of(wait.node)
    wtests = [n for n in gw.nodes if n.kind == "test" and K.node_has(n, "self._available_connections($K)")]
    if not wtests:
        chk.violation("C07.atomic.waiter", wait, "if self._available_connections(key) > 0: break", "availability re-check after the wake-up",
                      "the waiter returns without re-checking that a slot is available (race with a task that took the slot first)")
    else:
        _atomic(chk, "C07.atomic.waiter", wait, repo, start_edges=[(t, "T") for t in wtests], b_pred=lambda n: n is gw.exit,
                what="nothing suspends between the waiter's final availability test and its return", edge_filter=None, summarised=None)
    # swap
    rm = [n for n in K.nodes_matching(connect, "self._acquired.remove($P)")]
    if rm:
        _atomic(chk, "C07.atomic.swap", connect, repo, start_edges=[(n, "n") for n in rm],
                b_pred=lambda n: n.kind == "stmt" and isinstance(n.ast, ast.Return), what="placeholder -> connection swap completes without suspension",
                edge_filter=None, summarised=None)
    else:
        chk.analysis_error("C07.atomic.swap: `self._acquired.remove(placeholder)` not found in connect()")
    # swap, pairing: every set the placeholder was added to gives it up when the real connection takes its place (the per-host set too -
    # a placeholder left there counts against limit_per_host for ever)
    def _set_of(call):
        recv = call.func.value
        t = norm.text(recv, call)
        return " ".join(t.split())

    adds, removes = {}, {}
    for c in ast.walk(connect.node):
        if isinstance(c, ast.Call) and isinstance(c.func, ast.Attribute) and len(c.args) == 1 and isinstance(c.args[0], ast.Name) and c.args[0].id == "placeholder":
            if c.func.attr == "add":
                adds.setdefault(_set_of(c), c)
            elif c.func.attr in ("remove", "discard"):
                removes.setdefault(_set_of(c), c)
    if len(adds) < 2:
        chk.analysis_error(f"C07.swap.sets: {len(adds)} sets receive the placeholder in connect(), 2 were confirmed by hand (_acquired, _acquired_per_host[key])")
    for sname, c in adds.items():
        if sname in removes:
            chk.ok("C07.swap.sets", removes[sname], f"connect(): the placeholder added to `{sname}` is taken out of it again when the connection is swapped in")
        else:
            chk.violation("C07.swap.sets", c, K.short(c), f"{sname}.remove(placeholder) in the swap",
                          f"the placeholder is added to `{sname}` and never taken out of it on the success path: the slot stays counted (limit / limit_per_host shrink by one per connection)")

    # reuse: a connection taken out of the pool is counted as acquired before anything suspends
    getf = repo.func(MOD, "BaseConnector._get")
    pl = [n for n in K.nodes_matching(getf, "$C.popleft()")]
    if pl:
        _atomic(chk, "C07.atomic.reuse", getf, repo, start_edges=[(n, None) for n in pl],
                b_pred=lambda n: K.node_has(n, "self._acquired.add($P)") or (n.kind == "stmt" and isinstance(n.ast, ast.Return)),
                what="a pooled connection is neither in the pool nor counted as acquired only within one synchronous step (while a task is suspended in that window other tasks see a free slot and open a connection beyond the limit)",
                edge_filter=None, summarised=None)
    else:
        chk.analysis_error("C07.atomic.reuse: `conns.popleft()` not found in _get()")
    # ---- C07.wake (T2, T1) ---------------------------------------------------------------------------
    nrem = 0
    for fn, hits in prog.writers(repo, [MOD], "_acquired").items():
        for node, kind in hits:
            if kind in ("call:discard", "call:remove", "call:pop"):
                cn = cfg_of(fn.node).nodes_of(node)
                if not cn:
                    continue
                # a removal that is the first half of a swap (followed by add on every path) needs no wake
                def is_add(n):
                    return K.node_has(n, "self._acquired.add($P)")
                if K.must_pass(chk, "C07.wake", fn, cn, is_add, "", report=False):
                    chk.ok("C07.wake", node, "removal is the first half of the placeholder swap (slot count unchanged)")
                    nrem += 1
                    continue
                nrem += 1
                K.must_pass(chk, "C07.wake", fn, cn, lambda n: K.node_has(n, "self._release_waiter()"),
                            "giving a slot back wakes a waiter on every path", construct=K.short(node), missing="self._release_waiter()")
    chk.expect_count("C07.wake", nrem, 2, "removals from _acquired")
    # _release() gives the slot back first thing (unless closed)
    relcalls = K.nodes_matching(rel, "self._release_acquired($K, $P)")
    if relcalls:
        extra = [l for l in PC.units(PC.pc(relcalls[0].ast)) if not (l.text == "self._closed" and not l.pos)]
        if extra:
            chk.violation("C07.wake.release", relcalls[0].ast, K.short(relcalls[0].ast), str(extra[0]), "releasing a connection frees its slot only conditionally")
        else:
            chk.ok("C07.wake.release", relcalls[0].ast, "_release() frees the slot unconditionally (unless the connector is closed)")
    else:
        chk.violation("C07.wake.release", rel, "self._release_acquired(key, protocol)", "call", "_release() no longer frees the slot")
    # Connection.close/release/__del__ go through the connector
    for q, closes in (("Connection.release", False), ("Connection.close", True)):
        f = repo.func(MOD, q)
        hits = K.exprs(f, "self._connector._release(self._key, self._protocol, ...)")
        if not hits:
            chk.violation("C07.wake.handle", f, q, "self._connector._release(self._key, self._protocol)", f"{q}() does not return the connection to the connector")
            continue
        pcs = PC.units(PC.pc(hits[0][0]))
        bad = [l for l in pcs if not (M.match_text("self._protocol is None", l.text) is not None and not l.pos)]
        if bad:
            chk.violation("C07.wake.handle", hits[0][0], K.short(hits[0][0]), str(bad[0]), f"{q}() returns the connection only conditionally")
        else:
            chk.ok("C07.wake.handle", hits[0][0], f"{q}() hands the connection back exactly when it still holds one")
    # _release_waiter wakes a live waiter of a key with capacity, exactly one
    sets = K.exprs(relw, "$W.set_result(None)")
    if not sets:
        chk.violation("C07.wake.pick", relw, "waiter.set_result(None)", "wake", "_release_waiter() wakes nobody")
    for call, b in sets:
        K.require_lits(chk, "C07.wake.pick", call, [("$W.done()", False, "waiter still pending"), ("self._available_connections($K) < 1", False, "the waiter's key has capacity")],
                       "only a live waiter whose key has capacity is woken")
        st = K.stmt_of(call)
        blk = PC._block_of(st)
        nxt = blk[blk.index(st) + 1] if blk and blk.index(st) + 1 < len(blk) else None
        if isinstance(nxt, ast.Return) and PC.has_lit(PC.pc(nxt), "$W.done()", False) is not None:
            chk.ok("C07.wake.pick", call, "exactly one waiter is woken per freed slot (return follows the wake, under the same `not done()` guard)")
        elif isinstance(nxt, ast.Return):
            chk.violation("C07.wake.pick", nxt, "return", "!(waiter.done())", "the search stops at the first queued waiter even when it is already cancelled/done: the wake-up is absorbed and live waiters behind it stay blocked")
        else:
            chk.violation("C07.wake.pick", call, K.short(call), "return after the wake", "more than one waiter may be woken for one freed slot")
    # a done waiter found in the queue is skipped, not a reason to stop: the loop continues
    pops = K.exprs(relw, "$Q.popitem(last=False)")
    if pops:
        loops = K.loop_ancestors(pops[0][0])
        if loops and isinstance(loops[0], ast.While):
            chk.ok("C07.wake.pick", pops[0][0], "waiters are taken FIFO (popitem(last=False)) in a loop that skips finished ones")
        else:
            chk.violation("C07.wake.pick", pops[0][0], K.short(pops[0][0]), "loop over the queue", "a finished waiter at the head of the queue stops the search")
    else:
        chk.violation("C07.wake.pick", relw, "waiters.popitem(last=False)", "FIFO pop", "_release_waiter() no longer takes the oldest waiter first")

    # the search for a waiter covers every queue: a wake-up that only looks at some keys is dropped when those queues hold finished waiters only
    outer = [l for c, _b in sets for l in K.loop_ancestors(c) if isinstance(l, ast.For)]
    if outer:
        loop = outer[-1]
        srcs = []
        if isinstance(loop.iter, ast.Name):
            srcs = [v for _d, v in norm.fn_defs(relw.node).defs.get(loop.iter.id, []) if v is not None]
        else:
            srcs = [loop.iter]
        def whole(v):
            return any(isinstance(n, ast.Attribute) and norm.raw(n) == "self._waiters" and not isinstance(getattr(n, "parent", None), ast.Subscript) for n in ast.walk(v)) \
                and not M.contains(v, "self._waiters.get($K)") and not M.contains(v, "self._waiters[$K]")
        part = [v for v in srcs if not whole(v)]
        if srcs and not part:
            chk.ok("C07.wake.scan", loop, f"_release_waiter() scans the queues of all keys ({'; '.join(norm.raw(v) for v in srcs)})")
        else:
            v = part[0] if part else loop.iter
            chk.violation("C07.wake.scan", v, K.short(v), "list(self._waiters)",
                          "the wake-up search can be restricted to a subset of the waiter queues: when those queues only hold finished (cancelled / timed-out) waiters the freed slot wakes nobody and live waiters of other keys stay blocked")
    else:
        chk.violation("C07.wake.scan", relw, "for key in queues", "loop over all keys", "_release_waiter() no longer scans the waiter queues per key")
    # a wake-up hands the freed slot to the woken waiter: until that task runs, the slot must not look free to a newcomer (known finding F121)
    av_reads = {a.attr for a in ast.walk(avail.node) if isinstance(a, ast.Attribute) and isinstance(a.value, ast.Name) and a.value.id == "self"}
    for call, b in sets:
        st = K.stmt_of(call)
        blk = PC._block_of(st) or []
        marks = {t.value.attr if isinstance(t, ast.Subscript) else t.attr for x in blk if isinstance(x, (ast.Assign, ast.AugAssign)) for t in (x.targets if isinstance(x, ast.Assign) else [x.target])
                 if (isinstance(t, ast.Subscript) and isinstance(t.value, ast.Attribute) and norm.raw(t.value.value) == "self") or (isinstance(t, ast.Attribute) and norm.raw(t.value) == "self")}
        marks |= {c.func.value.attr for x in blk for c in ast.walk(x) if isinstance(c, ast.Call) and isinstance(c.func, ast.Attribute) and c.func.attr in ("add", "append") and isinstance(c.func.value, ast.Attribute) and norm.raw(c.func.value.value) == "self"}
        if marks & av_reads:
            chk.ok("C07.wake.reserve", call, f"the woken waiter's slot is reserved (self.{sorted(marks & av_reads)[0]}, consulted by _available_connections) until it resumes")
        else:
            chk.violation("C07.wake.reserve", call, K.short(call), "a reservation that _available_connections() subtracts until the waiter resumes",
                          "the freed slot is announced to a waiter but stays visible as free: a task that re-enters connect() before the woken task runs (a loop of back-to-back requests on limit=1) takes it through the pool fast path, the waiter finds nothing, queues again and can starve until its timeout")
    # a waiter future taken from the queues may already be done (its task was cancelled / timed out and has not run its `finally` yet):
    # cancel() is harmless then, set_result()/set_exception() raise InvalidStateError - out of close() that leaves every waiter behind it blocked
    nfut = 0
    for m in repo.cls(MOD, CLS).methods.values():
        for c in prog.calls_in(m.node):
            if not (isinstance(c.func, ast.Attribute) and c.func.attr in ("set_result", "set_exception") and isinstance(c.func.value, ast.Name)):
                continue
            nfut += 1
            f_ = c.func.value.id
            if PC.has_lit(PC.pc(c, raw=True), [(f"{f_}.done()", False), (f"not {f_}.done()", True)], True) is not None:
                chk.ok("C07.wake.done", c, f"{m.name}(): `{K.short(c, 40)}` only on a future that is not done")
            else:
                chk.violation("C07.wake.done", c, K.short(c, 60), f"if not {f_}.done(): ...  (or {f_}.cancel(), which is harmless on a finished future)",
                              f"{m.name}() calls {c.func.attr}() on a queued waiter without testing done(): a waiter whose task was just cancelled (task.cancel() cancels the future at once, the task removes it from the queue only on a later tick) raises InvalidStateError - from close() that skips the remaining waiters and `_waiters.clear()`, and the requests queued behind it wait for ever on a closed connector")
    chk.expect_count("C07.wake.done", nfut, 1, "set_result / set_exception calls on futures in BaseConnector")
    # ---- C07.handoff / C07.waiterfinally / C07.stalealias ------------------------------------------------
    aw = [a for a in prog.awaits_in(wait.node) if isinstance(a.value, ast.Name)]
    futs = {a.value.id for a in aw}
    if len(futs) != 1:
        raise AnalysisError("C07.handoff: cannot identify the awaited waiter future in _wait_for_available_connection")
    fut = futs.pop()
    awn = aw[0]
    handoff_ok = False
    for t, h in K.enclosing_try_handlers(awn):
        types = PC.handler_types(h)
        if not any(x in ("BaseException", "asyncio.CancelledError", "CancelledError") for x in types):
            continue
        for call, _b in M.find(h, "self._release_waiter()"):
            units = PC.units(PC.pc(call, stop=h))
            others = [l for l in units if not ((l.text == f"{fut}.done()" and l.pos) or (l.text == f"{fut}.cancelled()" and not l.pos) or l.text.startswith("EXCEPT("))]
            has_done = any(l.text == f"{fut}.done()" and l.pos for l in units)
            has_nc = any(l.text == f"{fut}.cancelled()" and not l.pos for l in units)
            reraises = PC.terminates(h.body) and isinstance(h.body[-1], ast.Raise)
            if has_done and has_nc and not others and reraises:
                handoff_ok = True
                chk.ok("C07.handoff", call, f"a waiter woken (`{fut}.done() and not {fut}.cancelled()`) and then interrupted passes the wake-up on and re-raises")
    if not handoff_ok:
        chk.violation("C07.handoff", awn, f"await {fut}", f"({fut}.done()) & !({fut}.cancelled()) -> self._release_waiter()",
                      "a waiter that was chosen by _release_waiter() and is then cancelled before running drops the wake-up: later waiters stay blocked although a slot is free")
    # ... and so does a waiter that was woken but finds no capacity for *its* key (the release that woke it was for another host, or a
    # second release in the same tick picked a waiter of a key whose first waiter had not run yet): it goes back to the queue, and the
    # wake-up it consumed has to be passed on, otherwise a waiter of a key that does have capacity is never woken
    gw = cfg_of(wait.node)
    caps = [n for n in gw.nodes if n.kind == "test" and "_available_connections" in norm.raw(n.ast) and n.in_finally_copy is None]
    if not caps:
        chk.analysis_error("C07.handoff: capacity re-check after the wait not found in _wait_for_available_connection")
    else:
        neg = "F" if PC.has_lit(norm.cnf_raw(caps[0].ast, True), "self._available_connections(key) > 0", True) is not None or ">" in norm.raw(caps[0].ast) else "T"
        heads = [n for n in gw.nodes if n.kind == "stmt" and isinstance(n.ast, (ast.Assign, ast.AnnAssign)) and "create_future()" in norm.raw(n.ast)]
        rel = lambda n: K.node_has(n, "self._release_waiter()")
        pth = gw.find_path(None, lambda n: n in heads, rel, EXPLICIT, [(caps[0], neg)])
        if pth is None:
            chk.ok("C07.handoff", caps[0].ast, "a woken waiter that finds no capacity for its key passes the wake-up on before it queues again")
        else:
            chk.violation("C07.handoff", caps[0].ast, K.short(caps[0].ast, 60), "self._release_waiter() before waiting again",
                          "a waiter that was woken but finds its own key still at capacity queues again and drops the wake-up it consumed: with limit=2, limit_per_host=1, two releases in one tick can both wake waiters of host A; the second re-queues silently and the waiter for host B, which has a free slot, waits until its timeout",
                          path=gw.fmt_path(pth))
    # dequeue in finally
    fin_ok = False
    for t in prog.enclosing(awn, (ast.Try,)):
        if prog.in_body_of(awn, t, "body") and t.finalbody:
            for call, b in M.find(t.finalbody, "$Q.pop($F, ...)"):
                if norm.raw(b["F"]) == fut:
                    fin_ok = True
                    chk.ok("C07.waiterfinally", call, "the waiter removes itself from the queue in the `finally` of the try that awaits it")
            # the same removal spelled `del queue[fut]`: it is skipped only when the future is not in the queue any more (`if fut in queue:`
            # as the one and only condition inside the finally, or a KeyError handler around it)
            for d in [d for s_ in t.finalbody for d in ast.walk(s_) if isinstance(d, ast.Delete)]:
                for tg in d.targets:
                    if not (isinstance(tg, ast.Subscript) and norm.raw(tg.slice) == fut):
                        continue
                    q = norm.raw(tg.value)
                    cond = PC.pc(d, stop=t, raw=True)
                    member = [c for c in cond if len(c) == 1 and next(iter(c)).pos and next(iter(c)).text == f"{fut} in {q}"]
                    caught = any(not isinstance(h.body[-1], ast.Raise) and any(x in ("KeyError", "LookupError", "Exception", "BaseException") for x in PC.handler_types(h))
                                 for t2, h in K.enclosing_try_handlers(d) if any(t2 is x for s_ in t.finalbody for x in ast.walk(s_)))
                    if (member and len(member) == len(cond)) or (caught and not cond):
                        fin_ok = True
                        chk.ok("C07.waiterfinally", d, "the waiter removes itself from the queue in the `finally` of the try that awaits it")
    if not fin_ok:
        chk.violation("C07.waiterfinally", awn, f"await {fut}", f"finally: <queue>.pop({fut}, None)", "a cancelled/failed waiter stays in the queue")
    # stale alias: the per-key queue may be deleted inside the loop; the queue the future is put into must be looked up in the same iteration
    _stale_alias(chk, wait, fut)

    # ---- C07.close (T2) -------------------------------------------------------------------------------------
    _close_rule(chk, repo, closei)

    middleware_rule(chk, repo)
    hunt3_rules(chk, repo)
    hunt4_rules(chk, repo)
    hunt5_rules(chk, repo)
    round7_rules(chk, repo)
    # ---- C07.capacity (dtable) ---------------------------------------------------------------------------------
    _capacity(chk, avail)


def _is_placeholder(n) -> bool:
    for call, b in K.node_find(n, "self._acquired.add($P)"):
        p = b["P"]
        if isinstance(p, ast.Name):
            ds = norm.fn_defs(call.fn.node).defs.get(p.id, [])
            if len(ds) == 1 and ds[0][1] is not None and "_TransportPlaceholder" in norm.raw(ds[0][1]):
                return True
    return False


def _get_none_summary(chk, repo, get) -> bool:
    """Every `return None` of _get() is reachable without a suspension, and every return reachable
    only after a suspension returns a Connection."""
    free = K.returns_without_await(get, repo)
    ok = True
    for n in ast.walk(get.node):
        if isinstance(n, ast.Return):
            is_none = n.value is None or (isinstance(n.value, ast.Constant) and n.value.value is None)
            if is_none and n not in free:
                ok = False
                chk.violation("C07.atomic.summary", n, "return None", "await before `return None`",
                              "_get() can suspend and then report `no pooled connection`: the caller reserves a slot after other tasks ran")
    if ok:
        chk.ok("C07.atomic.summary", get, f"_get(): all {sum(1 for r in free)} `return None` statements are reachable without a suspension point (awaits sit on the branch returning a Connection)")
    return ok


def _atomic(chk, rule, fn, repo, start_edges, b_pred, what, edge_filter, summarised):
    g = cfg_of(fn.node)
    fwd = {}
    stack = []
    for s, ek in start_edges:
        for t, k in g.succs(s, EXPLICIT):
            if k == ek or ek is None:
                stack.append((t, s))
    while stack:
        n, p = stack.pop()
        if n.id in fwd:
            continue
        fwd[n.id] = p
        if b_pred(n):
            continue
        for t, k in g.succs(n, EXPLICIT):
            if edge_filter is not None and not edge_filter(n, k):
                continue
            stack.append((t, n))
    bn = [g.nodes[i] for i in fwd if b_pred(g.nodes[i])]
    s0 = start_edges[0][0]
    if not bn:
        chk.violation(rule, s0.ast if isinstance(s0.ast, ast.AST) else fn.node, what, "end of the region unreachable", f"{what}: end of the region is not reachable from its start")
        return
    back = set()
    stack = list(bn)
    while stack:
        n = stack.pop()
        if n.id in back:
            continue
        back.add(n.id)
        for p, k, h in n.pred:
            if p.id in fwd and not b_pred(p) and g.edge_ok(EXPLICIT, k, h):
                if edge_filter is not None and not edge_filter(p, k):
                    continue
                stack.append(p)
    region = [g.nodes[i] for i in back if not b_pred(g.nodes[i])]
    off = [n for n in region if K.node_suspends(n, repo) and not (summarised and summarised(n))]
    if off:
        for o in sorted(off, key=lambda n: n.lineno):
            chk.violation(rule, o.ast, K.short(o.ast), "suspension point inside the atomic region", f"{what}: `{K.short(o.ast, 60)}` can suspend here",
                          region=f"lines {sorted({s.lineno for s, _ in start_edges})} -> {sorted({b.lineno for b in bn})}")
    else:
        chk.ok(rule, s0.ast if isinstance(s0.ast, ast.AST) else fn.node,
               f"{what}: {len(region)} CFG nodes between line(s) {sorted({s.lineno for s, _ in start_edges})} and {sorted({b.lineno for b in bn})}, none suspends")


def _stale_alias(chk, wait, fut):
    """If the function deletes `self._waiters[key]` inside the retry loop, the queue object into which the
    new future is inserted must be obtained from `self._waiters` inside the same loop."""
    loops = [n for n in ast.walk(wait.node) if isinstance(n, (ast.While, ast.For))]
    outer = None
    for l in loops:
        if any(isinstance(a, ast.Await) and isinstance(a.value, ast.Name) and a.value.id == fut for a in ast.walk(l)):
            if outer is None or l.lineno < outer.lineno:
                outer = l
    if outer is None:
        chk.violation("C07.requeue", wait, f"await {fut}", "retry loop", "the waiter does not re-check availability in a loop after being woken (lost race = proceeds without a slot)")
        return
    deletes = [n for n in ast.walk(outer) if isinstance(n, ast.Delete) and any("self._waiters" in norm.raw(t) for t in n.targets)]
    inserts = [n for n in ast.walk(outer) if isinstance(n, ast.Assign) and any(isinstance(t, ast.Subscript) and norm.raw(t.slice) == fut for t in n.targets)]
    if not inserts:
        chk.violation("C07.requeue", outer, "keyed_waiters[fut] = None", "registration of the waiter", "the waiter future is not registered in the queue inside the retry loop")
        return
    for ins in inserts:
        t = [t for t in ins.targets if isinstance(t, ast.Subscript)][0]
        base = t.value
        if "self._waiters" in norm.raw(base):
            chk.ok("C07.requeue", ins, "the future is registered directly in self._waiters[key]")
            continue
        if isinstance(base, ast.Name):
            defs = norm.fn_defs(wait.node).def_nodes(base.id)
            in_loop = [d for d in defs if any(d is x for x in ast.walk(outer))]
            derives = [d for d in in_loop if isinstance(d, ast.Assign) and "self._waiters" in norm.raw(d.value)]
            if derives and len(in_loop) == len(defs):
                chk.ok("C07.requeue", ins, f"queue alias `{base.id}` is looked up from self._waiters inside the retry loop (a deleted key is re-created)")
            elif not deletes:
                chk.ok("C07.requeue", ins, f"queue alias `{base.id}` is never invalidated inside the loop (no `del self._waiters[key]`)")
            else:
                chk.violation("C07.requeue", ins, K.short(ins), f"{base.id} = self._waiters[key] inside the loop",
                              f"`{base.id}` is bound outside the retry loop, but the loop deletes self._waiters[key] when the queue empties: a re-queued waiter is registered in an orphaned queue and can never be woken")
        else:
            chk.violation("C07.requeue", ins, K.short(ins), "queue derived from self._waiters", "cannot relate the queue object to self._waiters")
    # re-queue at the front after a lost race
    mv = [c for c, _b in M.find(outer, "$Q.move_to_end($F, last=False)")]
    if mv:
        chk.ok("C07.requeue", mv[0], "a waiter that lost the race is re-queued at the front")


def _close_rule(chk, repo, closei):
    g = cfg_of(closei.node)
    # every pooled and every acquired protocol is closed or aborted
    n_loops = 0
    for loop in [n for n in ast.walk(closei.node) if isinstance(n, ast.For)]:
        it = norm.raw(loop.iter)
        tgt = None
        if it == "self._acquired":
            tgt = "acquired connections"
        elif isinstance(loop.parent, ast.For) and "self._conns" in norm.raw(loop.parent.iter):
            tgt = "pooled connections"
        if tgt is None:
            continue
        n_loops += 1
        heads = [n for n in g.nodes if n.kind == "for" and n.ast is loop and n.in_finally_copy is None]
        var = loop.target.elts[0].id if isinstance(loop.target, ast.Tuple) else getattr(loop.target, "id", None)
        def closes(n, var=var):
            return K.node_has(n, f"{var}.close()") or K.node_has(n, f"{var}.abort()")
        for h in heads:
            path = g.find_path(None, lambda n, h=h: n is h, closes, EXPLICIT, start_edges=[(h, "T")])
            if path is None:
                chk.ok("C07.close", loop, f"close(): every iteration over the {tgt} closes or aborts the protocol")
            else:
                chk.violation("C07.close", loop, K.short(loop, 60), f"{var}.close() / {var}.abort()", f"close(): an iteration over the {tgt} can skip closing the protocol", path=g.fmt_path(path))
    if n_loops < 2:
        chk.violation("C07.close", closei, "for proto in self._acquired / self._conns.values()", "close loops", "close() does not visit both the pooled and the acquired connections")
    # finally: cancel all waiters, clear the three containers
    fins = [t for t in ast.walk(closei.node) if isinstance(t, ast.Try) and t.finalbody]
    need = {"self._conns.clear()": False, "self._acquired.clear()": False, "self._acquired_per_host.clear()": False, "self._waiters.clear()": False}
    cancel = False
    for t in fins:
        for k in need:
            if any(True for _ in M.find(t.finalbody, k)):
                need[k] = True
        for loop in [n for b in t.finalbody for n in ast.walk(b) if isinstance(n, ast.For)]:
            if "self._waiters" in norm.raw(loop.iter):
                for inner in ast.walk(loop):
                    if isinstance(inner, ast.Call) and isinstance(inner.func, ast.Attribute) and inner.func.attr in ("cancel", "set_exception"):
                        cancel = True
    for k, v in need.items():
        if v:
            chk.ok("C07.close", closei, f"close(): `{k}` in the finally block")
        else:
            chk.violation("C07.close", closei, "finally block of _close_immediately", k, "close() leaves accounting behind when closing fails half-way")
    # (fifth hunt, F293) "fails every waiter": with the error a request gets that already holds a slot - a cancel() makes session.get() raise a
    # bare CancelledError in a task nobody cancelled (task.cancelling() == 0): `except aiohttp.ClientError` does not run, a TaskGroup takes the
    # request for cancelled and finishes without an error
    wcalls = [inner for b in t.finalbody for loop in ast.walk(b) if isinstance(loop, ast.For) and "self._waiters" in norm.raw(loop.iter)
              for inner in ast.walk(loop) if isinstance(inner, ast.Call) and isinstance(inner.func, ast.Attribute) and inner.func.attr in ("cancel", "set_exception")]
    bare = [c for c in wcalls if c.func.attr == "cancel"]
    if cancel and bare:
        chk.violation("C07.close.waiters", bare[0], K.short(bare[0]), "if not keyed_waiter.done(): keyed_waiter.set_exception(ClientConnectionError('Connector is closed.'))",
                      "closing the connector cancels the futures of the requests parked in the pool queue: session.get() raises a bare CancelledError although nobody cancelled its task, while a request that holds a slot and a waiter that was woken get ClientConnectionError('Connector is closed.') - the application's `except aiohttp.ClientError` never runs")
    elif cancel:
        guarded = all(any(not l.pos and l.text.endswith(".done()") for l in PC.units(PC.pc(K.stmt_of(c), raw=True))) for c in wcalls)
        if guarded:
            chk.ok("C07.close.waiters", wcalls[0], "close(): a parked waiter that is still pending is failed with an exception (not cancelled)")
        else:
            chk.violation("C07.close.waiters", wcalls[0], K.short(wcalls[0]), "if not keyed_waiter.done():", "set_exception() on a waiter that was woken or cancelled already raises InvalidStateError out of close()")
    if cancel:
        chk.ok("C07.close", closei, "close(): every queued waiter is failed in the finally block")
    else:
        chk.violation("C07.close", closei, "finally block of _close_immediately", "keyed_waiter.cancel() for every waiter", "close() does not fail the queued waiters: they wait forever")
    # the closed latch is set before anything else and tested first
    sets = K.stmts(closei, "self._closed = True")
    if sets:
        chk.ok("C07.close", sets[0][0], "close(): the closed flag is latched")
    else:
        chk.violation("C07.close", closei, "self._closed = True", "latch", "close() does not latch the closed state")
    # a closed connector hands out nothing and queues nobody: connect() refuses at entry, and a waiter that resumes after close() refuses
    # instead of queuing again (close() cancelled only the waiters it knew about)
    for q in (f"{CLS}.connect", f"{CLS}._wait_for_available_connection"):
        f = repo.func(MOD, q)
        rs = [r for r, _c in K.raises_in(f) if PC.has_lit(PC.pc(r, raw=True), "self._closed", True) is not None]
        if rs:
            chk.ok("C07.close", rs[0], f"{q.split('.')[-1]}(): a closed connector raises instead of handing out or queuing")
        else:
            chk.violation("C07.close", f, q.split(".")[-1], "if self._closed: raise ClientConnectionError('Connector is closed.')",
                          f"{q.split('.')[-1]}() never looks at the closed flag: a request that re-enters connect() after session.close() (the one-shot retry of an idempotent method whose connection close() just closed) finds stale counters, enqueues a waiter after close() cancelled the ones it knew, and hangs until the total timeout - forever with total=None")
    # an acquired connection with unsent request data is aborted: a graceful close waits for a flush that a stalled peer never allows
    acq_loops = [l for l in ast.walk(closei.node) if isinstance(l, ast.For) and norm.raw(l.iter) == "self._acquired"]
    for l in acq_loops:
        ab = [c for c in ast.walk(l) if isinstance(c, ast.Call) and isinstance(c.func, ast.Attribute) and c.func.attr == "abort"
              and any("get_write_buffer_size" in lt.text for cl_ in PC.pc(c, stop=l, raw=True) for lt in cl_)]
        if ab:
            chk.ok("C07.close", ab[0], "close(): an acquired connection whose write buffer is not empty is aborted after close()")
        else:
            chk.violation("C07.close", l, K.short(l, 50), "if transport.get_write_buffer_size(): transport.abort()",
                          "close() closes acquired connections gracefully and then awaits their `closed` futures: with an upload stalled against a peer that stopped reading the write buffer never drains, connection_lost() never fires and `await session.close()` never returns (the socket stays open with the unsent body buffered)")


def _capacity(chk, avail):
    """_available_connections(key) > 0  <=>  (limit == 0 or |acq| < limit) and (per_host == 0 or |acq_host| < per_host).
    Only the sign is compared: callers test `<= 0`, `> 0`, `< 1`; the magnitude is not part of the property."""
    body = [s for s in avail.node.body if not (isinstance(s, ast.Expr) and isinstance(s.value, ast.Constant))]
    rows = bad = 0
    R = range(0, 4)
    for limit, per_host, nacq, nhost in itertools.product(R, R, R, R):
        if nhost > nacq:
            continue
        acq = frozenset(range(nacq))
        hostset = frozenset(range(nhost))
        for host_present in ((True,) if nhost else (True, False)):
            table = {"K": hostset} if host_present else {}
            env = {"self._limit": limit, "self._limit_per_host": per_host, "self._acquired": acq, "self._acquired_per_host": table, "key": "K"}
            got = Evaluator(env).run(body)
            # reference: positive iff a new connection for key is allowed; value = remaining
            tot = (limit - nacq) if limit else None
            hst = (per_host - nhost) if per_host else None
            cands = [x for x in (tot, hst) if x is not None]
            ref_allowed = all(x > 0 for x in cands)
            rows += 1
            if (got is not None and got > 0) != ref_allowed:
                bad += 1
                if bad <= 3:
                    chk.violation("C07.capacity", avail, "_available_connections", f"limit={limit} limit_per_host={per_host} |acquired|={nacq} |acquired[key]|={nhost}",
                                  f"capacity function says {'available' if got and got > 0 else 'full'} ({got}) where the limits say {'available' if ref_allowed else 'full'}")
    if not bad:
        chk.ok("C07.capacity", avail, f"capacity function agrees with the reference on all {rows} rows of the (limit, limit_per_host, |acquired|, |acquired[key]|) grid 0..3")
        chk.exhaustive_domains.append(f"C07.capacity: {rows} rows")


class _Hit(Exception):
    pass


_EXITS = (ast.Return, ast.Raise, ast.Continue, ast.Break)
_DEFS = (ast.FunctionDef, ast.AsyncFunctionDef, ast.ClassDef, ast.Lambda)


def _inner(st):
    """st and the nodes below it, nested definitions excluded."""
    stack = [st]
    while stack:
        n = stack.pop()
        yield n
        stack.extend(c for c in ast.iter_child_nodes(n) if not isinstance(c, _DEFS))


def _reached(stmts, env, is_target) -> bool:
    """Follow the statement list `stmts` (normal completion only) under the values `env` gives to its atoms (dtable Evaluator: tests are
    evaluated in source order, so a comparison with None that the code would run into is a TypeError here as well) and report whether a
    simple statement satisfying `is_target` is executed before the list is left (return / raise / continue / break, or its end).
    Locals are carried along: an assignment of an evaluable expression defines the name, any other assignment makes it unknown again
    (a name `env` declares keeps the declared value: that is what `env` says about an opaque definition).  A test that cannot be evaluated
    is an AnalysisError unless its outcome cannot matter (no target below it, and no exit below it with a target still to come); loops are
    not entered."""
    seeds = dict(env)
    ev = Evaluator(env)

    def forget(st):
        for x in _inner(st):
            if isinstance(x, ast.Name) and isinstance(x.ctx, (ast.Store, ast.Del)):
                if x.id in seeds:
                    ev.env[x.id] = seeds[x.id]
                else:
                    ev.env.pop(x.id, None)

    # source order of the statements followed: nothing is executed twice (loops are not entered), so what runs after a statement lies after it
    order: dict[int, int] = {}

    def number(n):
        order[id(n)] = len(order)
        for c in ast.iter_child_nodes(n):
            if not isinstance(c, _DEFS):
                number(c)

    for s_ in stmts:
        number(s_)
    targets = [x for s_ in stmts for x in _inner(s_) if isinstance(x, ast.stmt) and is_target(x)]

    def matters(st):
        """Can the way `st` is left decide whether a target is executed?  It contains one, or it can leave the block and one follows."""
        last = max(order[id(x)] for x in _inner(st))
        return any(isinstance(x, ast.stmt) and is_target(x) for x in _inner(st)) \
            or (any(isinstance(x, _EXITS) for x in _inner(st)) and any(order[id(tg)] > last for tg in targets))

    def block(body) -> bool:
        """True: the block completes normally; False: it is left by an exit statement."""
        for st in body:
            if is_target(st):
                raise _Hit()
            if isinstance(st, _EXITS):
                return False
            if isinstance(st, ast.If):
                try:
                    taken = st.body if ev.ev(norm.subst(st.test, st)) else st.orelse
                except AnalysisError:
                    if matters(st):
                        raise
                    forget(st)
                    continue
                if not block(taken):
                    return False
            elif isinstance(st, (ast.With, ast.AsyncWith)):
                forget(ast.Module(body=[i.optional_vars for i in st.items if i.optional_vars is not None], type_ignores=[]))
                if not block(st.body):
                    return False
            elif isinstance(st, ast.Try):
                done = block(st.body) and block(st.orelse)
                if not block(st.finalbody) or not done:
                    return False
            elif isinstance(st, (ast.For, ast.AsyncFor, ast.While, ast.Match)):
                if matters(st):
                    raise AnalysisError(f"cannot follow `{K.short(st, 40)}` (line {st.lineno}): a loop that contains the statement looked for or an exit")
                forget(st)
            elif isinstance(st, (ast.Assign, ast.AnnAssign)) and getattr(st, "value", None) is not None \
                    and isinstance(st.targets[0] if isinstance(st, ast.Assign) and len(st.targets) == 1 else getattr(st, "target", None), ast.Name):
                name = (st.targets[0] if isinstance(st, ast.Assign) else st.target).id
                try:
                    ev.env[name] = ev.ev(norm.subst(st.value, st))
                except AnalysisError:
                    forget(st)
            elif isinstance(st, _DEFS):
                continue
            else:
                # walrus targets inside an expression statement, tuple / augmented assignments, del
                forget(st)
        return True

    try:
        block(stmts)
    except _Hit:
        return True
    return False


def round7_rules(chk, repo):
    """Rule written after seeding round 7 (seed C07-7): connect() looks at the closed flag after its last suspension point.
    close() closes what is in _acquired; while connect() is suspended (establishing the connection, or in an on_connection_create_end
    callback) only the placeholder is there.  Between the last await and the statement that puts the new protocol into _acquired the flag is
    tested, or a connector closed in that window neither closes the connection nor tells the caller (KeyError from the placeholder swap)."""
    cn = repo.func("aiohttp/connector.py", "BaseConnector.connect")
    g = cfg_of(cn.node)
    adds = [n for n in g.nodes if n.in_finally_copy is None and n.kind == "stmt" and K.node_has(n, "self._acquired.add(proto)")]
    tests = [n for n in g.nodes if n.kind == "test" and "self._closed" in norm.raw(n.ast)]
    created = [n for n in g.nodes if n.in_finally_copy is None and n.kind == "stmt" and isinstance(getattr(n, "ast", None), ast.AST) and K.node_has(n, "await self._create_connection(...)")]
    if not adds or not created:
        chk.analysis_error("C07.close.recheck: `await self._create_connection(...)` / `self._acquired.add(proto)` not found in BaseConnector.connect")
        return
    sus = [n for n in g.nodes if n.in_finally_copy is None and isinstance(getattr(n, "ast", None), ast.AST) and n.kind in ("stmt", "test", "for") and K.node_suspends(n, repo)
           and (n in created or g.find_path(created, lambda x, n=n: x is n, lambda x: False, EXPLICIT) is not None)]
    bad = None
    for s_ in sus:
        p_ = g.find_path([s_], lambda x: x in adds, lambda x: x in tests, EXPLICIT)
        if p_ is not None:
            bad = (s_, p_)
            break
    if bad is None:
        chk.ok("C07.close.recheck", adds[0].ast, f"connect(): from each of the {len(sus)} suspension points after the connection exists, the way to `self._acquired.add(proto)` passes a test of self._closed")
    else:
        chk.violation("C07.close.recheck", bad[0].ast, K.short(bad[0].ast), "if self._closed: proto.close(); raise ClientConnectionError('Connector is closed.')  after the last await",
                      "connect() can be suspended here with the new connection established and go on to hand it out without looking at the closed flag: a connector closed while an on_connection_create_end callback is parked sees only the placeholder in _acquired and cannot close the protocol - the connection is never closed (closing the connector closes every connection it created) and the caller gets KeyError from the placeholder swap instead of ClientConnectionError", path=g.fmt_path(bad[1]))


def hunt5_rules(chk, repo):
    """Rules written after the fifth defect hunt (F291, F292)."""
    from rules import C18
    C18.tls_release_rule(chk, repo, "C07.release.abort")
    # ---- C07.key.value: whatever can be a component of the pool key compares by value --------------------------------------------------------------------
    # limit_per_host and reuse are per ConnectionKey.  A component whose class of the package compares by identity makes every request that
    # builds a fresh, equal value (`ssl=aiohttp.Fingerprint(digest)`, the call shown in the docs) a pool of its own.
    ck = repo.cls("aiohttp/client_reqrep.py", "ConnectionKey")
    names = set()
    for a in ck.node.body:
        if isinstance(a, ast.AnnAssign):
            ann = a.annotation
            if isinstance(ann, ast.Constant) and isinstance(ann.value, str):
                try:
                    ann = ast.parse(ann.value, mode="eval").body
                except SyntaxError:
                    continue
            names |= {n.id for n in ast.walk(ann) if isinstance(n, ast.Name)}
    nk = 0
    for nm in sorted(names):
        r_ = repo.resolve_name(ck.module, nm)
        if not (r_ and r_[0] == "class"):
            continue
        ci = r_[1]
        if any(b in ("NamedTuple", "Enum", "IntEnum", "str", "int", "tuple") for b in ci.base_names()) or any("dataclass" in norm.raw(d) or "attr.s" in norm.raw(d) for d in ci.node.decorator_list):
            continue
        nk += 1
        if "__eq__" in ci.methods and "__hash__" in ci.methods:
            chk.ok("C07.key.value", ci.node, f"{ci.name} (a possible component of ConnectionKey) defines __eq__ and __hash__")
        else:
            chk.violation("C07.key.value", ci.node, f"class {ci.name}", "__eq__ / __hash__ on the value",
                          f"{ci.name} is a component of ConnectionKey but compares by identity: every request that passes a fresh, equal {ci.name} gets a connection key - a pool and a limit_per_host - of its own: with limit_per_host=1 two concurrent requests to one endpoint run on 2 connections, five sequential ones open 5 TLS connections and none is reused")
    chk.expect_count("C07.key.value", nk, 1, "classes of the package that can be a component of ConnectionKey")


def hunt4_rules(chk, repo):
    """Rules written after the fourth defect hunt (F254, F255)."""
    # ---- C07.key.stable: what is hashed into the connection key is not written while a request is in flight ------------------------------------------
    # ClientRequest.connection_key hashes proxy_headers.items(); the mapping is built once per request and shared by all its hops: a hop that
    # writes into it changes the key of the next hop - the pool is missed and limit_per_host counts two keys for one endpoint.
    mod = repo.module(MOD)
    nk = 0
    for fn in [f for c in mod.classes.values() for f in c.methods.values()]:
        defs = norm.fn_defs(fn.node).defs
        for name, ds in defs.items():
            aliases = [v for _d, v in ds if v is not None and "proxy_headers" in norm.raw(v) and not (isinstance(v, ast.Call) and norm.raw(v.func).split("[")[0] in ("CIMultiDict", "CIMultiDictProxy", "dict", "MultiDict"))
                       and not isinstance(v, ast.Call)]
            if not aliases:
                continue
            writes = [w for w in ast.walk(fn.node) if (isinstance(w, ast.Assign) and any(isinstance(t, ast.Subscript) and norm.raw(t.value) == name for t in w.targets))
                      or (isinstance(w, ast.Call) and isinstance(w.func, ast.Attribute) and norm.raw(w.func.value) == name and w.func.attr in ("add", "update", "extend", "pop", "popall", "popone", "setdefault", "clear"))]
            for w in writes:
                nk += 1
                chk.violation("C07.key.stable", w, K.short(w, 60), f"{name} = CIMultiDict({norm.raw(aliases[0])})  (work on a copy)",
                              f"{fn.qualname} writes into `{name}`, which may be the request's own proxy_headers mapping - shared by every hop of the request and hashed into the connection key: after the first hop added `Host` the redirect hop has another key, opens a second proxy connection instead of reusing the pooled one and limit_per_host=1 lets two connections to one endpoint be acquired")
    bld = repo.func(MOD, f"{CLS}._update_proxy_auth_header_and_build_proxy_req")
    hdefs = [v for _d, v in norm.fn_defs(bld.node).defs.get("headers", []) if v is not None]
    if hdefs and all(isinstance(v, ast.Call) for v in hdefs) and not nk:
        chk.ok("C07.key.stable", bld, "the proxy request's headers are a copy of req.proxy_headers: the Host header is not written into the mapping the connection key hashes")
    elif not nk:
        chk.analysis_error("C07.key.stable: the `headers` of _update_proxy_auth_header_and_build_proxy_req were not found")
    # ---- C07.proxy.close: the connection to the proxy is closed whatever fails before the tunnel is handed over ---------------------------------------------
    cp = repo.func(MOD, "TCPConnector._create_proxy_connection")
    conn_def = [a for a in ast.walk(cp.node) if isinstance(a, ast.Assign) and norm.raw(a.targets[0]) == "conn" and isinstance(a.value, ast.Call)]
    if not conn_def:
        chk.analysis_error("C07.proxy.close: the tunnel connection object of _create_proxy_connection was not found")
    else:
        els = [t.orelse[0].lineno for t in ast.walk(cp.node) if isinstance(t, ast.Try) and t.orelse and any(norm.raw(a) == "conn._protocol = None" for b_ in t.orelse for a in ast.walk(b_) if isinstance(a, ast.Assign))]
        hand = min(els) if els else 10**9
        for a in [a for a in prog.awaits_in(cp.node) if conn_def[0].lineno < a.lineno < hand]:
            hs = [h for t_, h in K.enclosing_try_handlers(a) if prog.in_body_of(a, t_, "body") and (h.type is None or "BaseException" in PC.handler_types(h))]
            if any(M.contains(h, "conn.close()") and isinstance(h.body[-1], ast.Raise) for h in hs):
                chk.ok("C07.proxy.close", a, f"_create_proxy_connection(): `{K.short(a, 50)}` failing closes the connection to the proxy")
            else:
                chk.violation("C07.proxy.close", a, K.short(a, 60), "try: ... except BaseException: conn.close(); raise",
                              "an exception while the CONNECT request is written (an invalid proxy header) leaves the TCP connection to the proxy open and unknown to the connector: it survives session.close() and is closed only by the garbage collector")


def hunt3_rules(chk, repo):
    """Rules written after the third defect hunt (F176-F179)."""
    from sa.cfg import ALL
    rel = repo.func(MOD, f"{CLS}._release")
    g = cfg_of(rel.node)
    # ---- C07.release.closed: a connection released into a closed connector is closed, not dropped -------------------------------------------
    ct = [n for n in g.nodes if n.kind == "test" and norm.raw(n.ast) == "self._closed"]
    closes = K.nodes_matching(rel, "protocol.close()") + K.nodes_matching(rel, "protocol.abort()")
    if not ct:
        chk.analysis_error("C07.release.closed: `if self._closed` not found in BaseConnector._release")
    else:
        p = g.find_path(None, lambda n: n is g.exit, lambda n: n in closes, EXPLICIT, start_edges=[(t, "T") for t in ct])
        if p is None:
            chk.ok("C07.release.closed", ct[0].ast, "_release() on a closed connector closes the protocol (close() only closed the connections it tracked: a CONNECT tunnel, a connection acquired while closing)")
        else:
            chk.violation("C07.release.closed", rel, "if self._closed: return", "protocol.close()", "a connection released after the connector was closed is neither pooled nor closed: its socket stays open until garbage collection", path=g.fmt_path(p))
    # ---- C07.release.expiry: what _get() would never reuse is not pooled; what is pooled can be judged by _get() ---------------------------
    # The decision is read off the control flow, not off one `if`: the statements of _release() are followed under each value of the
    # timeout (tests evaluated in source order on the declared atoms, locals carried along) and what counts is whether the pool insertion
    # is executed - whichever way the close-or-pool test is phrased (guard + return, if/else, a local holding the verdict, its negation).
    pool = [K.stmt_of(c) for c, _b in K.exprs(rel, "self._conns[$K].append($V)")]
    if not pool:
        chk.analysis_error("C07.release.expiry: pool insertion / close-or-pool test not found in BaseConnector._release")
    else:
        base = {"self._closed": False, "self._force_close": False, "should_close": False, "protocol.should_close": False}
        is_pool = lambda st: any(st is p_ for p_ in pool)
        try:
            # vals[v]: the connection is closed (not pooled) under keepalive_timeout = v
            vals = {v: not _reached(rel.node.body, {**base, "self._keepalive_timeout": v}, is_pool) for v in (0, 0.0, -1, 15.0, None)}
        except (AnalysisError, TypeError) as e:
            vals = {"error": str(e)}
        if vals.get(0) and vals.get(0.0) and vals.get(-1) and vals.get(15.0) is False and vals.get(None) is False:
            chk.ok("C07.release.expiry", pool[0], "_release(): with keepalive_timeout <= 0 the connection is closed instead of pooled (the clean-up timer is never armed for it and _get() would find it expired); positive / None timeouts pool")
        else:
            chk.violation("C07.release.expiry", pool[0], K.short(pool[0], 80), "or (self._keepalive_timeout is not None and self._keepalive_timeout <= 0)",
                          f"close-or-pool decision by keepalive_timeout (True = closed): {vals}: with a timeout of 0 every released connection goes into the pool, _get() finds it expired at once and opens a new one, nothing ever removes it - one leaked socket per request")
    get = repo.func(MOD, f"{CLS}._get")
    # the same reading of _get(): from the statement that takes a connection out of the pool, is the statement that counts it as acquired
    # executed (connected, idle for t1 - t0 seconds)?
    taken = [K.stmt_of(c) for c, _b in K.exprs(get, "$C.popleft()")]
    reused = [K.stmt_of(c) for c, _b in K.exprs(get, "self._acquired.add($P)")]
    blk = PC._block_of(taken[0]) if taken else None
    if not taken or not reused or blk is None:
        chk.analysis_error("C07.release.expiry: reuse test not found in BaseConnector._get (pool removal `popleft()` / `self._acquired.add(proto)`)")
    else:
        rest = blk[blk.index(taken[0]) + 1:]
        conn = {norm.raw(c): True for c in ast.walk(get.node) if isinstance(c, ast.Call) and norm.raw(c.func).endswith(".is_connected") and not c.args}
        is_reuse = lambda st: any(st is r_ for r_ in reused)
        try:
            none_ok = _reached(rest, {**conn, "t1": 100.0, "t0": 1.0, "self._keepalive_timeout": None, "keepalive_timeout": None}, is_reuse)
            pos_ok = _reached(rest, {**conn, "t1": 100.0, "t0": 99.0, "self._keepalive_timeout": 15.0, "keepalive_timeout": 15.0}, is_reuse)
            old_no = not _reached(rest, {**conn, "t1": 100.0, "t0": 1.0, "self._keepalive_timeout": 15.0, "keepalive_timeout": 15.0}, is_reuse)
            why = ""
        except (AnalysisError, TypeError) as e:
            none_ok = pos_ok = old_no = False
            why = f" ({type(e).__name__}: {e})"
        if none_ok and pos_ok and old_no:
            chk.ok("C07.release.expiry", reused[0], "_get(): keepalive_timeout=None (which _release() pools) is read as `never expires`; a numeric timeout bounds the idle time")
        else:
            chk.violation("C07.release.expiry", taken[0], K.short(taken[0], 80), "keepalive_timeout is None or t1 - t0 <= keepalive_timeout",
                          "the reuse test compares the idle time with keepalive_timeout=None" + why + ": the second request through a connector created with keepalive_timeout=None raises TypeError out of _get(), and the pooled connection it had popped is dropped unclosed")
    # ---- C07.middleware.error: the digest middleware owns the challenge response until it hands it on ---------------------------------------
    DG = "aiohttp/client_middleware_digest_auth.py"
    call = repo.func(DG, "DigestAuthMiddleware.__call__")
    gc = cfg_of(call.node)
    sends = [n for n in gc.nodes if n.kind == "stmt" and isinstance(n.ast, ast.Assign) and M.contains(n.ast.value, "handler($R)")]
    if not sends:
        chk.analysis_error("C07.middleware.error: `response = await handler(request)` not found in DigestAuthMiddleware.__call__")
    else:
        rv = norm.raw(sends[0].ast.targets[0])
        freed = [n for n in gc.nodes if n.kind == "stmt" and (K.node_has(n, f"{rv}.close()") or K.node_has(n, f"{rv}.release()"))]
        asserts = [n for n in gc.nodes if n.kind == "stmt" and isinstance(n.ast, ast.Assert)]
        # exceptional edges only out of nodes that call something (a comparison of locals does not raise)
        def can_raise(n):
            return n.ast is not None and any(isinstance(x, (ast.Call, ast.Await, ast.Raise)) for x in ast.walk(n.ast))

        p = None
        seen = {}
        work = [(t, [sends[0], t]) for s_ in sends for t, k in gc.succs(s_, ALL) if k == "n"]
        while work and p is None:
            n, path = work.pop()
            # back at the loop head the next iteration begins: that the response was given back by then is rule C07.middleware
            if n.id in seen or n in freed or n in asserts or n in sends or n.kind == "for":
                continue
            seen[n.id] = True
            if n is gc.raise_:
                p = path
                break
            for t, k in gc.succs(n, ALL):
                if k in ("x-call", "x-await") and not can_raise(n):
                    continue
                work.append((t, path + [t]))
        if p is None:
            chk.ok("C07.middleware.error", sends[0].ast, f"every exception raised while the middleware holds `{rv}` (challenge parsing) passes {rv}.close() / release()")
        else:
            chk.violation("C07.middleware.error", call, K.short(sends[0].ast), f"except BaseException: {rv}.close(); raise",
                          "an exception out of _authenticate() (malformed challenge) leaves the 401 response unclosed and its connection acquired: with limit=1 every later request through the session waits forever", path=gc.fmt_path(p))


def middleware_rule(chk, repo):
    """A client middleware that sends the request again must give the first response's connection back before it does: with the pool at
    its limit the retry waits for the slot that only its own unread response can free (F120)."""
    DG = "aiohttp/client_middleware_digest_auth.py"
    call = repo.func(DG, "DigestAuthMiddleware.__call__")
    n = 0
    for lp in [l for l in ast.walk(call.node) if isinstance(l, (ast.For, ast.While))]:
        sends = [a for a in prog.awaits_in(lp) if isinstance(a.value, ast.Call) and norm.raw(a.value.func) == "handler"]
        if not sends:
            continue
        n += 1
        # every way round the loop from one handler(request) to the next passes a release()/close() of the response (restated after the
        # fifth hunt as a path rule: an early `break` before the release adds a literal to its path condition but no way round the loop)
        g_ = cfg_of(call.node)
        snodes = [n_ for n_ in g_.nodes if n_.in_finally_copy is None and isinstance(getattr(n_, "ast", None), ast.AST) and any(a is s_ or any(x is s_ for x in ast.walk(n_.ast)) for s_ in sends for a in [n_.ast])]
        relnodes = [n_ for n_ in g_.nodes if isinstance(getattr(n_, "ast", None), ast.AST) and n_.kind == "stmt" and any(
            isinstance(c.func, ast.Attribute) and c.func.attr in ("release", "close") and isinstance(c.func.value, ast.Name) for c in K.node_calls(n_))]
        snodes = [n_ for n_ in snodes if any(x is lp for x in prog.enclosing(n_.ast, (ast.For, ast.While)))]
        # one examination per iteration that is followed by another one (`for retry_count in range(2)`: retry_count = 0); tests of the loop
        # variable are decided by its value
        vals = K.repeating_values(lp) if isinstance(lp, ast.For) else None
        again = None
        for v in (vals if vals is not None else [None]):
            edge = K.iteration_edges(lp, v) if v is not None else (lambda a, b, k: False)
            again = again or (K.find_path_edges(g_, snodes, lambda n_: n_ in snodes, lambda n_: n_ in relnodes, edge, EXPLICIT) if snodes else None)
        rel = [n_.ast for n_ in relnodes] if (snodes and relnodes and again is None) else []
        if rel:
            chk.ok("C07.middleware", rel[0], "the digest middleware releases the challenge response before it sends the request again")
        else:
            chk.violation("C07.middleware", sends[0], K.short(sends[0]), "response.release() before the next handler(request)",
                          "DigestAuthMiddleware calls handler(request) a second time while the 401 response of the first call still holds its connection: when the 401 body has not fully arrived and the pool is at its limit (limit=1, or `limit` concurrent requests) the retry queues for a slot that only its own unread response can free - the request deadlocks on itself")
    chk.expect_count("C07.middleware", n, 1, "retry loops around handler(request) in the digest middleware")
